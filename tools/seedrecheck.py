#!/usr/bin/env python3
"""tools/seedrecheck.py <ID>-<k> [extra check ids]: re-run the quick checks against /repo with the kept patch seeded/<ID>-<k>/patch.diff applied
(after the checks were strengthened).  The demonstration / test-suite verdicts of the first evaluation (tools/seedeval.py) stand; only `checks`,
`detected_by` and the command log of meta.json are updated.  /repo is restored afterwards."""
import json, os, subprocess, sys
args = [a for a in sys.argv[1:] if not a.startswith('--repo=')]
repo = ([a.split('=', 1)[1] for a in sys.argv[1:] if a.startswith('--repo=')] or ['/repo'])[0]      # a scratch worktree of /repo at HEAD, for parallel re-checks
name = args[0]
extra = args[1:]
d = '/verif/seeded/' + name
meta = json.load(open(d + '/meta.json'))
env = dict(os.environ, OMP_NUM_THREADS='1', OPENBLAS_NUM_THREADS='1', MPLBACKEND='Agg')


def sh(cmd, timeout=5400):
    r = subprocess.run(cmd, shell=True, env=env, capture_output=True, text=True, timeout=timeout)
    return r.returncode, r.stdout + r.stderr


assert sh('git -C %s status --porcelain --untracked-files=no' % repo)[1].strip() == '', repo + ' not clean'
rc, out = sh('git -C %s apply %s/patch.diff' % (repo, d))
if rc != 0:
    # the tree was repaired around the lines the change touches: apply with offsets / fuzz (the stored patch stays as it was written)
    rc, out = sh('patch -p1 -F3 -s --no-backup-if-mismatch -d %s < %s/patch.diff' % (repo, d))
    meta['applied_with_fuzz'] = rc == 0
assert rc == 0, out
results = {}
try:
    for cid in [meta['property']] + extra:
        rcc, outc = sh('VERIF_REPO=%s /verif/check %s --tier quick' % (repo, cid))
        rej = [ln for ln in outc.split('\n') if ln.startswith('REJECTED')]
        results[cid] = {'exit': rcc, 'rejected_lines': len(rej), 'first': rej[:3], 'tail': outc.strip().split('\n')[-1][:300]}
        meta['ran'].append('(re-check) git -C %s apply patch.diff && VERIF_REPO=%s ./check %s --tier quick -> exit %d' % (repo, repo, cid, rcc))
finally:
    sh('git -C %s checkout -- .' % repo)
    if repo == '/repo':
        sh('git -C /verif checkout -- evidence')          # evidence written with the patch applied is not evidence about /repo
meta['checks'] = results
meta['detected_by'] = [c for c, r in results.items() if r['exit'] == 1]
json.dump(meta, open(d + '/meta.json', 'w'), indent=1)
print(name, 'detected_by', meta['detected_by'], [r['first'][:1] for r in results.values()])
