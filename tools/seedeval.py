#!/usr/bin/env python3
"""tools/seedeval.py <ID> <k> [--skip-suite]: confirm a seeded change written by a sub-agent in /tmp/wt/<ID>/_out/<k>/ and record it.

 1. demo on the clean worktree exits 0, with the patch exits 1
 2. the pinned test-suite still passes with the patch (in the scratch worktree; compared with BASELINE.json)
 3. the patch is applied to /repo, the property's quick check (and optionally others) is run, the patch is undone
 4. /verif/seeded/<ID>-<k>/{patch.diff, demo.py, notes.md, meta.json}
"""
import json, os, shutil, subprocess, sys
pid, k = sys.argv[1], sys.argv[2]
skip_suite = '--skip-suite' in sys.argv
extra = [a for a in sys.argv[3:] if not a.startswith('--')]
wt = os.environ.get('SEED_WT', '/tmp/wt') + '/%s' % pid
src = '%s/_out/%s' % (wt, k)
env = dict(os.environ, OMP_NUM_THREADS='1', OPENBLAS_NUM_THREADS='1', MPLBACKEND='Agg')


def sh(cmd, cwd=None, timeout=3600):
    r = subprocess.run(cmd, shell=True, cwd=cwd, env=env, capture_output=True, text=True, timeout=timeout)
    return r.returncode, (r.stdout + r.stderr)


meta = {'property': pid, 'change': k, 'ran': []}
assert sh('git -C %s status --porcelain --untracked-files=no' % wt)[1].strip() == '', 'worktree not clean'
if os.path.exists(src + '/phaseA.json'):
    # steps 1-2 were done by tools/seedphaseA.py (same commands, run in parallel per worktree)
    pa = json.load(open(src + '/phaseA.json'))
    assert 'error' not in pa, pa
    rc0, rc1, suite = pa['demo_exit_clean'], pa['demo_exit_patched'], pa['suite']
    meta['demo_exit_clean'], meta['demo_exit_patched'] = rc0, rc1
    meta['ran'].append('cd %s && /venv/bin/python _out/%s/demo.py  (clean: %d, patched: %d)' % (wt, k, rc0, rc1))
    meta['ran'].append('/verif/tools/baseline.py %s -> %s' % (wt, pa['suite_line']))
    meta['suite_with_patch'] = suite
else:
    rc0, _ = sh('/venv/bin/python _out/%s/demo.py' % k, cwd=wt)
    rc, out = sh('git -C %s apply --check %s/patch.diff && git -C %s apply %s/patch.diff' % (wt, src, wt, src))
    assert rc == 0, 'patch does not apply: ' + out
    rc1, demo_out = sh('/venv/bin/python _out/%s/demo.py' % k, cwd=wt)
    meta['demo_exit_clean'], meta['demo_exit_patched'] = rc0, rc1
    meta['ran'].append('cd %s && /venv/bin/python _out/%s/demo.py  (clean: %d, patched: %d)' % (wt, k, rc0, rc1))
    suite = 'skipped'
    if not skip_suite:
        rcs, outs = sh('/verif/tools/baseline.py %s' % wt)
        suite = 'pass' if rcs == 0 else 'FAIL: ' + outs[-400:]
        meta['ran'].append('/verif/tools/baseline.py %s -> %s' % (wt, outs.strip().split('\n')[0]))
    if skip_suite:
        # re-evaluation after the checks were strengthened: the suite verdict of the first evaluation stands (same patch)
        try:
            prev = json.load(open('/verif/seeded/%s-%s/meta.json' % (pid, k)))
            if prev.get('suite_with_patch') == 'pass':
                suite = 'pass'
                meta['ran'] += [r for r in prev.get('ran', []) if 'baseline.py' in r]
        except OSError:
            pass
    meta['suite_with_patch'] = suite
sh('git -C %s checkout -- pyerrors' % wt)
# run our checks against /repo with the patch
assert sh('git -C /repo status --porcelain --untracked-files=no')[1].strip() == '', '/repo not clean'
rc, out = sh('git -C /repo apply %s/patch.diff' % src)
assert rc == 0, out
results = {}
try:
    for cid in [pid] + extra:
        rcc, outc = sh('/verif/check %s --tier quick' % cid, timeout=5400)
        rej = [ln for ln in outc.split('\n') if ln.startswith('REJECTED')]
        results[cid] = {'exit': rcc, 'rejected_lines': len(rej), 'first': rej[:3], 'tail': outc.strip().split('\n')[-1][:300]}
        meta['ran'].append('git -C /repo apply patch.diff && ./check %s --tier quick -> exit %d' % (cid, rcc))
finally:
    sh('git -C /repo checkout -- .')
    sh('git -C /verif checkout -- evidence')          # evidence written with the patch applied is not evidence about /repo
meta['checks'] = results
meta['detected_by'] = [c for c, r in results.items() if r['exit'] == 1]
dst = '/verif/seeded/%s-%s' % (pid, k)
os.makedirs(dst, exist_ok=True)
for f in ('patch.diff', 'demo.py', 'notes.md'):
    if os.path.exists(os.path.join(src, f)):
        shutil.copy(os.path.join(src, f), dst)
notes = open(os.path.join(src, 'notes.md')).read() if os.path.exists(os.path.join(src, 'notes.md')) else ''
meta['needs_to_manifest'] = notes[:1500]
meta['valid'] = (rc0 == 0 and rc1 == 1 and (suite in ('pass', 'skipped')))
json.dump(meta, open(os.path.join(dst, 'meta.json'), 'w'), indent=1)
print(json.dumps({k2: meta[k2] for k2 in ('property', 'change', 'demo_exit_clean', 'demo_exit_patched', 'suite_with_patch', 'detected_by', 'valid')}))
for c, r in results.items():
    print(c, r['exit'], r['rejected_lines'], r['first'][:2], r['tail'][:160])
