#!/usr/bin/env python3
"""Regenerate seeded/INDEX.md from seeded/*/meta.json."""
import glob, json, os
V = os.path.dirname(os.path.dirname(os.path.abspath(__file__)))
rows = []
for m in sorted(glob.glob(os.path.join(V, 'seeded', '*', 'meta.json'))):
    d = json.load(open(m))
    name = os.path.basename(os.path.dirname(m))
    first = ''
    for c in d.get('detected_by', []):
        f = d['checks'][c]['first']
        if f:
            first = f[0].split('::', 1)[-1].strip()[:110]
            break
    summary = d.get('summary') or d.get('needs_to_manifest', '').split('\n')[0][:160]
    rows.append((name, d['property'], 'yes' if d.get('valid') else 'NO', (', '.join(d.get('detected_by', [])) or '—') + (' (superseded by a repair, last evaluation)' if d.get('superseded') else ''), first, summary))
with open(os.path.join(V, 'seeded', 'INDEX.md'), 'w') as f:
    f.write('# Seeded changes\n\nWritten by independent sub-agents from the property text only (own scratch worktree, nothing from /verif). '
            'Each was confirmed here: the demonstration exits 0 on the clean tree and 1 with the patch, the pinned test-suite still passes with the patch '
            '(tools/seedeval.py), then the patch was applied to /repo, the quick check run, and the patch undone (round 7, k = 15 / 16: '
            'tools/seedphaseA.py + tools/seedeval_par.py, the patch applied to the property\'s own scratch worktree of /repo at HEAD and the check run with VERIF_REPO pointing there; the commands are in each meta.json; "first_try" there is the verdict before the round-7 strengthening).\n\n')
    f.write('| change | property | confirmed | rejected by (quick tier) | first rejecting clause | what it is |\n|---|---|---|---|---|---|\n')
    for r in rows:
        f.write('| %s | %s | %s | %s | %s | %s |\n' % tuple(x.replace('|', '\\|') for x in r))
    det = sum(1 for r in rows if r[3] != '—' and r[2] == 'yes')
    own = sum(1 for r in rows if r[2] == 'yes' and r[1] in [x.strip() for x in r[3].split(' (')[0].split(',')])
    f.write('\n%d confirmed changes, %d rejected in the quick tier: %d by the check of the property they were written against, %d by the check of the property whose clause they break (see the column).\n' % (sum(1 for r in rows if r[2] == 'yes'), det, own, det - own))
print(open(os.path.join(V, 'seeded', 'INDEX.md')).read()[-600:])
