#!/usr/bin/env python3
"""tools/seedeval_par.py <wtroot> <ID> <k...>: step 3-4 of tools/seedeval.py for changes already confirmed by tools/seedphaseA.py, run against the
property's own scratch worktree (<wtroot>/<ID>, a worktree of /repo at HEAD) through VERIF_REPO instead of against /repo, so that several
properties can be evaluated at the same time.  Writes /verif/seeded/<ID>-<k>/{patch.diff, demo.py, notes.md, meta.json}."""
import json, os, shutil, subprocess, sys
also = [a.split('=', 1)[1] for a in sys.argv if a.startswith('--also=')]
sys.argv = [a for a in sys.argv if not a.startswith('--also=')]
root, pid = sys.argv[1], sys.argv[2]
wt = '%s/%s' % (root, pid)
env = dict(os.environ, OMP_NUM_THREADS='1', OPENBLAS_NUM_THREADS='1', MPLBACKEND='Agg')


def sh(cmd, cwd=None, timeout=5400):
    r = subprocess.run(cmd, shell=True, cwd=cwd, env=env, capture_output=True, text=True, timeout=timeout)
    return r.returncode, (r.stdout + r.stderr)


for k in sys.argv[3:]:
    src = '%s/_out/%s' % (wt, k)
    pa = json.load(open(src + '/phaseA.json'))
    if 'error' in pa:
        print(pid, k, 'phaseA error', pa)
        continue
    meta = {'property': pid, 'change': k, 'demo_exit_clean': pa['demo_exit_clean'], 'demo_exit_patched': pa['demo_exit_patched'],
            'suite_with_patch': pa['suite'],
            'ran': ['cd %s && /venv/bin/python _out/%s/demo.py  (clean: %d, patched: %d)' % (wt, k, pa['demo_exit_clean'], pa['demo_exit_patched']),
                    '/verif/tools/baseline.py %s -> %s' % (wt, pa['suite_line'])]}
    assert sh('git -C %s status --porcelain --untracked-files=no' % wt)[1].strip() == '', wt + ' not clean'
    rc, out = sh('git -C %s apply %s/patch.diff' % (wt, src))
    assert rc == 0, out
    results = {}
    try:
        for cid in [pid] + also:
            rcc, outc = sh('VERIF_REPO=%s /verif/check %s --tier quick' % (wt, cid))
            rej = [ln for ln in outc.split('\n') if ln.startswith('REJECTED')]
            results[cid] = {'exit': rcc, 'rejected_lines': len(rej), 'first': rej[:3], 'tail': outc.strip().split('\n')[-1][:300]}
            meta['ran'].append('git -C %s apply patch.diff && VERIF_REPO=%s ./check %s --tier quick -> exit %d  (scratch worktree of /repo at HEAD)' % (wt, wt, cid, rcc))
    finally:
        sh('git -C %s checkout -- pyerrors' % wt)
    meta['checks'] = results
    meta['detected_by'] = [c for c, r in results.items() if r['exit'] == 1]
    dst = '/verif/seeded/%s-%s' % (pid, k)
    os.makedirs(dst, exist_ok=True)
    if os.path.exists(dst + '/meta.json'):
        prev = json.load(open(dst + '/meta.json'))
        meta['first_try'] = prev.get('first_try', {'checks': prev.get('checks'), 'detected_by': prev.get('detected_by')})
    for f in ('patch.diff', 'demo.py', 'notes.md'):
        if os.path.exists(os.path.join(src, f)):
            shutil.copy(os.path.join(src, f), dst)
    notes = open(os.path.join(src, 'notes.md')).read() if os.path.exists(os.path.join(src, 'notes.md')) else ''
    meta['needs_to_manifest'] = notes[:1500]
    meta['valid'] = (pa['demo_exit_clean'] == 0 and pa['demo_exit_patched'] == 1 and pa['suite'] == 'pass')
    json.dump(meta, open(os.path.join(dst, 'meta.json'), 'w'), indent=1)
    print(pid, k, 'valid' if meta['valid'] else 'INVALID', 'exit', results[pid]['exit'], results[pid]['rejected_lines'], results[pid]['first'][:2], results[pid]['tail'][:160], flush=True)
