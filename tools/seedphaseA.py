#!/usr/bin/env python3
"""tools/seedphaseA.py <worktree> <k...>: steps 1-2 of tools/seedeval.py (demonstration on the clean / patched worktree, pinned
test-suite with the patch) for several changes of one scratch worktree; results in <worktree>/_out/<k>/phaseA.json.  Touches only the
scratch worktree, so several properties can be confirmed in parallel; step 3 (the checks against /repo) stays serial in seedeval."""
import json, os, subprocess, sys
wt = sys.argv[1]
env = dict(os.environ, OMP_NUM_THREADS='1', OPENBLAS_NUM_THREADS='1', MPLBACKEND='Agg')


def sh(cmd, cwd=None, timeout=3600):
    r = subprocess.run(cmd, shell=True, cwd=cwd, env=env, capture_output=True, text=True, timeout=timeout)
    return r.returncode, (r.stdout + r.stderr)


for k in sys.argv[2:]:
    src = '%s/_out/%s' % (wt, k)
    assert sh('git -C %s status --porcelain --untracked-files=no' % wt)[1].strip() == '', 'worktree not clean'
    rc0, _ = sh('/venv/bin/python _out/%s/demo.py' % k, cwd=wt)
    rc, out = sh('git -C %s apply --check %s/patch.diff && git -C %s apply %s/patch.diff' % (wt, src, wt, src))
    if rc != 0:
        json.dump({'error': 'patch does not apply: ' + out[-300:]}, open(src + '/phaseA.json', 'w'))
        continue
    rc1, _ = sh('/venv/bin/python _out/%s/demo.py' % k, cwd=wt)
    rcs, outs = sh('/verif/tools/baseline.py %s' % wt)
    sh('git -C %s checkout -- pyerrors' % wt)
    json.dump({'demo_exit_clean': rc0, 'demo_exit_patched': rc1, 'suite': 'pass' if rcs == 0 else 'FAIL: ' + outs[-400:],
               'suite_line': outs.strip().split('\n')[0]}, open(src + '/phaseA.json', 'w'))
    print(wt, k, rc0, rc1, outs.strip().split('\n')[0])
