#!/venv/bin/python
"""Run the repository's pinned test-suite (guard off) and compare with BASELINE.json's stable_pass list."""
import json, os, subprocess, sys, tempfile
import xml.etree.ElementTree as ET
repo = sys.argv[1] if len(sys.argv) > 1 else '/repo'
b = json.load(open('/root/.vp/BASELINE.json'))
fd, x = tempfile.mkstemp(suffix='.xml'); os.close(fd)
env = dict(os.environ); env.pop('PYERRORS_VERIF_TRACE', None); env['MPLBACKEND'] = 'Agg'
r = subprocess.run(['/venv/bin/python', '-m', 'pytest', '-q', '-p', 'no:cacheprovider', '--timeout=900', '--continue-on-collection-errors',
                    '--junitxml=' + x], cwd=repo, env=env, capture_output=True, text=True)
passed = set()
if os.path.getsize(x) == 0:
    print('pytest wrote no junit file:', r.stdout[-2000:], r.stderr[-2000:]); sys.exit(2)
for tc in ET.parse(x).getroot().iter('testcase'):
    if not any(c.tag in ('failure', 'error', 'skipped') for c in tc):
        passed.add(tc.get('classname') + '::' + tc.get('name'))
os.unlink(x)
missing = [t for t in b['stable_pass'] if t not in passed]
print('passed', len(passed), 'stable_pass', len(b['stable_pass']), 'missing', len(missing))
for m in missing: print('  MISSING', m)
sys.exit(1 if missing else 0)
