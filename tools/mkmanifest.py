#!/usr/bin/env python3
"""Regenerate MANIFEST.json from the table below (one entry per claimed property)."""
import json, os
V = os.path.dirname(os.path.dirname(os.path.abspath(__file__)))
CLAIMED = {
 'C01': dict(text="TLC checks on the specification alone that ObsCore!Derive is independent of how a sum is split under the property's side condition (all layout triples, 2 replicas x 3 configurations; 254k states in the thorough tier) and that up-weighting preserves the ensemble mean. Every evaluation of a random expression tree by real pyerrors (operators step by step; derived_observable with autograd / num_grad / man_grad; array mode; complex operands; all layout classes) is validated by DeriveTrace.tla: TLC differentiates the tree symbolically (Expr.tla), applies Derive in exact rational arithmetic and compares value, every fluctuation, configuration list, replica mean and covariance gradient at 1e-9.",
             note="Trusted: TLC, the Java rational kernel (BigInteger), java.lang.Math for elementary functions, the projection harness/pe_project.py. Operand values are kept inside the domain of f with a margin. num_grad compared at 1e-6.",
             technique="TLA+ spec (ObsCore/Expr) model-checked by TLC + trace validation of real executions", ref="6 C01"),
 'C02': dict(text="Gamma.tla is a transcription of Wolff's estimator (with the Schaefer et al. tail) in exact rational arithmetic. TLC checks on it, for every configuration list in 1..U (>=5 entries) and every data word over {-1,0,1}, tau_int >= 1/2, non-negative squares, window range, the naive S=0 limit and the zero-variance short-cut. Every gamma_method call of real pyerrors on generated observables (1-3 ensembles x 1-3 replicas, contiguous/strided/gapped lists on a common grid, white/AR(1)/constant/alternating/integer data, parameters as argument/dictionary/global, fft on/off, covariance inputs) is validated by GammaTrace.tla: window exactly, tau_int, rho(t), cumulative tau, and the squares of dvalue, ddvalue, dtau_int, drho at 1e-9.",
             note="Trusted: TLC, Java rational kernel, double-precision evaluation of the windowing function g(W) (cases with |g| < 1e-9 are skipped, counted as undecided), projection. Domain: replicas on a common grid (others skipped).",
             technique="TLA+ transcription of the Gamma method model-checked by TLC + trace validation of real gamma_method calls", ref="6 C02"),
 'C03': dict(text="Session.tla models the process state (global defaults, per-ensemble dictionaries, pool, per-object analysis cache); TLC explores it exhaustively (98k states quick) for parameter precedence, 'an analysis touches only its own cache', 'pool only grows', 'new data depend on operand data only', reweighted inheritance; MC_Gamma proves on the spec invariance under i->a*i+b and covariance under scaling. TLC-simulated behaviours of Session are replayed action by action into real pyerrors and, together with random histories, validated by SessionTrace.tla, which keeps its own copy of the parameter slots and pool and recomputes every analysis with Gamma!Analyse and every arithmetic step with ObsCore!Derive. Metamorphic pairs (relabelled, renamed, shifted, scaled, fft on/off, repeated, after analysing another object) are compared inside TLC.",
             note="Trusted: as C02; the replayer's mapping of abstract parameter values to numbers. A history whose analysis hits a windowing tie is skipped for that step only.",
             technique="TLA+ state machine (Session) model-checked by TLC; TLC-generated behaviours replayed into the code; trace validation", ref="6 C03"),
 'C04': dict(text="ObsCore!WellFormed is the structural invariant. TLC shows on the spec that Construct accepts exactly the well-formed requests of a grammar and that Construct / Derive / Reweight / Correlate / Merge results are WellFormed on every small layout (MC_Align, Gen_Construct). All 3168 TLC-enumerated constructor requests are replayed into pe.Obs (must raise / must equal Construct(request)). Random requests of every malformed class, covariance observables (valid, '|' in name, asymmetric, indefinite), the full closure table {Obs,CObs} x {Obs,CObs,int,float,complex,ndarray,numpy scalars} x {+,-,*,/} x both orders, elementary functions, and the results of fits, roots, json/dobs/pickle/jackknife round trips, linalg, reweight/correlate/merge are judged by OpsTrace.tla with WellFormed / Closed.",
             note="Trusted: TLC, kernel, projection (which reports kinds of values and names as flags instead of coercing). Closure is claimed for + - * / and the elementary functions.",
             technique="TLA+ invariant WellFormed model-checked on spec operations; TLC-enumerated requests replayed; trace validation of returned objects", ref="6 C04"),
 'C05': dict(text="ObsCore!Reweight/Correlate/Merge are written on (chain, configuration number) -> sample maps. MC_Align: TLC enumerates all weight/observable layout pairs (2 replicas, subsets of 1..6 with >= 5 entries; 4033 states) and checks on the spec: defined iff alignable, WellFormed results, support of the result, constant weight = identity, self-weight = <o^2>/<o>, merge order-independent, flag set and inherited. Real reweight / correlate / merge_obs calls (weights on 1-3 replicas; prefix/suffix/stride/random subsets; replica subsets; both normalisations; lists, Corr, method form; unalignable variants that must raise) are validated by OpsTrace.tla in value, every fluctuation, replica mean, configuration list and flag at 1e-9.",
             note="Trusted: TLC, kernel, projection. Weights are positive with mean 1.",
             technique="TLA+ spec of reweight/correlate/merge model-checked by TLC + trace validation", ref="6 C05"),
 'C06': dict(text="CovTrace.tla states the identities of the property on the matrices pe.covariance actually returns, in exact rational arithmetic: symmetry, diagonal = dvalue^2, cov = D corr D, unit diagonal, |corr| <= 1, zero for observables sharing nothing, permutation equivariance (the permuted list is run through the code), Pearson correlation of the stored fluctuations on the common configurations for single-chain observables, positive semi-definiteness by exact LDL^T pivots when all share the configurations, J1 Sigma J2^T for purely external inputs; chol_inv^T chol_inv cov = 1, eigenvalue smoothing keeps the trace (every admissible E), error_band^2 = g^T C g. TLC enumerates every order of up to 4 keys with 1..3 points (2127 scenarios thorough) for sort_corr, replayed into the code, result must be the exact permutation.",
             note="Trusted: TLC, kernel, projection. Pearson read without re-centring (DESIGN 5.1). Observables whose error is zero are not used.",
             technique="TLA+ identities checked by TLC on recorded results; TLC-enumerated scenarios replayed", ref="6 C06"),
 'C13': dict(text="Resample.tla defines jackknife / bootstrap as exact transforms. MC_Resample: for every data word over {-1,0,1} of length 5..6 (..8 thorough) TLC proves UnJack(Jack(x)) = x, jackknife variance = naive (S=0) squared error of Gamma.tla, and that a bootstrap table determines the samples iff its count matrix has full column rank. Real export_jackknife / import_jackknife / export_bootstrap / import_bootstrap calls on single-chain observables (N = 5..500, all list classes, supplied and name-seeded tables, rank-deficient tables, too few samples) are validated by ResampleTrace.tla at 1e-12 (bootstrap import 1e-8).",
             note="Trusted: TLC, kernel, projection; the name-seeded tables are read back through save_rng.",
             technique="TLA+ spec of resampling model-checked by TLC + trace validation", ref="6 C13"),
 'C19': dict(text="FormatTrace.tla reads the printed string character by character (Str module), parses value, error and unit as exact decimals and checks |v - value| <= unit/2, |e - dvalue| <= unit/2, the number of significant digits of the error (carry and integer printing included), flags, complex form, plain value for zero error, prior strings through least_squares(...).priors, comparisons / float / is_zero_within_error / Corr.plottable. TLC enumerates the quantifier grid (27 error mantissas at every rounding boundary x 30 decades x 7 value mantissas x 6 magnitude ratios x significance 1..6 = 204 120 points thorough; 1/7 of a 22 680-point sub-grid quick); every point is formatted by the code.",
             note="Trusted: TLC, kernel (BigDecimal parsing), Str module. Half a unit inclusive; 1e-9 slack on the error (scaled in floating point before rounding).",
             technique="TLC-enumerated input grid replayed into the code; TLA+ read-back of the printed characters", ref="6 C19"),
 'C20': dict(text="Exhaustive: TLC enumerates all 125 + 625 index tuples and the 16 Grid tags plus unknown tags; pyerrors.dirac is evaluated on each and DiracTrace.tla decides with Dirac.tla (permutation sign by inversion count / rejection outside the domain; every tag = stated product or commutator of the dumped base matrices; Clifford algebra, Hermiticity, gamma5 = product and anticommuting, on the dumped arrays in exact Gaussian-rational arithmetic). K_n(obs) for n = 0..6 on an x grid: value and every fluctuation against -(K_{n-1}+K_{n+1})/2 from the kernel's integral representation; 29 re-exported special functions: propagated fluctuation against the 3-level Richardson derivative of the function's own scipy values at 1e-6.",
             note="Trusted: TLC, kernel (K_n by trapezoidal rule on the integral representation), scipy's function VALUES for the Richardson oracle.",
             technique="exhaustive TLC enumeration replayed into the code + TLA+ algebra on dumped tables; trace validation for derivatives", ref="6 C20"),
 'C14': dict(text="CorrOps.tla specifies correlator arithmetic entry-wise through Expr (value and analytic gradient per timeslice), propagation of undefined slices, NaN -> undefined, and every index transformation as an explicit map. MC_Corr: TLC checks the algebra on all pairs of masks (T=4 quick, T=6 thorough): mask union, commutativity, roll/reverse/thin/symmetrisation/Hankel laws. TLC enumerates every pattern of undefined timeslices (T=4,5 quick: 46 patterns; T=2..8 thorough); for each, real correlators are built and every operator x partner kind (Corr, Obs, CObs, int, float, complex) x operand order, 17 functions, all index methods with argument grids, matrix (N=2,3) and complex content run through pyerrors; CorrTrace.tla recomputes every entry (value and each fluctuation) and compares masks, T, N; frame events compare projections of operands/arguments before/after and two invocations.",
             note="Trusted: TLC, kernel, corrproj projection. All observables on one 6-configuration chain (alignment is C01). Known finding (open): x ** Corr / Corr ** Corr raise TypeError.",
             technique="TLA+ spec of correlator algebra model-checked by TLC; TLC-enumerated masks replayed; trace validation", ref="6 C14"),
 'C15': dict(text="CorrDerived.tla gives, per variant, the referenced timeslice offsets and the formula as an Expr tree (deriv: symmetric/forward/backward/improved/log; second_deriv: symmetric/big_symmetric/improved/log; m_eff: log/logsym/arccosh by formula, cosh/periodic/sinh by root equation + inverse-function rule; plateau by weighted mean). An output slice is defined iff all referenced slices are and the formula is real. MC_Corr proves the definedness law for all masks on the spec. For every TLC-enumerated mask (T=4,6 quick: 78 patterns; T=4..10 thorough) all variants are computed by pyerrors on positive and sign-changing data and compared entry-wise (value, every fluctuation, set of defined slices).",
             note="Trusted: TLC, kernel. Root variants driven with solvable data; sinh middle-slice convention mirrored.",
             technique="TLA+ formulas over referenced timeslices; TLC-enumerated masks replayed; trace validation", ref="6 C15"),
}
PENDING = {}
props = [json.loads(l) for l in open(os.path.join(V, 'properties.jsonl'))]
checks, na = [], []
for p in props:
    i = p['id']
    if i in CLAIMED:
        c = CLAIMED[i]
        checks.append({
            'property_id': i,
            'quick_cmd': './check %s --tier quick' % i,
            'thorough_cmd': './check %s --tier thorough' % i,
            'evidence_file': '/verif/evidence/%s.json' % i,
            'replay_cmd_template': './check %s --replay {path}' % i,
            'engine': 'tlc',
            'level_claimed': {'category': c.get('category', 'model_checking'), 'text': c['text'], 'design_ref': 'DESIGN.md section ' + c['ref']},
            'level_note': c['note'],
            'technique': c['technique'],
        })
    else:
        na.append({'property_id': i, 'reason': PENDING.get(i, 'check not built yet in this round (planned: DESIGN.md section 6 %s); nothing is claimed for it' % i)})
m = {
 'version': 1,
 'setup_cmd': 'cd /verif && mkdir -p build && javac -nowarn -cp /opt/veriftools/tla/tla2tools.jar -d build java/tlc2/module/*.java && /venv/bin/python -m harness.tlc',
 'hooks': {'guard': 'PYERRORS_VERIF_TRACE', 'enable': 'none needed: the harness observes pyerrors through its public API from outside (no source hooks in /repo)',
           'baseline_off_cmd': 'cd /repo && /venv/bin/python -m pytest -ra -q -p no:cacheprovider --timeout=900 --continue-on-collection-errors',
           'source_commits': [], 'add_only': True},
 'engines': [{'name': 'tlc', 'path': '/verif/harness/tlc.py', 'serves_properties': [c['property_id'] for c in checks],
              'kind_free_text': 'TLC 1.8 on explicit TLA+ specifications in /verif/spec with a Java module override for exact rationals; trace validation of recorded executions of real pyerrors'}],
 'checks': checks,
 'not_applicable': na,
 'notes': 'All checks import pyerrors from /repo\'s working tree. VERIF_SEED seeds every random choice. Exit 2 = machinery failure.',
}
json.dump(m, open(os.path.join(V, 'MANIFEST.json'), 'w'), indent=1)
print('claimed', len(checks), 'not_applicable', len(na))
