#!/usr/bin/env python3
"""Regenerate MANIFEST.json from the table below (one entry per claimed property)."""
import json, os
V = os.path.dirname(os.path.dirname(os.path.abspath(__file__)))
CLAIMED = {
 'C01': dict(text="TLC checks on the specification alone that ObsCore!Derive is independent of how a sum is split under the property's side condition (all layout triples, 2 replicas x 3 configurations; 254k states in the thorough tier) and that up-weighting preserves the ensemble mean. Every evaluation of a random expression tree by real pyerrors (operators step by step; derived_observable with autograd / num_grad / man_grad; array mode; complex operands; all layout classes) is validated by DeriveTrace.tla: TLC differentiates the tree symbolically (Expr.tla), applies Derive in exact rational arithmetic and compares value, every fluctuation, configuration list, replica mean and covariance gradient at 1e-9.",
             note="Trusted: TLC, the Java rational kernel (BigInteger), java.lang.Math for elementary functions, the projection harness/pe_project.py. Operand values are kept inside the domain of f with a margin. num_grad compared at 1e-6.",
             technique="TLA+ spec (ObsCore/Expr) model-checked by TLC + trace validation of real executions", ref="6 C01"),
}
PENDING = {}
props = [json.loads(l) for l in open(os.path.join(V, 'properties.jsonl'))]
checks, na = [], []
for p in props:
    i = p['id']
    if i in CLAIMED:
        c = CLAIMED[i]
        checks.append({
            'property_id': i,
            'quick_cmd': './check %s --tier quick' % i,
            'thorough_cmd': './check %s --tier thorough' % i,
            'evidence_file': '/verif/evidence/%s.json' % i,
            'replay_cmd_template': './check %s --replay {path}' % i,
            'engine': 'tlc',
            'level_claimed': {'category': c.get('category', 'model_checking'), 'text': c['text'], 'design_ref': 'DESIGN.md section ' + c['ref']},
            'level_note': c['note'],
            'technique': c['technique'],
        })
    else:
        na.append({'property_id': i, 'reason': PENDING.get(i, 'check not built yet in this round (planned: DESIGN.md section 6 %s); nothing is claimed for it' % i)})
m = {
 'version': 1,
 'setup_cmd': 'cd /verif && mkdir -p build && javac -nowarn -cp /opt/veriftools/tla/tla2tools.jar -d build java/tlc2/module/*.java && /venv/bin/python -m harness.tlc',
 'hooks': {'guard': 'PYERRORS_VERIF_TRACE', 'enable': 'none needed: the harness observes pyerrors through its public API from outside (no source hooks in /repo)',
           'baseline_off_cmd': 'cd /repo && /venv/bin/python -m pytest -ra -q -p no:cacheprovider --timeout=900 --continue-on-collection-errors',
           'source_commits': [], 'add_only': True},
 'engines': [{'name': 'tlc', 'path': '/verif/harness/tlc.py', 'serves_properties': [c['property_id'] for c in checks],
              'kind_free_text': 'TLC 1.8 on explicit TLA+ specifications in /verif/spec with a Java module override for exact rationals; trace validation of recorded executions of real pyerrors'}],
 'checks': checks,
 'not_applicable': na,
 'notes': 'All checks import pyerrors from /repo\'s working tree. VERIF_SEED seeds every random choice. Exit 2 = machinery failure.',
}
json.dump(m, open(os.path.join(V, 'MANIFEST.json'), 'w'), indent=1)
print('claimed', len(checks), 'not_applicable', len(na))
