#!/bin/sh
# tools/mutate.sh <patch-file|-> <check ids...>: apply a patch to /repo, run the checks, undo.  For self-testing only.
P="$1"; shift
git -C /repo apply "$P" || { echo "patch does not apply"; exit 2; }
for id in "$@"; do
  /verif/check "$id" --tier quick > /tmp/mut.$$.log 2>&1; rc=$?
  echo "$id rc=$rc $(grep -c REJECTED /tmp/mut.$$.log) rejects; $(grep -E 'VIOLATION|^OK|MACHINERY' /tmp/mut.$$.log | head -2 | tr '\n' ' ')"
  grep REJECTED /tmp/mut.$$.log | head -4
done
rm -f /tmp/mut.$$.log
git -C /repo checkout -- .
