package tlc2.module;

import java.util.HashMap;

import tlc2.value.impl.IntValue;
import tlc2.value.impl.TupleValue;
import tlc2.value.impl.Value;

/** Java evaluation of Idl!Positions (the TLA+ definition in Idl.tla is the specification; this is the same function, faster). */
public class Idl {
    public static final long serialVersionUID = 20261001L;

    /** for every element of t its 1-based position in s, 0 if absent (integer sequences) */
    public static Value Positions(Value s, Value t) {
        Value[] a = ((TupleValue) s.toTuple()).elems, b = ((TupleValue) t.toTuple()).elems;
        HashMap<Integer, Integer> pos = new HashMap<>();
        for (int i = 0; i < a.length; i++) pos.putIfAbsent(((IntValue) a[i]).val, i + 1);
        Value[] r = new Value[b.length];
        for (int k = 0; k < b.length; k++) r[k] = IntValue.gen(pos.getOrDefault(((IntValue) b[k]).val, 0));
        return new TupleValue(r);
    }
}
