package tlc2.module;

import java.math.BigDecimal;
import java.math.BigInteger;

import tlc2.value.impl.BoolValue;
import tlc2.value.impl.IntValue;
import tlc2.value.impl.StringValue;
import tlc2.value.impl.TupleValue;
import tlc2.value.impl.Value;

/** Java bodies of Str.tla: TLA+ strings are atomic for TLC, these operators open them. */
public class Str {
    public static final long serialVersionUID = 20261001L;

    static String s(Value v) {
        if (!(v instanceof StringValue)) throw new RuntimeException("Str: not a string: " + v);
        return ((StringValue) v).getVal().toString();
    }
    public static Value StrLen(Value a) { return IntValue.gen(s(a).length()); }
    public static Value StrCat(Value a, Value b) { return new StringValue(s(a) + s(b)); }
    /** text before the first occurrence of sep (the whole string when sep does not occur) */
    public static Value StrBefore(Value a, Value sep) {
        String x = s(a); int i = x.indexOf(s(sep));
        return new StringValue(i < 0 ? x : x.substring(0, i));
    }
    /** text after the first occurrence of sep ("" when sep does not occur) */
    public static Value StrAfter(Value a, Value sep) {
        String x = s(a), p = s(sep); int i = x.indexOf(p);
        return new StringValue(i < 0 ? "" : x.substring(i + p.length()));
    }
    public static Value StrContains(Value a, Value sub) { return s(a).contains(s(sub)) ? BoolValue.ValTrue : BoolValue.ValFalse; }
    public static Value StrStartsWith(Value a, Value p) { return s(a).startsWith(s(p)) ? BoolValue.ValTrue : BoolValue.ValFalse; }
    /** 1-based index of first occurrence, 0 if absent */
    public static Value StrIndexOf(Value a, Value sub) { return IntValue.gen(s(a).indexOf(s(sub)) + 1); }
    /** characters i..j (1-based, inclusive) */
    public static Value StrSub(Value a, Value i, Value j) {
        String x = s(a); int lo = ((IntValue) i).val, hi = ((IntValue) j).val;
        if (lo < 1) lo = 1; if (hi > x.length()) hi = x.length();
        return new StringValue(hi < lo ? "" : x.substring(lo - 1, hi));
    }
    /** sequence of one-character strings */
    public static Value StrChars(Value a) {
        String x = s(a); Value[] r = new Value[x.length()];
        for (int i = 0; i < r.length; i++) r[i] = new StringValue(String.valueOf(x.charAt(i)));
        return new TupleValue(r);
    }
    /** strict total order of strings used by Python's sorted() on str: by code point */
    public static Value StrLess(Value a, Value b) {
        String x = s(a), y = s(b);
        int n = Math.min(x.length(), y.length());
        int i = 0;
        while (i < n) {
            int cx = x.codePointAt(i), cy = y.codePointAt(i);
            if (cx != cy) return cx < cy ? BoolValue.ValTrue : BoolValue.ValFalse;
            i += Character.charCount(cx);
        }
        return x.length() < y.length() ? BoolValue.ValTrue : BoolValue.ValFalse;
    }
    /** is the text a plain decimal number  [+-]digits[.digits][e[+-]digits] */
    public static Value StrIsDecimal(Value a) {
        return s(a).matches("[+-]?(\\d+\\.?\\d*|\\.\\d+)([eE][+-]?\\d+)?") ? BoolValue.ValTrue : BoolValue.ValFalse;
    }
    /** exact rational value ("n/d" string of module Num) of a decimal text */
    public static Value StrParseDecimal(Value a) {
        BigDecimal b = new BigDecimal(s(a).trim());
        BigInteger un = b.unscaledValue(); int sc = b.scale();
        Num.Q r = sc >= 0 ? new Num.Q(un, BigInteger.TEN.pow(sc)) : new Num.Q(un.multiply(BigInteger.TEN.pow(-sc)), BigInteger.ONE);
        return r.val();
    }
    /** every occurrence of a replaced by b */
    public static Value StrReplace(Value x, Value a, Value b) { return new StringValue(s(x).replace(s(a), s(b))); }
    public static Value StrFromInt(Value i) { return new StringValue(Integer.toString(((IntValue) i).val)); }
    /** number of digits after the decimal point of a plain decimal text (0 if there is no point) */
    public static Value StrDecimals(Value a) {
        String x = s(a); int i = x.indexOf('.');
        if (i < 0) return IntValue.gen(0);
        int j = i + 1; while (j < x.length() && Character.isDigit(x.charAt(j))) j++;
        return IntValue.gen(j - i - 1);
    }
}
