package tlc2.module;

import java.math.BigDecimal;
import java.math.BigInteger;
import java.math.MathContext;

import tlc2.value.impl.BoolValue;
import tlc2.value.impl.IntValue;
import tlc2.value.impl.StringValue;
import tlc2.value.impl.TupleValue;
import tlc2.value.impl.Value;

/**
 * Java bodies of the operators declared in Num.tla (found by TLC through the class name
 * tlc2.module.Num, the same mechanism the standard modules use).
 *
 * A real number is a TLA+ string "n" or "n/d" (d > 1, gcd(n, d) = 1, sign in n): an exact rational of
 * unbounded size.  TLC integers are accepted wherever a rational is expected.  The second half of the
 * class are the approximate real functions (IEEE double precision; results are returned as the exact
 * rational value of the computed double) that the specification only uses through RClose or through a
 * three-valued sign.
 */
public class Num {
    public static final long serialVersionUID = 20261001L;

    // ---------------------------------------------------------------- representation
    static final class Q {
        final BigInteger n, d;
        Q(BigInteger n, BigInteger d) {
            if (d.signum() == 0) throw new ArithmeticException("Num: division by zero");
            if (d.signum() < 0) { n = n.negate(); d = d.negate(); }
            BigInteger g = n.gcd(d);
            if (!g.equals(BigInteger.ONE) && g.signum() != 0) { n = n.divide(g); d = d.divide(g); }
            this.n = n; this.d = d;
        }
        Q add(Q o) { return new Q(n.multiply(o.d).add(o.n.multiply(d)), d.multiply(o.d)); }
        Q sub(Q o) { return new Q(n.multiply(o.d).subtract(o.n.multiply(d)), d.multiply(o.d)); }
        Q mul(Q o) { return new Q(n.multiply(o.n), d.multiply(o.d)); }
        Q div(Q o) { return new Q(n.multiply(o.d), d.multiply(o.n)); }
        Q neg() { return new Q(n.negate(), d); }
        Q abs() { return new Q(n.abs(), d); }
        int sgn() { return n.signum(); }
        int cmp(Q o) { return n.multiply(o.d).compareTo(o.n.multiply(d)); }
        double dbl() {
            if (n.bitLength() < 1000 && d.bitLength() < 1000) return n.doubleValue() / d.doubleValue();
            return new BigDecimal(n).divide(new BigDecimal(d), MathContext.DECIMAL64).doubleValue();
        }
        Value val() { return new StringValue(d.equals(BigInteger.ONE) ? n.toString() : n.toString() + "/" + d.toString()); }
    }
    static final Q ZERO = new Q(BigInteger.ZERO, BigInteger.ONE);
    static final Q ONE = new Q(BigInteger.ONE, BigInteger.ONE);

    static Q q(Value v) {
        if (v instanceof IntValue) return new Q(BigInteger.valueOf(((IntValue) v).val), BigInteger.ONE);
        if (v instanceof StringValue) {
            String s = ((StringValue) v).getVal().toString();
            int i = s.indexOf('/');
            try {
                if (i < 0) return new Q(new BigInteger(s), BigInteger.ONE);
                return new Q(new BigInteger(s.substring(0, i)), new BigInteger(s.substring(i + 1)));
            } catch (NumberFormatException e) {
                throw new RuntimeException("Num: not a rational: \"" + s + "\"");
            }
        }
        throw new RuntimeException("Num: not a rational value: " + v);
    }
    static boolean isNan(Value v) {
        return v instanceof StringValue && ((StringValue) v).getVal().toString().equals("nan");
    }
    static Q fromDouble(double x) {
        if (Double.isNaN(x) || Double.isInfinite(x)) throw new ArithmeticException("Num: non-finite real " + x);
        BigDecimal b = new BigDecimal(x);           // exact
        BigInteger unscaled = b.unscaledValue();
        int scale = b.scale();
        if (scale >= 0) return new Q(unscaled, BigInteger.TEN.pow(scale));
        return new Q(unscaled.multiply(BigInteger.TEN.pow(-scale)), BigInteger.ONE);
    }
    static Value[] elems(Value s) {
        Value t = s.toTuple();
        if (t == null) throw new RuntimeException("Num: not a sequence: " + s);
        return ((TupleValue) t).elems;
    }
    static int toInt(Value v) {
        if (v instanceof IntValue) return ((IntValue) v).val;
        Q x = q(v);
        if (!x.d.equals(BigInteger.ONE)) throw new RuntimeException("Num: not an integer: " + v);
        return x.n.intValueExact();
    }
    static Value bool(boolean b) { return b ? BoolValue.ValTrue : BoolValue.ValFalse; }

    // ---------------------------------------------------------------- exact field operations
    public static Value RAdd(Value a, Value b) { return q(a).add(q(b)).val(); }
    public static Value RSub(Value a, Value b) { return q(a).sub(q(b)).val(); }
    public static Value RMul(Value a, Value b) { return q(a).mul(q(b)).val(); }
    public static Value RDiv(Value a, Value b) { return q(a).div(q(b)).val(); }
    public static Value RNeg(Value a) { return q(a).neg().val(); }
    public static Value RAbs(Value a) { return q(a).abs().val(); }
    public static Value RNorm(Value a) { return q(a).val(); }
    public static Value RFromInt(Value a) { return q(a).val(); }
    public static Value RSign(Value a) { return IntValue.gen(q(a).sgn()); }
    public static Value RCmp(Value a, Value b) { return IntValue.gen(Integer.signum(q(a).cmp(q(b)))); }
    public static Value RLt(Value a, Value b) { return bool(q(a).cmp(q(b)) < 0); }
    public static Value RLe(Value a, Value b) { return bool(q(a).cmp(q(b)) <= 0); }
    public static Value REq(Value a, Value b) { return bool(q(a).cmp(q(b)) == 0); }
    public static Value RIsInt(Value a) { return bool(q(a).d.equals(BigInteger.ONE)); }
    /** floor as a TLC integer (must fit 32 bits) */
    public static Value RFloor(Value a) {
        Q x = q(a);
        BigInteger[] qr = x.n.divideAndRemainder(x.d);
        BigInteger f = (qr[1].signum() < 0) ? qr[0].subtract(BigInteger.ONE) : qr[0];
        return IntValue.gen(f.intValueExact());
    }
    /** floor as a rational string (any size) */
    public static Value RFloorR(Value a) {
        Q x = q(a);
        BigInteger[] qr = x.n.divideAndRemainder(x.d);
        BigInteger f = (qr[1].signum() < 0) ? qr[0].subtract(BigInteger.ONE) : qr[0];
        return new Q(f, BigInteger.ONE).val();
    }
    public static Value RToInt(Value a) { return IntValue.gen(toInt(a)); }
    /** integer power, exponent may be negative */
    public static Value RPowInt(Value a, Value k) {
        Q x = q(a); int e = toInt(k);
        if (e >= 0) return new Q(x.n.pow(e), x.d.pow(e)).val();
        return new Q(x.d.pow(-e), x.n.pow(-e)).val();
    }
    /** |a - b| <= atol + rtol * |b|, decided exactly */
    public static Value RClose(Value a, Value b, Value rtol, Value atol) {
        if (isNan(a) || isNan(b)) return BoolValue.ValFalse;      // an observed not-a-number is close to nothing
        Q x = q(a), y = q(b);
        return bool(x.sub(y).abs().cmp(q(atol).add(q(rtol).mul(y.abs()))) <= 0);
    }
    /** symmetric variant: |a - b| <= atol + rtol * max(|a|, |b|) */
    public static Value RCloseSym(Value a, Value b, Value rtol, Value atol) {
        if (isNan(a) || isNan(b)) return BoolValue.ValFalse;
        Q x = q(a), y = q(b);
        Q m = x.abs().cmp(y.abs()) >= 0 ? x.abs() : y.abs();
        return bool(x.sub(y).abs().cmp(q(atol).add(q(rtol).mul(m))) <= 0);
    }

    // ---------------------------------------------------------------- sequence helpers (TLA+ definitions in Num.tla)
    public static Value RSumSeq(Value s) {
        Q acc = ZERO;
        for (Value v : elems(s)) acc = acc.add(q(v));
        return acc.val();
    }
    public static Value RDot(Value s, Value t) {
        Value[] a = elems(s), b = elems(t);
        if (a.length != b.length) throw new RuntimeException("Num: RDot length mismatch " + a.length + " vs " + b.length);
        // accumulate numerator over a common power-of-two style denominator lazily: plain rational accumulate
        BigInteger num = BigInteger.ZERO, den = BigInteger.ONE;
        for (int i = 0; i < a.length; i++) {
            Q p = q(a[i]).mul(q(b[i]));
            if (p.sgn() == 0) continue;
            if (p.d.equals(den)) { num = num.add(p.n); }
            else { num = num.multiply(p.d).add(p.n.multiply(den)); den = den.multiply(p.d);
                   BigInteger g = num.gcd(den); if (g.signum() != 0 && !g.equals(BigInteger.ONE)) { num = num.divide(g); den = den.divide(g); } }
        }
        return new Q(num, den).val();
    }
    /** lag-t autocorrelation sum: sum_{k=1}^{Len-t} s[k]*s[k+t] */
    public static Value RLagDot(Value s, Value t, Value lag) {
        Value[] a = elems(s), b = elems(t);
        int L = toInt(lag);
        if (a.length != b.length) throw new RuntimeException("Num: RLagDot length mismatch");
        Q acc = ZERO;
        for (int i = 0; i + L < a.length; i++) {
            Q x = q(a[i]); if (x.sgn() == 0) continue;
            Q y = q(b[i + L]); if (y.sgn() == 0) continue;
            acc = acc.add(x.mul(y));
        }
        return acc.val();
    }
    public static Value RScaleSeq(Value c, Value s) {
        Q k = q(c); Value[] a = elems(s); Value[] r = new Value[a.length];
        for (int i = 0; i < a.length; i++) r[i] = k.mul(q(a[i])).val();
        return new TupleValue(r);
    }
    public static Value RAddSeq(Value s, Value t) {
        Value[] a = elems(s), b = elems(t);
        if (a.length != b.length) throw new RuntimeException("Num: RAddSeq length mismatch " + a.length + " vs " + b.length);
        Value[] r = new Value[a.length];
        for (int i = 0; i < a.length; i++) r[i] = q(a[i]).add(q(b[i])).val();
        return new TupleValue(r);
    }
    /** all |s[i]-t[i]| <= atol + rtol*|t[i]| */
    public static Value RCloseSeq(Value s, Value t, Value rtol, Value atol) {
        Value[] a = elems(s), b = elems(t);
        if (a.length != b.length) return BoolValue.ValFalse;
        Q rt = q(rtol), at = q(atol);
        for (int i = 0; i < a.length; i++) {
            if (isNan(a[i]) || isNan(b[i])) return BoolValue.ValFalse;
            Q x = q(a[i]), y = q(b[i]);
            if (x.sub(y).abs().cmp(at.add(rt.mul(y.abs()))) > 0) return BoolValue.ValFalse;
        }
        return BoolValue.ValTrue;
    }
    /** max_i |s[i]| (0 for the empty sequence); not-a-number entries are passed over (RClose rejects them) */
    public static Value RMaxAbsSeq(Value s) {
        Q m = ZERO;
        for (Value v : elems(s)) { if (isNan(v)) continue; Q x = q(v).abs(); if (x.cmp(m) > 0) m = x; }
        return m.val();
    }

    // ---------------------------------------------------------------- approximate real functions (double precision)
    static Value d(double x) { return fromDouble(x).val(); }
    public static Value RSqrt(Value a) { return d(Math.sqrt(q(a).dbl())); }
    public static Value RExp(Value a) { return d(Math.exp(q(a).dbl())); }
    public static Value RLog(Value a) { return d(Math.log(q(a).dbl())); }
    public static Value RSin(Value a) { return d(Math.sin(q(a).dbl())); }
    public static Value RCos(Value a) { return d(Math.cos(q(a).dbl())); }
    public static Value RTan(Value a) { return d(Math.tan(q(a).dbl())); }
    public static Value RArcsin(Value a) { return d(Math.asin(q(a).dbl())); }
    public static Value RArccos(Value a) { return d(Math.acos(q(a).dbl())); }
    public static Value RArctan(Value a) { return d(Math.atan(q(a).dbl())); }
    public static Value RSinh(Value a) { return d(Math.sinh(q(a).dbl())); }
    public static Value RCosh(Value a) { return d(Math.cosh(q(a).dbl())); }
    public static Value RTanh(Value a) { return d(Math.tanh(q(a).dbl())); }
    public static Value RArcsinh(Value a) { double x = q(a).dbl(); double ax = Math.abs(x);
        return d(Math.copySign(Math.log(ax + Math.sqrt(ax * ax + 1.0)), x)); }
    public static Value RArccosh(Value a) { double x = q(a).dbl(); return d(Math.log(x + Math.sqrt(x * x - 1.0))); }
    public static Value RArctanh(Value a) { double x = q(a).dbl(); return d(0.5 * Math.log((1.0 + x) / (1.0 - x))); }
    public static Value RPow(Value a, Value b) { return d(Math.pow(q(a).dbl(), q(b).dbl())); }
    /** the IEEE double nearest to the rational a, as an exact rational (what float(text) returns for a decimal text) */
    public static Value RRoundToDouble(Value a) {
        Q x = q(a);
        BigDecimal b = new BigDecimal(x.n).divide(new BigDecimal(x.d), new MathContext(60));
        return fromDouble(Double.parseDouble(b.toString())).val();
    }
    public static Value RRoundSeq(Value s) {
        Value[] a = elems(s); Value[] r = new Value[a.length];
        for (int i = 0; i < a.length; i++) r[i] = RRoundToDouble(a[i]);
        return new TupleValue(r);
    }
    /** is the double-precision image of the rational finite and not NaN */
    public static Value RFiniteD(Value a) { double x = q(a).dbl(); return bool(!(Double.isNaN(x) || Double.isInfinite(x))); }

    /**
     * Sign of Wolff's automatic-windowing function g(W) = exp(-W/tau) - tau/sqrt(W N), with
     * tau = S / log((2 t + 1)/(2 t - 1)), t the partial sum of the normalised autocorrelation.
     * Returns -1 / +1, or 0 when |g| is too small to call (the specification then skips the case).
     */
    public static Value GSign(Value t, Value W, Value N, Value S) {
        double ti = q(t).dbl(), w = q(W).dbl(), n = q(N).dbl(), s = q(S).dbl();
        double tau = s / Math.log((2 * ti + 1) / (2 * ti - 1));
        double g = Math.exp(-w / tau) - tau / Math.sqrt(w * n);
        if (Double.isNaN(g)) return IntValue.gen(0);
        return IntValue.gen(Math.abs(g) < 1e-9 ? 0 : (g < 0 ? -1 : 1));
    }

    /** Modified Bessel function of the second kind K_nu(x), x > 0, by its integral representation
     *  K_nu(x) = int_0^inf exp(-x cosh t) cosh(nu t) dt (trapezoidal rule, exponentially convergent). */
    static double kn(double nu, double x) {
        double h = 1.0 / 64.0, sum = 0.5 * Math.exp(-x);
        for (int i = 1; i < 200000; i++) {
            double t = i * h;
            double e = -x * Math.cosh(t);
            double term = Math.exp(e + Math.log(Math.cosh(nu * t)));
            sum += term;
            if (e < -800 || (term < 1e-18 * sum && t > 1.0)) break;
        }
        return sum * h;
    }
    public static Value RKn(Value n, Value x) { return d(kn(q(n).dbl(), q(x).dbl())); }

    // regularised upper incomplete gamma Q(a, x)  (series / continued fraction, Numerical-Recipes style)
    static double lgamma(double x) {
        double[] c = {76.18009172947146, -86.50532032941677, 24.01409824083091, -1.231739572450155, 0.1208650973866179e-2, -0.5395239384953e-5};
        // Lanczos is only ~1e-10; use Stirling series with recurrence for accuracy 1e-14
        double shift = 0.0;
        while (x < 12.0) { shift -= Math.log(x); x += 1.0; }
        double z = 1.0 / (x * x);
        double series = (1.0 / 12.0 - z * (1.0 / 360.0 - z * (1.0 / 1260.0 - z * (1.0 / 1680.0 - z * (1.0 / 1188.0 - z * (691.0 / 360360.0 - z / 156.0)))))) / x;
        return shift + (x - 0.5) * Math.log(x) - x + 0.9189385332046727418 + series;
    }
    static double gammaQ(double a, double x) {
        if (x <= 0) return 1.0;
        if (x < a + 1.0) {
            double ap = a, sum = 1.0 / a, del = sum;
            for (int i = 0; i < 100000; i++) { ap += 1.0; del *= x / ap; sum += del; if (Math.abs(del) < Math.abs(sum) * 1e-17) break; }
            return 1.0 - sum * Math.exp(-x + a * Math.log(x) - lgamma(a));
        }
        double b = x + 1.0 - a, c = 1.0 / 1e-300, dd = 1.0 / b, h = dd;
        for (int i = 1; i < 100000; i++) {
            double an = -i * (i - a); b += 2.0;
            dd = an * dd + b; if (Math.abs(dd) < 1e-300) dd = 1e-300;
            c = b + an / c; if (Math.abs(c) < 1e-300) c = 1e-300;
            dd = 1.0 / dd; double del = dd * c; h *= del;
            if (Math.abs(del - 1.0) < 1e-16) break;
        }
        return Math.exp(-x + a * Math.log(x) - lgamma(a)) * h;
    }
    /** survival function of the chi-square distribution with k degrees of freedom at x */
    public static Value RChiSqSurv(Value x, Value k) { return d(gammaQ(q(k).dbl() / 2.0, q(x).dbl() / 2.0)); }
    public static Value RLGamma(Value x) { return d(lgamma(q(x).dbl())); }

    // regularised incomplete beta I_x(a, b) by continued fraction
    static double betacf(double a, double b, double x) {
        double qab = a + b, qap = a + 1.0, qam = a - 1.0, c = 1.0, dd = 1.0 - qab * x / qap;
        if (Math.abs(dd) < 1e-300) dd = 1e-300; dd = 1.0 / dd; double h = dd;
        for (int m = 1; m < 100000; m++) {
            int m2 = 2 * m;
            double aa = m * (b - m) * x / ((qam + m2) * (a + m2));
            dd = 1.0 + aa * dd; if (Math.abs(dd) < 1e-300) dd = 1e-300; c = 1.0 + aa / c; if (Math.abs(c) < 1e-300) c = 1e-300; dd = 1.0 / dd; h *= dd * c;
            aa = -(a + m) * (qab + m) * x / ((a + m2) * (qap + m2));
            dd = 1.0 + aa * dd; if (Math.abs(dd) < 1e-300) dd = 1e-300; c = 1.0 + aa / c; if (Math.abs(c) < 1e-300) c = 1e-300; dd = 1.0 / dd;
            double del = dd * c; h *= del;
            if (Math.abs(del - 1.0) < 1e-16) break;
        }
        return h;
    }
    static double betaI(double a, double b, double x) {
        if (x <= 0) return 0; if (x >= 1) return 1;
        double bt = Math.exp(lgamma(a + b) - lgamma(a) - lgamma(b) + a * Math.log(x) + b * Math.log(1.0 - x));
        if (x < (a + 1.0) / (a + b + 2.0)) return bt * betacf(a, b, x) / a;
        return 1.0 - bt * betacf(b, a, 1.0 - x) / b;
    }
    /** survival function of the F distribution with (d1, d2) degrees of freedom at x */
    public static Value RFSurv(Value x, Value d1, Value d2) {
        double xx = q(x).dbl(), a = q(d1).dbl(), b = q(d2).dbl();
        return d(betaI(b / 2.0, a / 2.0, b / (b + a * xx)));
    }
    public static Value RErf(Value a) {
        double x = q(a).dbl();
        double ax = Math.abs(x);
        double r = (ax < 2.5) ? erfSeries(ax) : 1.0 - gammaQ(0.5, ax * ax);
        return d(Math.copySign(r, x));
    }
    static double erfSeries(double x) {
        double sum = x, term = x;
        for (int n = 1; n < 500; n++) { term *= -x * x / n; double t = term / (2 * n + 1); sum += t; if (Math.abs(t) < 1e-18 * Math.abs(sum)) break; }
        return 2.0 / Math.sqrt(Math.PI) * sum;
    }
}
