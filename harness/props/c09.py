"""C09 - roots and integrals of observable-dependent functions propagate errors exactly.

(T) find_root on monotone families (powers, exp(-x^2), tanh, cubic, ratio with vector d): DeriveCheck!CheckRootCase verifies
    f(x, d) = 0 at the central values and that every fluctuation of x equals -(df/dd)/(df/dx) times that of d, with df/dd
    and df/dx obtained by symbolic differentiation of f inside TLC; where f is explicitly invertible the root must also equal
    the inverse applied directly.  quad on integrands with closed-form antiderivative (polynomials, exponentials,
    trigonometric) for every subset of parameters / limits being observables (same / different ensembles, covariance
    inputs): the result must equal F(b; p) - F(a; p) propagated by ObsCore!Derive with the symbolic gradient of that
    antiderivative expression (derivative under the integral for parameters, +-f at the limits follow automatically).
"""
import itertools
import warnings

import numpy as np
import scipy.integrate
import autograd.numpy as anp

import pyerrors as pe

from harness import gen
from harness.frames import snap, frame_event
from harness.jsonsafe import rat
from harness.pe_project import project_obs, project_any, project_exc

RULE = ('cases = root families x layouts of d, and integrand families x every subset of {parameters, lower limit, upper limit} being observables '
        'x layout class; non-trivial = at least one observable argument')
ASSUMPTIONS = ['scipy quad / fsolve accuracy: values compared at 1e-7 relative', 'roots are sought in regions where f is monotone and df/dx is away from zero']

V = gen.var
C = gen.const
N = gen.node


def _call(f):
    try:
        with np.errstate(all='ignore'):
            return project_any(f())
    except Exception as e:  # noqa: BLE001
        return project_exc(e)


def _obs(rng, cls, v, k=1):
    lays = gen.operand_layouts(rng, cls, k)
    return [gen.make_obs(rng, lay, mean=1.0, sigma=0.02) * ((v[i] if isinstance(v, list) else v) or 1.0) for i, lay in enumerate(lays)]


def _rescale(o, v):
    return o * (v / float(o.value))


def _make_pow(n):
    return lambda x, d: x ** n - d            # one code object for the whole family: members differ in their closure only


def _make_expo(sc):
    return lambda x, d: anp.exp(sc * x) - d


ROOTS = [
    # name, python f(x, d), expression f with leaf1 = x, leaves 2.. = d, inverse expression (leaves = d) or None, d values, guess
    ('square', _make_pow(2), N('sub', N('pow', V(1), C(2)), V(2)), N('sqrt', V(1)), [1.7], 1.0),
    ('cube', _make_pow(3), N('sub', N('pow', V(1), C(3)), V(2)), N('pow', V(1), C(1.0 / 3.0)), [2.3], 1.0),
    ('fourth', _make_pow(4), N('sub', N('pow', V(1), C(4)), V(2)), N('pow', V(1), C(0.25)), [1.9], 1.0),
    ('expo_half', _make_expo(0.5), N('sub', N('exp', N('mul', C(0.5), V(1))), V(2)), N('mul', C(2.0), N('log', V(1))), [1.8], 1.0),
    ('expo_m2', _make_expo(-2.0), N('sub', N('exp', N('mul', C(-2.0), V(1))), V(2)), N('mul', C(-0.5), N('log', V(1))), [0.4], 0.5),
    ('gauss', lambda x, d: anp.exp(-x ** 2) - d, N('sub', N('exp', N('neg', N('pow', V(1), C(2)))), V(2)), N('sqrt', N('neg', N('log', V(1)))), [0.45], 0.8),
    ('tanh', lambda x, d: anp.tanh(x) - d, N('sub', N('tanh', V(1)), V(2)), N('arctanh', V(1)), [0.55], 0.5),
    # the default starting point (no guess given), the root on the other side of it where the function saturates
    ('tanh_neg', lambda x, d: anp.tanh(x) - d, N('sub', N('tanh', V(1)), V(2)), N('arctanh', V(1)), [-0.7], None),
    ('tanh_hi', lambda x, d: anp.tanh(x) - d, N('sub', N('tanh', V(1)), V(2)), N('arctanh', V(1)), [0.85], None),
    ('cubic', lambda x, d: x ** 3 + x - d, N('sub', N('add', N('pow', V(1), C(3)), V(1)), V(2)), None, [3.1], 1.0),
    ('explog', lambda x, d: anp.log(x) + x - d, N('sub', N('add', N('log', V(1)), V(1)), V(2)), None, [1.8], 1.0),
    ('ratio2', lambda x, d: d[0] * x - d[1], N('sub', N('mul', V(2), V(1)), V(3)), N('div', V(2), V(1)), [1.4, 2.5], 1.0),
    # data with a central value of exactly zero (a difference that vanishes on average) are data like any other
    ('tanh_zero', lambda x, d: anp.tanh(x) - d, N('sub', N('tanh', V(1)), V(2)), N('arctanh', V(1)), [0.0], 0.3),
    ('expm1_zero', lambda x, d: anp.exp(x) - 1.0 - d, N('sub', N('sub', N('exp', V(1)), C(1.0)), V(2)), N('log', N('add', C(1.0), V(1))), [0.0], 0.5),
    ('lin_zero', lambda x, d: d[0] + d[1] * x, N('add', V(2), N('mul', V(3), V(1))), N('neg', N('div', V(1), V(2))), [0.0, 1.6], 1.0),
    # a root far from the default starting point (1.0) of a steep function: Newton's first step overshoots into the overflow region
    ('expo_far', _make_expo(-1.0), N('sub', N('exp', N('mul', C(-1.0), V(1))), V(2)), N('mul', C(-1.0), N('log', V(1))), [50.0], None),
    ('vec3', lambda x, d: d[0] * x ** 3 + d[1] * x - d[2], N('sub', N('add', N('mul', V(2), N('pow', V(1), C(3))), N('mul', V(3), V(1))), V(4)), None, [0.7, 1.3, 2.9], 1.0),
]


def root_cases(rng, ctx, reps):
    cases = []
    for rep in range(reps):
        for name, f, fe, inv, dv, guess in ROOTS:
            cls = str(rng.choice(['same', 'gapped', 'multi_replica', 'second_ensemble', 'replica_subset']))
            dvals = [v * float(rng.uniform(0.9, 1.1)) for v in dv]
            ds = _obs(rng, cls, dvals, k=len(dvals))
            ds = [_rescale(o, v) if v != 0.0 else 0.3 * (o - float(o.value)) for o, v in zip(ds, dvals)]
            if dvals[0] == 0.0 and rng.random() < 0.4:
                ds[0] = pe.cov_Obs(0.0, 0.02 ** 2, 'dzero')
            if rng.random() < 0.25:
                ds[-1] = pe.cov_Obs(dvals[-1], (0.02 * dvals[-1]) ** 2, 'droot')
            arg = ds[0] if len(ds) == 1 else ds
            res = _call(lambda: pe.roots.find_root(arg, f, guess=guess) if guess is not None else pe.roots.find_root(arg, f))
            c = {'id': 'root-%d-%s-%s' % (rep, name, cls), 'ev': 'root', 'mode': 'root', 'f': gen.strip(fe), 'ops': [project_obs(o) for o in ds], 'res': res,
                 'guess': rat(float(guess) if guess is not None else 1.0)}
            if inv is not None:
                c['inv'] = gen.strip(inv)
            cases.append(c)
            ctx.nontrivial.add(('root', name, cls, rep))
    return cases


# integrand families: python func(p, x), number of parameters, antiderivative expression F(x; p) builder with leaf indices
def _poly_F(pi, xi):      # p0 x + p1 x^2/2 + p2 x^3/3
    return N('add', N('add', N('mul', pi[0], xi), N('mul', N('mul', pi[1], C(0.5)), N('pow', xi, C(2)))), N('mul', N('div', pi[2], C(3)), N('pow', xi, C(3))))


def _exp_F(pi, xi):       # p0/p1 exp(p1 x)
    return N('mul', N('div', pi[0], pi[1]), N('exp', N('mul', pi[1], xi)))


def _sin_F(pi, xi):       # -p0/p1 cos(p1 x)
    return N('neg', N('mul', N('div', pi[0], pi[1]), N('cos', N('mul', pi[1], xi))))


def _cos_F(pi, xi):       # p0/p1 sin(p1 x) + p2 x
    return N('add', N('mul', N('div', pi[0], pi[1]), N('sin', N('mul', pi[1], xi))), N('mul', pi[2], xi))


W_ = 1.3


def _linw_cos_F(pi, xi):  # int (p0 + p1 x) cos(W x) = p0 sin(Wx)/W + p1 (cos(Wx)/W^2 + x sin(Wx)/W)
    wx = N('mul', C(W_), xi)
    return N('add', N('mul', pi[0], N('div', N('sin', wx), C(W_))),
             N('mul', pi[1], N('add', N('div', N('cos', wx), C(W_ * W_)), N('div', N('mul', xi, N('sin', wx)), C(W_)))))


def _linw_sin_F(pi, xi):  # int (p0 + p1 x) sin(W x) = -p0 cos(Wx)/W + p1 (sin(Wx)/W^2 - x cos(Wx)/W)
    wx = N('mul', C(W_), xi)
    return N('add', N('neg', N('mul', pi[0], N('div', N('cos', wx), C(W_)))),
             N('mul', pi[1], N('sub', N('div', N('sin', wx), C(W_ * W_)), N('div', N('mul', xi, N('cos', wx)), C(W_)))))


QUADS = [
    ('poly', lambda p, x: p[0] + p[1] * x + p[2] * x ** 2, 3, _poly_F, [0.7, -1.2, 0.4]),
    ('exp', lambda p, x: p[0] * anp.exp(p[1] * x), 2, _exp_F, [1.3, -0.8]),
    ('sin', lambda p, x: p[0] * anp.sin(p[1] * x), 2, _sin_F, [0.9, 1.7]),
    ('cos', lambda p, x: p[0] * anp.cos(p[1] * x) + p[2], 3, _cos_F, [1.1, 0.6, 0.3]),
    # scipy's own keywords reach every integral of the call: the weighted integral of a linear function, observable parameters, plain limits
    ('linwcos', lambda p, x: p[0] + p[1] * x, 2, _linw_cos_F, [0.7, -1.2], {'weight': 'cos', 'wvar': W_}),
    ('linwsin', lambda p, x: p[0] + p[1] * x, 2, _linw_sin_F, [0.9, 0.5], {'weight': 'sin', 'wvar': W_}),
]


def _plain(call):
    """the numbers of a returned tuple (dictionaries such as full_output's infodict by their size), as exact text"""
    try:
        with np.errstate(all='ignore'), warnings.catch_warnings():
            warnings.simplefilter('ignore')
            out = call()
    except Exception as e:  # noqa: BLE001
        return {'k': 'exc:' + type(e).__name__, 'v': []}
    if not isinstance(out, tuple):
        return {'k': type(out).__name__, 'v': []}
    v = []
    for x in out:
        if isinstance(x, (int, float, np.integer, np.floating)) and np.isfinite(x):
            v.append(rat(float(x)))
        elif isinstance(x, dict):
            v.append('dict:%d' % len(x))
        else:
            v.append(type(x).__name__)
    return {'k': 'tuple%d' % len(out), 'v': v}


def quad_cases(rng, ctx, full):
    cases = []
    for entry in QUADS:
        name, f, npar, Fb, pv = entry[:5]
        qkw = entry[5] if len(entry) > 5 else {}
        slots = npar + 2
        subsets = list(itertools.product([False, True], repeat=slots))
        if qkw:
            subsets = [s for s in subsets if not s[-1] and not s[-2] and any(s)]      # weighted: the limits stay plain numbers
        if not full and not qkw:
            subsets = [s for k, s in enumerate(subsets) if k % 3 == 0 or sum(s) in (0, slots)]
        plan = [(s_, None) for s_ in subsets]
        if not qkw and npar >= 2:
            # history: the SAME integrand over the SAME plain limits three times in a row - all parameters observables at a point P, then only the
            # first one an observable at another point Q, then all of them at Q: every call is judged on its own, nothing of an earlier one may enter
            P_ = [v * 0.93 for v in pv]
            Q_ = [v * 1.08 for v in pv]
            allp = tuple([True] * npar + [False, False])
            onep = tuple([True] + [False] * (npar - 1) + [False, False])
            plan += [(allp, {'pvals': P_, 'a': 0.125, 'b': 1.375, 'tag': '-h1'}), (onep, {'pvals': Q_, 'a': 0.125, 'b': 1.375, 'tag': '-h2'}),
                     (allp, {'pvals': Q_, 'a': 0.125, 'b': 1.375, 'tag': '-h3'})]
        for sub, ov in plan:
            cls = str(rng.choice(['same', 'gapped', 'second_ensemble', 'multi_replica']))
            pvals = [v * float(rng.uniform(0.9, 1.1)) for v in pv]
            a, b = float(np.round(rng.uniform(-0.5, 0.4), 3)), float(np.round(rng.uniform(0.8, 2.0), 3))
            if ov:
                pvals, a, b = list(ov['pvals']), ov['a'], ov['b']
            if rng.random() < 0.3 and not ov:
                a, b = b, a                    # a reversed interval is a legitimate request: the integral changes sign
            nobs = sum(sub)
            obs = []
            if nobs:
                obs = _obs(rng, cls, [1.0] * nobs, k=nobs)
            if sub[slots - 1] and not qkw and rng.random() < 0.15:
                b = a                      # limits with the same central value: the integral vanishes, its fluctuations do not
            vals = pvals + [a, b]
            args, leaves, ops = [], [], []
            oi = 0
            for k in range(slots):
                earlier = [j for j in range(k) if sub[j]]
                if sub[k] and earlier and rng.random() < 0.25 and not ov:
                    # the very same observable object enters twice (as two parameters, or as a parameter and a limit)
                    j = int(rng.choice(earlier))
                    if not (k == slots - 1 and j == slots - 2):          # not both limits: the interval would be empty
                        vals[k] = vals[j]
                        args.append(args[j])
                        leaves.append(leaves[j])
                        oi += 1
                        continue
                if sub[k]:
                    o = _rescale(obs[oi], vals[k])
                    if rng.random() < 0.15 and not ov:
                        o = pe.cov_Obs(vals[k], (0.03 * abs(vals[k]) + 0.01) ** 2, 'q%d' % k)
                    oi += 1
                    ops.append(o)
                    leaves.append(V(len(ops)))
                    args.append(o)
                else:
                    leaves.append(C(vals[k]))
                    args.append(vals[k])
            p_args, a_arg, b_arg = args[:npar], args[npar], args[npar + 1]
            pl, al, bl = leaves[:npar], leaves[npar], leaves[npar + 1]
            expr = N('sub', Fb(pl, bl), Fb(pl, al))
            out = None
            try:
                with np.errstate(all='ignore'):
                    obs_args = [v for v in list(p_args) + [a_arg, b_arg] if isinstance(v, pe.Obs)]
                    before_q = snap(obs_args)
                    out = pe.integrate.quad(f, p_args, a_arg, b_arg, **qkw)
                    qframe = frame_event('quad-frame', 'quad leaves the observables among parameters and limits as they were', before_q, obs_args)
                first = out[0]
                res = project_any(first)
            except Exception as e:  # noqa: BLE001
                res = project_exc(e)
            cid = 'quad-%s-%s-%s%s' % (name, ''.join('o' if s else 'n' for s in sub), cls, ov['tag'] if ov else '')
            if out is not None and nobs:
                qframe['id'] = cid + '-frame'
                cases.append(qframe)
            if nobs == 0:
                cases.append({'id': cid, 'ev': 'plainnum', 'mode': 'quad', 'expr': gen.strip(expr), 'ops': [], 'res': res})
                # ... and with scipy's own keywords: exactly scipy's result for the same call, entry by entry
                for kw in ({'weight': 'cos', 'wvar': 1.7}, {'full_output': True}, {'epsabs': 1e-3, 'epsrel': 1e-3, 'limit': 3}, {'points': [0.5 * (a + b)]}):
                    cases.append({'id': cid + '-kw-' + '-'.join(sorted(kw)), 'ev': 'sameplain',
                                  'got': _plain(lambda: pe.integrate.quad(f, p_args, a_arg, b_arg, **kw)),
                                  'want': _plain(lambda: scipy.integrate.quad(lambda x: f(p_args, x), a_arg, b_arg, **kw))})
            else:
                cases.append({'id': cid, 'ev': 'expr', 'mode': 'quad', 'expr': gen.strip(expr), 'ops': [project_obs(o) for o in ops], 'res': res})
            ctx.nontrivial.add(('quad', name, sub, cls))
    # plain parameters typed as integers are numbers like any other: x^2 p0^(-p1) and the overflow-prone x p0^p1 / 1e20
    for k, (fi, pi, Fi) in enumerate([(lambda p, x: x ** 2 * p[0] ** (-p[1]), [2, 3], lambda xi: N('mul', C(2.0 ** -3), N('div', N('pow', xi, C(3)), C(3)))),
                                      (lambda p, x: x * p[0] ** p[1] / 1e20, [10, 20], lambda xi: N('mul', C(1.0), N('div', N('pow', xi, C(2)), C(2))))]):
        a, b = 0.0, float(np.round(rng.uniform(0.8, 1.5), 3))
        cases.append({'id': 'quad-intpar%d-plain' % k, 'ev': 'sameplain', 'got': _plain(lambda: pe.integrate.quad(fi, pi, a, b)),
                      'want': _plain(lambda: scipy.integrate.quad(lambda x: fi(pi, x), a, b))})
        bo = _rescale(_obs(rng, 'same', [1.0], k=1)[0], b)
        try:
            with np.errstate(all='ignore'):
                res = project_any(pe.integrate.quad(fi, pi, a, bo)[0])
        except Exception as e:  # noqa: BLE001
            res = project_exc(e)
        cases.append({'id': 'quad-intpar%d-obslimit' % k, 'ev': 'expr', 'mode': 'quad', 'expr': gen.strip(N('sub', Fi(V(1)), Fi(C(a)))), 'ops': [project_obs(bo)], 'res': res})
    return cases


def run(ctx):
    rng = np.random.default_rng(ctx.seed)
    cases = root_cases(rng, ctx, 6 if ctx.quick else 40)
    cases += quad_cases(rng, ctx, not ctx.quick)
    if ctx.quick is False:
        for _ in range(4):
            cases += [dict(c, id=c['id'] + '-r%d' % _) for c in quad_cases(rng, ctx, True)]
    ctx.sample({'root_case': cases[0]['id'], 'f': cases[0]['f']})
    ctx.sample({'quad_case': cases[-1]['id'], 'antiderivative_difference': cases[-1]['expr']})
    ctx.validate('DeriveTrace', cases)
