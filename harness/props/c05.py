"""C05 - reweighting, correlating and merging pair samples by configuration number.

(M) MC_Align: TLC enumerates every weight layout / observable sub-layout pair on a small universe and checks on
    ObsCore that Reweight / Correlate / Merge are well defined exactly when the request is alignable, that their
    results are WellFormed and independent of the order in which chains are supplied, and that the reweighted flag
    is set and inherited.
(T) real reweight / correlate / merge_obs calls over weights on 1-3 replicas (contiguous / strided / irregular),
    observables on prefix / stride / random subsets and replica subsets, both normalisations, lists and Corr
    objects; unalignable requests must raise.  Validated by OpsTrace.tla against ObsCore!Reweight/Correlate/Merge.
"""
import numpy as np

import pyerrors as pe

from harness import gen
from harness.frames import snap, frame_event
from harness.pe_project import project_obs, project_any, project_exc

RULE = ('cases = reweight (weight layout x observable subset kind x replica subset x normalisation x container), correlate (pairs), '
        'merge_obs (replica partitions) and their unalignable variants; non-trivial = observable defined on a proper subset of the '
        'weight\'s configurations or replicas, or a request that must be rejected')
ASSUMPTIONS = ['weights positive (mean 1, sigma 0.1) so that <w> is away from zero', 'results compared at 1e-9 relative',
               'TLC, the Java rational kernel, the projection']


def _weight(rng, nrep):
    lay = []
    for r in range(nrep):
        n = int(rng.integers(8, 30))
        cls = str(rng.choice(['contig', 'strided', 'irregular', 'gapped', 'fakegrid']))
        if cls == 'fakegrid':
            # an irregular list that a cheap test takes for a grid: first spacing g, and last = first + g (n - 1), but not on the grid in between
            g, f = int(rng.integers(2, 4)), int(rng.integers(1, 9))
            il = [f + g * k for k in range(n)]
            for k in rng.choice(np.arange(2, n - 1), size=max(1, n // 4), replace=False):
                il[int(k)] += int(rng.integers(1, g))
            lay.append(('W|r%d' % (r + 1), il))
            continue
        lay.append(('W|r%d' % (r + 1), gen.make_idl(rng, cls, n)))
    samples = [1.0 + 0.1 * rng.normal(size=len(idl)) for _, idl in lay]
    return pe.Obs(samples, [n for n, _ in lay], idl=[i for _, i in lay]), lay


def _obs_on(rng, lay, reps, kind, mean=None):
    chains = []
    for r in reps:
        name, idl = lay[r]
        chains.append((name, gen.sub_idl(rng, idl, kind) if kind != 'full' else idl))
    mean = float(rng.uniform(-2, 2)) if mean is None else mean
    samples = [mean + rng.normal(size=len(idl)) * 0.5 for _, idl in chains]
    return pe.Obs(samples, [n for n, _ in chains], idl=[i for _, i in chains])


def _call(f):
    try:
        with np.errstate(all='ignore'):
            return f()
    except Exception as e:  # noqa: BLE001
        return e


def _res(x):
    return project_exc(x) if isinstance(x, Exception) else project_any(x)


def reweight_cases(rng, n, ctx):
    cases = []
    for i in range(n):
        nrep = int(rng.integers(1, 4))
        w, lay = _weight(rng, nrep)
        m = int(rng.integers(1, nrep + 1))
        reps = sorted(rng.choice(nrep, size=m, replace=False).tolist())
        kind = str(rng.choice(['full', 'prefix', 'suffix', 'stride', 'random', 'random']))
        allc = bool(rng.random() < 0.4)
        container = str(rng.choice(['single', 'single', 'list', 'corr', 'method']))
        if container == 'method':
            allc = False          # Obs.reweight has no normalisation argument
        bad = str(rng.choice(['none'] * 6 + ['extra_cfg', 'other_chain', 'covobs', 'covobs_w', 'two_ens']))
        olist = [_obs_on(rng, lay, reps, kind) for _ in range(1 if container in ('single', 'method') else int(rng.integers(2, 4)))]
        if bad == 'extra_cfg':
            name, idl = lay[reps[0]]
            # a configuration the weight lacks: beyond its last one, before its first one, or inside a gap of its list
            have = set(idl)
            holes = [c for c in range(min(idl) + 1, max(idl)) if c not in have]
            where = str(rng.choice(['after', 'before', 'gap', 'gap'])) if holes else str(rng.choice(['after', 'before']))
            if where == 'before' and min(idl) < 2:
                where = 'after'
            alien = max(idl) + 3 if where == 'after' else min(idl) - 1 if where == 'before' else int(rng.choice(holes))
            keep = list(idl)[:6] if where != 'gap' else [c for c in idl if abs(c - alien) <= 12][:8]
            ext = sorted(set(keep) | {alien})
            if len(ext) < 5:
                ext = sorted(set(list(idl)[:6]) | {alien})
            olist[0] = pe.Obs([rng.normal(size=len(ext))] + [rng.normal(size=len(lay[r][1])) for r in reps[1:]],
                              [name] + [lay[r][0] for r in reps[1:]], idl=[ext] + [lay[r][1] for r in reps[1:]])
        elif bad == 'other_chain':
            olist[0] = pe.Obs([rng.normal(size=9)], ['W|zz'])
        elif bad == 'covobs':
            olist[0] = olist[0] + pe.cov_Obs(0.3, 0.01, 'sysW')
        elif bad == 'covobs_w':
            w = w + pe.cov_Obs(0.3, 0.01, 'sysW')            # the covariance input sits in the weight
        elif bad == 'two_ens':
            olist[0] = olist[0] + pe.Obs([rng.normal(size=9)], ['V|r1'])
        kw = {'all_configs': True} if allc else {}
        if container == 'corr':
            # a correlator holds observables on identical chains: reuse the first entry's layout
            for j in range(1, len(olist)):
                if bad == 'two_ens':
                    olist[j] = olist[0] * float(rng.uniform(0.5, 2))
                    continue
                olist[j] = pe.Obs([rng.normal(size=olist[0].shape[nm]) for nm in olist[0].names if nm in olist[0].idl],
                                  [nm for nm in olist[0].names if nm in olist[0].idl], idl=[olist[0].idl[nm] for nm in olist[0].names if nm in olist[0].idl])
                if bad == 'covobs':
                    olist[j] = olist[j] + pe.cov_Obs(0.3, 0.01, 'sysW')
            corr = pe.Corr(olist)
            before = snap([w, olist])
            out = _call(lambda: corr.reweight(w, **kw))
            outs = [out] * len(olist) if isinstance(out, Exception) else [c if c is None else c[0] for c in out.content]
        elif container == 'method':
            before = snap([w, olist])
            outs = [_call(lambda: olist[0].reweight(w))]
        else:
            before = snap([w, olist])
            out = _call(lambda: pe.reweight(w, olist, **kw))
            outs = [out] * len(olist) if isinstance(out, Exception) else list(out)
        cases.append(frame_event('rw-%04d-frame' % i, 'reweight leaves the weight and the observables as they were', before, [w, olist]))
        for j, o in enumerate(olist):
            # a list request is rejected as a whole when any member is unalignable: judged member-wise only when all are fine or j is the bad one
            if bad != 'none' and j != 0:
                continue
            cid = 'rw-%04d-%d-%s-%s-%s-%s' % (i, j, kind, 'all' if allc else 'own', container, bad)
            cases.append({'id': cid, 'ev': 'reweight', 'w': project_obs(w), 'o': project_obs(o), 'all': allc, 'res': _res(outs[j])})
            ctx.nontrivial.add((nrep, tuple(reps), kind, allc, container, bad))
            if not isinstance(outs[j], Exception) and rng.random() < 0.5:
                d = _call(lambda: np.sin(outs[j]) * 2.0 + _obs_on(rng, lay, reps, 'full'))
                cases.append({'id': cid + '-inh', 'ev': 'inherit', 'expect': True, 'res': _res(d)})
                if len(outs[j].names) == 1 and i % 3 == 0:
                    # ... also through the jackknife-based matrix product (single chains only, as that route requires)
                    m1 = np.array([[outs[j]]], dtype=object)
                    dj = _call(lambda: (pe.linalg.jack_matmul(m1, m1) if i % 2 else pe.linalg.einsum('ij,jk->ik', m1, m1))[0, 0])
                    cases.append({'id': cid + '-inh-jack', 'ev': 'inherit', 'route': 'jackknife', 'expect': True, 'res': _res(dj)})
        ctx.sample({'id': 'rw-%04d' % i, 'weight_chains': [(nm, str(il)[:50]) for nm, il in lay], 'replicas_used': reps, 'subset': kind,
                    'all_configs': allc, 'container': container, 'malformation': bad})
    return cases


def correlate_cases(rng, n, ctx):
    cases = []
    for i in range(n):
        nrep = int(rng.integers(1, 4))
        _, lay = _weight(rng, nrep)
        reps = list(range(nrep))
        a = _obs_on(rng, lay, reps, 'full')
        bad = str(rng.choice(['none'] * 5 + ['idl', 'names', 'covobs', 'subset', 'interior', 'interior', 'fewer_replicas']))
        if bad == 'fewer_replicas' and nrep < 2:
            bad = 'names'
        if bad == 'fewer_replicas':
            # the partner lives on some of the replicas only: different chains, even though they overlap
            keep = sorted(rng.choice(nrep, size=int(rng.integers(1, nrep)), replace=False).tolist())
            b = _obs_on(rng, lay, keep, 'full')
        if bad == 'interior':
            # same replicas, same number of configurations, same first and last one - but another configuration in between
            lay2, done = [], False
            for nm, il in lay:
                il = list(il)
                free = [c for c in range(il[0] + 1, il[-1]) if c not in set(il)]
                if not done and free and len(il) > 2:
                    k = int(rng.integers(1, len(il) - 1))
                    il = sorted(set(il[:k] + il[k + 1:]) | {int(rng.choice(free))})
                    done = True
                lay2.append((nm, il))
            if not done:
                bad = 'idl'
            else:
                b = _obs_on(rng, lay2, reps, 'full')
        if bad in ('interior', 'fewer_replicas'):
            pass
        elif bad == 'idl':
            b = _obs_on(rng, [(nm, [x + 1 for x in il]) for nm, il in lay], reps, 'full')
        elif bad == 'names':
            b = _obs_on(rng, [(nm + 'x', il) for nm, il in lay], reps, 'full')
        elif bad == 'covobs':
            b = _obs_on(rng, lay, reps, 'full') + pe.cov_Obs(0.3, 0.01, 'sysW')
        elif bad == 'subset':
            b = _obs_on(rng, lay, reps, 'random')
        else:
            b = _obs_on(rng, lay, reps, 'full')
        ra = rb = False
        if bad == 'none' and rng.random() < 0.3:
            w = _obs_on(rng, lay, reps, 'full', mean=5.0)
            a = pe.reweight(w, [a])[0]
            ra = True
        before = snap([a, b])
        out = _call(lambda: pe.correlate(a, b))
        cases.append(frame_event('co-%04d-frame' % i, 'correlate leaves its operands as they were', before, [a, b]))
        cases.append({'id': 'co-%04d-%s%s' % (i, bad, '-rw' if ra else ''), 'ev': 'correlate', 'a': project_obs(a), 'b': project_obs(b), 'res': _res(out)})
        ctx.nontrivial.add(('co', nrep, bad, ra))
    return cases


def merge_cases(rng, n, ctx):
    cases = []
    for i in range(n):
        nrep = int(rng.integers(2, 5))
        lay = [('M|r%d' % (r + 1), gen.make_idl(rng, str(rng.choice(['contig', 'strided', 'irregular'])), int(rng.integers(5, 20)))) for r in range(nrep)]
        # a random partition of the replicas into observables
        labels = rng.integers(0, 3, size=nrep)
        groups = [[r for r in range(nrep) if labels[r] == g] for g in sorted(set(labels.tolist()))]
        obs = [_obs_on(rng, lay, g, 'full') for g in groups]
        bad = str(rng.choice(['none'] * 5 + ['dup', 'covobs', 'two_ens']))
        if bad == 'dup':
            gsel = groups[int(rng.integers(0, len(groups)))]
            obs.append(_obs_on(rng, lay, [gsel[int(rng.integers(0, len(gsel)))]], 'full'))      # any replica of any input, once more
        elif bad == 'covobs':
            obs[0] = obs[0] + pe.cov_Obs(0.3, 0.01, 'sysW')
        elif bad == 'two_ens':
            obs.append(pe.Obs([rng.normal(size=7)], ['V|r1']))
        order = rng.permutation(len(obs)).tolist()
        obs = [obs[k] for k in order]
        if bad == 'none' and rng.random() < 0.3:
            w = _obs_on(rng, lay, groups[0], 'full', mean=5.0)
            k = order.index(0)
            obs[k] = pe.reweight(w, [obs[k]])[0]
        before = snap(obs)
        out = _call(lambda: pe.merge_obs(obs))
        cases.append(frame_event('mg-%04d-frame' % i, 'merge_obs leaves the list and the observables it was given as they were', before, obs))
        cases.append({'id': 'mg-%04d-%s' % (i, bad), 'ev': 'merge', 'list': [project_obs(o) for o in obs], 'res': _res(out)})
        if not isinstance(out, Exception):
            # what is derived from a merged observable inherits the flag of its parts (and only that)
            d = _call(lambda: np.cos(out) * 0.5 + 1.0)
            cases.append({'id': 'mg-%04d-%s-inh' % (i, bad), 'ev': 'inherit', 'expect': any(bool(o.reweighted) for o in obs), 'res': _res(d)})
        ctx.nontrivial.add(('mg', nrep, tuple(map(tuple, groups)), bad))
    return cases


def projection_cases(rng, n, ctx):
    """qtop_projection: the 0/1 indicator of a topological sector on the charge's own configurations; projecting on one sector
    leaves the charge as it was, so that the next sector is projected from the same numbers"""
    cases = []
    for i in range(n):
        nrep = int(rng.integers(1, 4))
        _, lay = _weight(rng, nrep)
        samples = [rng.integers(-2, 3, size=len(il)).astype(float) + rng.uniform(-0.3, 0.3, size=len(il)) for _, il in lay]
        q = pe.Obs(samples, [nm for nm, _ in lay], idl=[il for _, il in lay])
        before = project_obs(q)
        for step, target in enumerate([int(rng.integers(-1, 2)), int(rng.integers(-2, 3)), 0]):
            out = _call(lambda: pe.input.openQCD.qtop_projection(q, target))
            cases.append({'id': 'qp-%04d-%d-t%d' % (i, step, target), 'ev': 'projection', 'q': before, 'target': target, 'res': _res(out)})
        cases.append({'id': 'qp-%04d-frame' % i, 'ev': 'frame', 'what': 'qtop_projection leaves the charge as it was', 'before': before, 'after': project_obs(q)})
        ctx.nontrivial.add(('qp', nrep, i))
    return cases


def run(ctx):
    rng = np.random.default_rng(ctx.seed)
    q = ctx.quick
    ctx.model('MC_Align', cfg='MC_Align.cfg' if q else 'MC_Align_deep.cfg', timeout=1800)
    cases = reweight_cases(rng, 140 if q else 1500, ctx)
    cases += correlate_cases(rng, 60 if q else 500, ctx)
    cases += merge_cases(rng, 60 if q else 500, ctx)
    cases += projection_cases(rng, 20 if q else 200, ctx)
    ctx.validate('OpsTrace', cases)
