"""C07 - linear least-squares fits reproduce the closed-form GLS estimator.

(T) least_squares on polynomial / linear-basis models (1-4 parameters, 1-2 abscissa dimensions, 1-3 data sets sharing
    parameters) with data on independent / shared / mixed ensembles, priors as list, dict, Obs or 'value(err)' strings on any
    parameter subset, uncorrelated or correlated chi^2 (estimated or supplied inverse Cholesky factor), Levenberg-Marquardt /
    migrad / Nelder-Mead / Powell, automatic or numerical differentiation.  FitTrace.tla solves the normal equations
    (A^T W A + P) p = A^T W y + P prior exactly (LinAlg!Solve over the rationals), requires chi^2 at the returned parameters to
    exceed the GLS minimum by less than the minimiser's stopping tolerance, derives every fluctuation and covariance gradient
    with the same matrix through ObsCore!Derive, and recomputes chi^2, dof and the p-values.  Permuted points / keys must
    give the same observables.
"""
import contextlib
import io

import numpy as np

import pyerrors as pe

from harness import gen, fitgen
from harness.jsonsafe import rat, ratx
from harness.frames import snap, frame_event
from harness.pe_project import project_obs

RULE = ('cases = (basis x number of data sets x ensemble structure x prior form and subset x correlation mode x method x gradient mode), plus '
        'permutation twins; non-trivial = more than one parameter or priors or correlated chi^2')
ASSUMPTIONS = ['design matrices have full rank (checked numerically before the case is used)',
               'stopping tolerances in units of chi^2: Levenberg-Marquardt 1e-11, Nelder-Mead / Powell 1e-8, migrad 1e-5; a minimiser that reports non-convergence raises in pyerrors and the case is discarded',
               'p-values: series / continued-fraction evaluation of the incomplete gamma and beta functions in the Java kernel, compared at 1e-6']

BASIS = {(1, 1): [(0,)], (2, 1): [(0,), (1,)], (3, 1): [(0,), (1,), (2,)], (4, 1): [(0,), (1,), (2,), (3,)],
         (2, 2): [(1, 0), (0, 1)], (3, 2): [(0, 0), (1, 0), (0, 1)], (4, 2): [(0, 0), (1, 0), (0, 1), (1, 1)]}
METHODS = ['Levenberg-Marquardt', 'Levenberg-Marquardt', 'migrad', 'Nelder-Mead', 'Powell']


def _quiet(f):
    with np.errstate(all='ignore'), contextlib.redirect_stdout(io.StringIO()):
        return f()


def make_case(rng, i, ctx):
    D = int(rng.choice([1, 1, 2]))
    n = int(rng.integers(1, 5)) if D == 1 else int(rng.integers(2, 5))
    nkeys = int(rng.choice([1, 1, 2, 3])) if i % 5 else int(rng.choice([2, 3]))
    basis = BASIS[(n, D)]
    keys = ['b', 'a', 'c'][:nkeys]
    models, xs, design = {}, {}, []
    for key in keys:
        while True:
            terms = []
            for k, ex in enumerate(basis):
                if nkeys == 1 or rng.random() < 0.75:
                    terms.append((k, ex, 1.0 if nkeys == 1 else float(np.round(rng.uniform(0.5, 2.0), 2))))
            if terms:
                break
        npts = int(rng.integers(max(2, n), 8)) if i % 5 else int(rng.integers(2, 4))
        if D == 1:
            x = np.round(np.sort(rng.choice(np.arange(1, 40), size=npts, replace=False)) * 0.25, 3)
        else:
            x = np.round(rng.uniform(0.3, 3.0, size=(2, npts)), 2)
        f, e = fitgen.linear_model(n, D, terms)
        models[key] = (f, e, terms)
        xs[key] = x
    # design matrix rank (all keys together)
    rows = []
    for key in sorted(keys):
        f, e, terms = models[key]
        x = xs[key]
        for j in range(x.shape[-1]):
            xj = [x[j]] if D == 1 else [x[0, j], x[1, j]]
            row = np.zeros(n)
            for k, ex, cf in terms:
                row[k] += cf * np.prod([xj[d] ** ex[d] for d in range(D)])
            rows.append(row)
    A = np.array(rows)
    if np.linalg.matrix_rank(A) < n or np.linalg.cond(A) > 1e4:
        return None
    ptrue = np.round(rng.uniform(0.5, 2.0, size=n) * rng.choice([1, -1], size=n), 2)
    truth = A @ ptrue
    kind = str(rng.choice(['independent', 'shared', 'mixed'])) if i % 5 else 'shared'      # every fifth case: combined fit on one ensemble (correlated chi^2 possible)
    m = len(truth)
    if i % 7 == 3 and m <= 9:
        kind = 'common_factor'       # every point on its own ensemble, all of them times one external factor (a renormalisation constant with an error)
    corr_mode = 'none'
    if kind == 'shared' and m <= 9 and (rng.random() < 0.6 or i % 5 == 0):
        corr_mode = str(rng.choice(['estimated', 'supplied']))
        if i % 10 == 0:
            corr_mode = 'estimated'      # (every tenth case is constructed: estimated covariance, migrad, all points on one list - see the tol keyword below)
    if kind == 'common_factor':
        corr_mode = 'estimated'
        zren = pe.cov_Obs(1.0, 0.03 ** 2, 'Zren')
        yall = [o * zren for o in fitgen.data_points(rng, truth, 'independent', m)]
    else:
        yall = fitgen.data_points(rng, truth, kind, m, nsamp=60 if corr_mode != 'none' else 40, vary_n=bool(kind == 'shared' and rng.random() < 0.5 and i % 10 != 0))
    [o.gamma_method() for o in yall]
    ys, pos = {}, 0
    for key in sorted(keys):
        k = xs[key].shape[-1]
        ys[key] = yall[pos:pos + k]
        pos += k
    method = METHODS[int(rng.integers(0, len(METHODS)))]
    if i % 10 == 0 and corr_mode == 'estimated':
        method = 'migrad'
    numgrad = bool(rng.random() < 0.25)
    prior_form = str(rng.choice(['none', 'none', 'list_str', 'dict_str', 'dict_obs', 'list_mixed']))
    kw = {'silent': True, 'method': method}
    if numgrad:
        kw['num_grad'] = True
    if method != 'Levenberg-Marquardt':
        kw['initial_guess'] = list(ptrue * (1 + 0.05 * rng.normal(size=n)))

    def prior_value(k):
        v = float(ptrue[k]) * float(rng.uniform(0.8, 1.2))
        form = int(rng.integers(0, 5))
        if form == 0:
            return '%.2f(%d)' % (v, int(rng.integers(20, 90)))
        if form == 1:
            return '%.1f0(%d)' % (v, int(rng.integers(20, 90)))            # value text ending in a zero
        if form == 2:
            return '%.3f(%d)' % (round(v, 1), int(rng.integers(200, 900)))     # two trailing zeros
        if form == 3:
            return '%.1f(%.1f)' % (v, float(rng.uniform(0.2, 0.9)))            # error with its own decimal point
        return '%d(%d)' % (int(round(v)) or 1, int(rng.integers(1, 3)))        # integers
    priors = None
    if prior_form == 'list_str':
        priors = [prior_value(k) for k in range(n)]
    elif prior_form == 'list_mixed':
        priors = [prior_value(k) if k % 2 else pe.cov_Obs(float(ptrue[k]) * 1.1, 0.4 ** 2, 'prior_in_%d' % k) for k in range(n)]
    elif prior_form in ('dict_str', 'dict_obs'):
        sub = sorted(rng.choice(n, size=int(rng.integers(1, n + 1)), replace=False).tolist())
        if prior_form == 'dict_str':
            priors = {int(k): prior_value(k) for k in sub}
        else:
            priors = {}
            for k in sub:
                po = gen.make_obs(rng, [('priorens%d' % k, range(1, 31))], mean=float(ptrue[k]) * 1.05, sigma=0.5)
                po.gamma_method()
                priors[int(k)] = po
    if priors is not None:
        kw['priors'] = priors
    if corr_mode == 'estimated' and method == 'migrad' and kind == 'shared' and len(yall) >= 3 and yall[0].idl == yall[1].idl:
        # the minimiser's own keyword, given with the value that is its default anyway (the minimisation is the same), on data with two almost
        # collinear points (smallest eigenvalue of the correlation matrix about 5e-5): the weights are the inverse of the ESTIMATED covariance,
        # whatever else is passed along
        twin1 = (yall[0] - yall[0].value) + float(yall[1].value) + 0.01 * (yall[1] - yall[1].value)
        twin1.gamma_method()
        for key in ys:
            ys[key] = [twin1 if o is yall[1] else o for o in ys[key]]
        yall[1] = twin1
        kw['tol'] = 1e-4
    L = None
    if corr_mode != 'none':
        kw['correlated_fit'] = True
        ysorted = [o for key in sorted(keys) for o in ys[key]]
        corr = pe.covariance(ysorted, correlation=True)
        if np.linalg.cond(corr) > 1e6:
            return None
        L = pe.obs.invert_corr_cov_cholesky(corr, np.diag(1 / np.array([o.dvalue for o in ysorted])))
        if corr_mode == 'supplied':
            kw['inv_chol_cov_matrix'] = [L, sorted(keys)]

    held = {}

    def run(order_keys, perm):
        if nkeys == 1 and rng.random() < 0.7 and order_keys == keys:
            key = keys[0]
            xx = xs[key][..., perm[key]]
            yy = [ys[key][j] for j in perm[key]]
            if 'before' not in held:
                held['args'] = [yy, [v for v in (kw.get('priors').values() if isinstance(kw.get('priors'), dict) else kw.get('priors') or []) if isinstance(v, pe.Obs)]]
                held['before'] = snap(held['args'])
            if 'inv_chol_cov_matrix' in kw:
                return pe.fits.least_squares({key: xx}, {key: yy}, {key: models[key][0]}, **kw)
            return pe.fits.least_squares(xx, yy, models[key][0], **kw)
        xd = {key: xs[key][..., perm[key]] for key in order_keys}
        yd = {key: [ys[key][j] for j in perm[key]] for key in order_keys}
        fd = {key: models[key][0] for key in order_keys}
        if 'before' not in held:
            held['args'] = [yd, [v for v in (kw.get('priors').values() if isinstance(kw.get('priors'), dict) else kw.get('priors') or []) if isinstance(v, pe.Obs)]]
            held['before'] = snap(held['args'])
        return pe.fits.least_squares(xd, yd, fd, **kw)

    ident = {key: list(range(xs[key].shape[-1])) for key in keys}
    try:
        res = _quiet(lambda: run(keys, ident))
    except Exception as e:  # noqa: BLE001
        if 'did not converge' in str(e):
            return 'discard'
        return [{'id': 'fit-%04d' % i, 'ev': 'fit', 'res': {'k': 'exc', 't': type(e).__name__}}]
    # event
    exprs, points = [], []
    for ki, key in enumerate(sorted(keys)):
        exprs.append(gen.strip(models[key][1]))
        x = xs[key]
        for j in range(x.shape[-1]):
            points.append({'e': ki + 1, 'x': [rat(float(x[j]))] if D == 1 else [rat(float(x[0, j])), rat(float(x[1, j]))]})
    ysorted = [o for key in sorted(keys) for o in ys[key]]

    def build(cid, res, L):
        """the fit event: the weights are the errors the data objects carry NOW (and the Cholesky factor built from them)"""
        W = {'k': 'diag', 'dy': [rat(float(o.dvalue)) for o in ysorted]} if corr_mode == 'none' else {'k': 'chol', 'L': fitgen.mat(L)}
        pri = []
        if priors is not None:
            pr = res.priors
            # operands of the propagation follow the order in which the priors were handed in
            items = list(pr.items()) if isinstance(pr, dict) else list(enumerate(pr))
            given = priors if isinstance(priors, dict) else dict(enumerate(priors))
            for k, po in items:
                po.gamma_method()
                pri.append({'pos': int(k) + 1, 'o': project_obs(po), 'v': rat(float(po.value)), 'dv': rat(float(po.dvalue)),
                            's': given[k] if isinstance(given[k], str) else ''})
        rec = fitgen.fit_result_record(res, corr_mode != 'none')
        rec['ncov'] = int(min(o.N for o in ysorted))
        return {'id': cid, 'ev': 'fit', 'mode': 'fit', 'n': n, 'linear': True, 'method': method, 'numgrad': numgrad, 'exprs': exprs, 'points': points,
                'y': [project_obs(o) for o in ysorted], 'W': W, 'priors': pri, 'res': rec}, rec

    cid = 'fit-%04d-n%dD%d-k%d-%s-%s-%s-%s%s' % (i, n, D, nkeys, kind, prior_form, corr_mode, method.replace('-', ''), '-num' if numgrad else '')
    first, rec = build(cid, res, L)
    frame = frame_event(cid + '-frame', 'least_squares leaves the data and prior observables as they were', held['before'], held['args'])
    cases = [first]
    if i % 2 == 0:
        cases.append(frame)
    ctx.nontrivial.add((n, D, nkeys, kind, prior_form, corr_mode, method, numgrad))
    # permutation twin: points permuted inside every key, keys handed over in another order
    if rng.random() < 0.5 and 'inv_chol_cov_matrix' not in kw and priors is None or (priors is not None and prior_form.startswith('dict') and rng.random() < 0.3 and 'inv_chol_cov_matrix' not in kw):
        perm = {key: rng.permutation(xs[key].shape[-1]).tolist() for key in keys}
        try:
            res2 = _quiet(lambda: run(list(reversed(keys)), perm))
            sig = []
            for o in res2.fit_parameters:
                o.gamma_method()
                sig.append(rat(float(o.dvalue)))
            cases.append({'id': cid + '-perm', 'ev': 'same', 'what': 'independent of the order of points and keys', 'sig': sig,
                          'rtol': '1/1000000' if method == 'Levenberg-Marquardt' and not numgrad else '1/1000',
                          'a': {'k': 'ok', 'p': rec['p']}, 'b': {'k': 'ok', 'p': [project_obs(o) for o in res2.fit_parameters]}})
        except Exception as e:  # noqa: BLE001
            if 'did not converge' not in str(e):
                cases.append({'id': cid + '-perm', 'ev': 'same', 'what': 'independent of the order of points and keys', 'rtol': '1/1000000',
                              'a': {'k': 'ok', 'p': rec['p']}, 'b': {'k': 'exc', 't': type(e).__name__}})
    # history: the SAME data objects are analysed again with other parameters (their errors change by different factors) and the SAME request is
    # made again - the weights of a fit are the errors the data carry at the time of the call, nothing remembered from an earlier fit
    if (corr_mode == 'estimated' and method in ('Levenberg-Marquardt', 'migrad')) or (i % 3 == 1 and corr_mode == 'none' and method == 'Levenberg-Marquardt'):
        try:
            for j, o in enumerate(ysorted):
                o.gamma_method(S=[0.0, 4.0, 1.0][j % 3], tau_exp=[0.0, 0.0, 3.0][j % 3])
            L2 = None
            if corr_mode == 'estimated':
                corr2 = pe.covariance(ysorted, correlation=True)
                L2 = pe.obs.invert_corr_cov_cholesky(corr2, np.diag(1 / np.array([o.dvalue for o in ysorted])))
            res_b = _quiet(lambda: run(keys, ident))
            cases.append(build(cid + '-reanalysed', res_b, L2)[0])
        except Exception as e:  # noqa: BLE001
            if 'did not converge' not in str(e):
                cases.append({'id': cid + '-reanalysed', 'ev': 'fit', 'res': {'k': 'exc', 't': type(e).__name__}})
    return cases


def corrfit_cases(rng, n, ctx):
    """the Corr.fit entry point: inclusive fit range, undefined timeslices skipped, stored plateau range as the default range,
    weights frozen at the errors the user's own analysis (non-default parameters) left on the correlator"""
    cases = []
    i = 0
    while len(cases) < 4 * n and i < 10 * n:
        i += 1
        T = int(rng.integers(6, 12))
        npar = int(rng.integers(1, 3))
        ptrue = [float(np.round(rng.uniform(0.5, 2.0), 2)), float(np.round(rng.uniform(-0.2, 0.2), 2))][:npar]
        idl = gen.make_idl(rng, str(rng.choice(['contig', 'strided'])), 80)
        content = []
        for t in range(T):
            if t > 0 and rng.random() < 0.2:
                content.append(None)
                continue
            v = ptrue[0] + (ptrue[1] * t if npar == 2 else 0.0)
            content.append(pe.Obs([v + 0.05 * gen.chain_data(rng, len(idl), mean=0.0, sigma=1.0, tau=3.0)], ['E|r1'], idl=[idl]))
        c = pe.Corr(content)
        gmkw = [{}, {'S': 3.5}, {'S': 1.0}, {'tau_exp': 4.0, 'N_sigma': 2}][int(rng.integers(0, 4))]
        c.gamma_method(**gmkw)
        lo = int(rng.integers(0, T - 3))
        hi = int(rng.integers(lo + 2, T))
        pts = [t for t in range(lo, hi + 1) if c.content[t] is not None]
        if len(pts) <= npar:
            continue
        ys = [c.content[t][0] for t in pts]
        before = [rat(float(o.dvalue)) for o in ys]
        entry = str(rng.choice(['range', 'prange']))
        if npar == 1:
            def f(a, t):
                return a[0] + 0.0 * t
            expr = gen.var(1)
        else:
            def f(a, t):
                return a[0] + a[1] * t
            expr = gen.node('add', gen.var(1), gen.node('mul', gen.var(2), gen.var(3)))
        fr = [lo, hi]                    # the caller's own list, used again below
        try:
            if entry == 'range':
                res = _quiet(lambda: c.fit(f, fr, silent=True))
            elif entry == 'prange':
                c.set_prange(fr)
                res = _quiet(lambda: c.fit(f, silent=True))
        except Exception as e:  # noqa: BLE001
            cases.append({'id': 'cfit-%04d-%s' % (i, entry), 'ev': 'fit', 'res': {'k': 'exc', 't': type(e).__name__}})
            continue
        after = [rat(float(o.dvalue)) for o in ys]
        cid = 'cfit-%04d-T%d-n%d-%s-%s' % (i, T, npar, entry, '_'.join('%s%s' % kv for kv in sorted(gmkw.items())) or 'default')
        rec = fitgen.fit_result_record(res, False)
        rec['ncov'] = int(min(o.N for o in ys))
        cases.append({'id': cid, 'ev': 'fit', 'mode': 'fit', 'n': npar, 'linear': True, 'method': 'Levenberg-Marquardt', 'numgrad': False, 'exprs': [gen.strip(expr)],
                      'points': [{'e': 1, 'x': [rat(float(t))]} for t in pts], 'y': [project_obs(o) for o in ys],
                      'W': {'k': 'diag', 'dy': before}, 'priors': [], 'res': rec})
        cases.append({'id': cid + '-frame', 'ev': 'frame', 'what': 'Corr.fit leaves the errors of the correlator as the caller computed them', 'before': before, 'after': after})
        try:
            res2 = _quiet(lambda: c.fit(f, fr, silent=True) if entry == 'range' else c.fit(f, silent=True))
            cases.append({'id': cid + '-again', 'ev': 'same', 'what': 'the same fit request a second time', 'rtol': '1/10000000000',
                          'a': {'k': 'ok', 'p': rec['p']}, 'b': {'k': 'ok', 'p': [project_obs(o) for o in res2.fit_parameters]}})
        except Exception as e:  # noqa: BLE001
            cases.append({'id': cid + '-again', 'ev': 'same', 'what': 'the same fit request a second time', 'rtol': '1/10000000000',
                          'a': {'k': 'ok', 'p': rec['p']}, 'b': {'k': 'exc', 't': type(e).__name__}})
        ctx.nontrivial.add(('cfit', T, npar, entry, tuple(sorted(gmkw))))
    return cases


WHAT_LM = 'the default Levenberg-Marquardt fit returns its starting point for data of magnitude 1e9 and beyond (finite-difference Jacobian underflows)'


def large_scale_probe(ctx, rng):
    """a recorded finding, probed by the driver itself: a straight line through data of size 1e10 with the default method and starting point
    either is the weighted least-squares solution, or is exactly the starting point (the listed deviation); anything else is a violation"""
    for k, scale in enumerate((1e10, 1e12)):
        x = np.arange(1, 7.0)
        y = [pe.Obs([scale * (1 + 0.5 * xi) * (1 + 0.05 * rng.normal(size=40))], ['big']) for xi in x]
        [o.gamma_method() for o in y]
        r = _quiet(lambda: pe.fits.least_squares(x, y, lambda a, x: a[0] + a[1] * x, silent=True))
        cid = 'fit-largescale-%g' % scale
        if isinstance(r, Exception):
            ctx.rejects.append((cid, 'fit raised ' + type(r).__name__))
            continue
        w = np.array([1.0 / o.dvalue ** 2 for o in y])
        A = np.vstack([np.ones_like(x), x]).T
        gls = np.linalg.solve(A.T @ (w[:, None] * A), A.T @ (w * np.array([o.value for o in y])))
        p = np.array([float(q.value) for q in r.fit_parameters])
        if np.allclose(p, gls, rtol=1e-6):
            continue
        if np.all(p == 0.1):
            ctx.known.append((cid, WHAT_LM))
        else:
            ctx.rejects.append((cid, 'parameters are neither the weighted least-squares solution nor the starting point'))
    ctx.cases += 2


def run(ctx):
    rng = np.random.default_rng(ctx.seed)
    want = 70 if ctx.quick else 900
    cases, i, discarded = [], 0, 0
    while len([c for c in cases if c['ev'] == 'fit']) < want and i < 20 * want:
        i += 1
        r = make_case(rng, i, ctx)
        if r is None:
            continue
        if r == 'discard':
            discarded += 1
            continue
        cases += r
    ctx.extra['discarded_nonconverged'] = discarded
    cases += corrfit_cases(rng, 12 if ctx.quick else 150, ctx)
    ctx.sample({'id': cases[0]['id'], 'model_expressions': cases[0].get('exprs'), 'points': cases[0].get('points', [])[:3]})
    ctx.validate('FitTrace', cases, timeout=3000)
    if ctx.only is None:
        large_scale_probe(ctx, rng)
