"""C13 - jackknife and bootstrap export/import are exact resampling transforms.

(M) MC_Resample: for every data word over {-1,0,1} of length 5..6 (8 thorough): UnJack(Jack(x)) = x, jackknife variance
    = naive squared error of Gamma (S=0), bootstrap determined iff the count matrix has full column rank.
(T) export_jackknife / import_jackknife / export_bootstrap / import_bootstrap of real pyerrors on single-chain
    observables of length 5..500 with every list class, supplied and name-seeded random tables; validated by
    ResampleTrace.tla in exact arithmetic.
"""
import os
import shutil

import numpy as np

import pyerrors as pe

from harness import gen, tlc
from harness.jsonsafe import rat, ratx
from harness.pe_project import project_obs, project_any, project_exc

RULE = ('cases = (observable length 5..500 x list class x data scale) x {jackknife export, jackknife import, bootstrap export with a '
        'supplied table, bootstrap import, default seeding}; non-trivial = non-constant data')
ASSUMPTIONS = ['import_bootstrap has no configuration-list argument: only value and samples are compared there',
               'bootstrap import compared at 1e-8 (least-squares solve), everything else at 1e-12']


def _call(f):
    try:
        with np.errstate(all='ignore'):
            return f()
    except Exception as e:  # noqa: BLE001
        return e


def _res(x):
    return project_exc(x) if isinstance(x, Exception) else project_any(x)


def _seq(a):
    return [ratx(float(x)) for x in np.asarray(a, dtype=float).reshape(-1)]


def cases_for(rng, n, ctx):
    cases = []
    tmp = tlc.scratch('verif.c13.')
    try:
        for i in range(n):
            N = int(rng.choice([5, 6, 7, 9, 12, 20, 33])) if i % 6 else int(rng.integers(50, 501 if not ctx.quick else 160)) if i % 12 else int(rng.integers(260, 330))
            cls = str(rng.choice(gen.IDL_CLASSES))
            idl = gen.make_idl(rng, cls, N)
            name = str(rng.choice(['ens', 'A|r1', 'long name|7']))
            kind = str(rng.choice(['normal', 'normal', 'ints', 'big', 'alternating', 'offset'])) if N <= 33 else str(rng.choice(['normal', 'normal', 'ints', 'big', 'alternating']))
            if kind == 'ints':
                x = rng.integers(-3, 4, N).astype(float)
                x[0] += 1
            elif kind == 'big':
                x = rng.normal(size=N) * 1e6 + 3e8
            elif kind == 'offset':
                # a large offset with small but well-resolved fluctuations (relative spread 1e-8)
                c0, s0 = [(2500.0, 2e-5), (-7e5, 5e-3), (1e8, 1.0)][int(rng.integers(0, 3))]
                x = c0 + s0 * rng.normal(size=N)
            elif kind == 'alternating':
                x = gen.chain_data(rng, N, mean=0.3, sigma=1.0, kind='alternating')
            else:
                x = gen.chain_data(rng, N, mean=float(rng.uniform(-2, 2)), sigma=float(10 ** rng.uniform(-3, 2)), tau=float(rng.choice([0, 3])))
            o = pe.Obs([x], [name], idl=[idl])
            po = project_obs(o)
            tag = '%04d-%s-N%d-%s' % (i, cls, N, kind)
            jk = _call(lambda: o.export_jackknife())
            if isinstance(jk, Exception):
                cases.append({'id': 'jx-' + tag, 'ev': 'jack_import', 'obs': po, 'res': _res(jk)})
                continue
            # the library's own naive error: gamma_method(S=0) on a fresh copy
            oc = pe.Obs([np.array(x)], [name], idl=[idl])
            nv = _call(lambda: (oc.gamma_method(S=0), float(oc.dvalue))[1])
            cases.append({'id': 'jx-' + tag, 'ev': 'jack_export', 'obs': po, 'jack': _seq(jk), 'naive': 'nan' if isinstance(nv, Exception) else ratx(nv)})
            jk_before = _seq(jk)
            # what export returns belongs to the caller: scribbling on it must not reach a later export
            jk_mine = np.array(jk, dtype=float)
            jk *= 3.0
            again = _call(lambda: o.export_jackknife())
            cases.append({'id': 'jr-' + tag, 'ev': 'frame', 'what': 'a second export_jackknife returns the same samples, whatever the caller did to the first array',
                          'before': jk_before, 'after': _seq(again) if not isinstance(again, Exception) else []})
            jk = jk_mine
            back = _call(lambda: pe.import_jackknife(jk, name, idl=[idl if rng.random() < 0.5 else list(idl)]))
            cases.append({'id': 'ji-' + tag, 'ev': 'jack_import', 'obs': po, 'res': _res(back)})
            # the same samples a second time: importing is not consuming
            back2 = _call(lambda: pe.import_jackknife(jk, name, idl=[idl]))
            cases.append({'id': 'ji2-' + tag, 'ev': 'jack_import', 'obs': po, 'res': _res(back2)})
            if i % 4 == 0:
                wrong = list(idl)[:-2] if i % 8 == 0 else list(idl) + [max(idl) + 1, max(idl) + 2, max(idl) + 5]
                bad = _call(lambda: pe.import_jackknife(jk, name, idl=[wrong]))
                cases.append({'id': 'jibad-' + tag, 'ev': 'jack_import_bad', 'nidl': len(wrong), 'nsamples': N, 'res': {'k': 'exc' if isinstance(bad, Exception) else 'obs'}})
            ctx.nontrivial.add((N, cls, kind))
            if N <= 40:
                # bootstrap with a supplied table
                ns = int(rng.choice([1, 3, N - 1, N, 2 * N, 3 * N + 1]))
                ns = max(1, ns)
                table = rng.integers(0, N, size=(ns, N))
                if rng.random() < 0.15:
                    table[1:] = table[0]                   # rank deficient on purpose
                # the same table of configuration indices held in another integer type (tables come from files, from other programs, from
                # memory-saving code): a valid index table is a valid index table whatever its storage type
                table = table.astype([np.int64, np.uint8, np.int32, np.int16, np.uint16, np.int8 if N <= 127 else np.uint8][i % 6])
                bs = _call(lambda: o.export_bootstrap(samples=ns, random_numbers=table))
                tl = [[int(v) for v in row] for row in table]
                if isinstance(bs, Exception):
                    cases.append({'id': 'bx-' + tag, 'ev': 'boot_import', 'obs': po, 'table': tl, 'res': _res(bs)})
                    continue
                cases.append({'id': 'bx-%s-ns%d' % (tag, ns), 'ev': 'boot_export', 'obs': po, 'table': tl, 'boots': _seq(bs)})
                if N <= 14:
                    bi = _call(lambda: pe.import_bootstrap(bs, name, table))
                    cases.append({'id': 'bi-%s-ns%d' % (tag, ns), 'ev': 'boot_import', 'obs': po, 'table': tl, 'res': _res(bi)})
                    # a second import of the very same arrays restores the observable again
                    bi2 = _call(lambda: pe.import_bootstrap(bs, name, table))
                    cases.append({'id': 'bi2-%s-ns%d' % (tag, ns), 'ev': 'boot_import', 'obs': po, 'table': tl, 'res': _res(bi2)})
                # default seeding by chain name
                if i % 3 == 0:
                    f1, f2, f3 = (os.path.join(tmp, 'r%d_%d' % (i, k)) for k in range(3))
                    other = pe.Obs([rng.normal(size=N)], [name], idl=[idl])
                    k = int(rng.integers(2, 9))
                    if (i // 3) % 2 == 1:       # (i is a multiple of 3 here, and the multiples of 6 have long chains that do not come this way)
                        # history: a shorter export of the same chain came first - the table of a request depends on the chain name and the
                        # number of samples asked for, not on what was exported before
                        _call(lambda: o.export_bootstrap(samples=max(1, k - 1)))
                    first = _call(lambda: o.export_bootstrap(samples=k, save_rng=f1))
                    second = _call(lambda: o.export_bootstrap(samples=k, save_rng=f2))
                    oth = _call(lambda: other.export_bootstrap(samples=k, save_rng=f3))
                    sm = _call(lambda: (o + other).export_bootstrap(samples=k))
                    if any(isinstance(v, Exception) for v in (first, second, oth, sm)):
                        cases.append({'id': 'bs-' + tag, 'ev': 'jack_import', 'obs': po, 'res': _res([v for v in (first, second, oth, sm) if isinstance(v, Exception)][0])})
                        continue
                    t1, t2, t3 = (np.atleast_2d(np.loadtxt(f, dtype=int)).tolist() for f in (f1, f2, f3))
                    cases.append({'id': 'bs-' + tag, 'ev': 'boot_seed', 'obs': po, 'first': _seq(first), 'second': _seq(second), 'other': _seq(oth),
                                  'sum': _seq(sm), 'table1': t1, 'table2': t2, 'table_other': t3})
            if N >= 260 and i % 2 == 0:
                # any table at all: rows that pick one configuration for (almost) the whole sample
                a, b = int(rng.integers(0, N)), int(rng.integers(0, N))
                table = np.stack([np.full(N, a), np.concatenate((np.full(257, b), rng.integers(0, N, size=N - 257))), rng.integers(0, N, size=N)])
                bs = _call(lambda: o.export_bootstrap(samples=3, random_numbers=table))
                tl = [[int(v) for v in row] for row in table]
                cases.append({'id': 'bx-%s-heavy' % tag, 'ev': 'boot_export', 'obs': po, 'table': tl, 'boots': _seq(bs)} if not isinstance(bs, Exception)
                             else {'id': 'bx-%s-heavy' % tag, 'ev': 'boot_import', 'obs': po, 'table': tl, 'res': _res(bs)})
            if len(ctx.samples) < 4:
                ctx.sample({'id': tag, 'N': N, 'idl': str(idl)[:60], 'data_kind': kind, 'jack_head': [float(v) for v in jk[:3]]})
    finally:
        shutil.rmtree(tmp, ignore_errors=True)
    return cases


def illconditioned_cases(rng, ctx, count):
    """square tables of full column rank whose smallest singular value is 1e-4 .. 1e-5 of the largest (they occur among random tables as soon as
    there are as many samples as configurations): the table still determines the data, the import has to restore them"""
    cases = []
    N = 150
    idl = list(range(1, N + 1))
    for k in range(count):
        table = None
        for _ in range(80):
            t = rng.integers(0, N, size=(N, N))
            A = np.array([np.bincount(row, minlength=N) for row in t]) / N
            sv = np.linalg.svd(A, compute_uv=False)
            if 1e-7 < sv[-1] / sv[0] < 8e-5:
                table = t
                break
        if table is None:
            continue
        o = pe.Obs([rng.normal(size=N) + 1.0], ['boot|r1'], idl=[idl])
        bs = _call(lambda: o.export_bootstrap(samples=N, random_numbers=table))
        if isinstance(bs, Exception):
            continue
        bi = _call(lambda: pe.import_bootstrap(bs, 'boot|r1', table))
        cases.append({'id': 'bi-illcond-%d' % k, 'ev': 'boot_import', 'obs': project_obs(o), 'table': [[int(v) for v in row] for row in table],
                      'fullrank': True, 'res': _res(bi)})
        ctx.nontrivial.add(('illcond', k))
    return cases


def run(ctx):
    rng = np.random.default_rng(ctx.seed)
    ctx.model('MC_Resample', cfg='MC_Resample.cfg' if ctx.quick else 'MC_Resample_deep.cfg', timeout=1800)
    cases = cases_for(rng, 90 if ctx.quick else 900, ctx)
    cases += illconditioned_cases(rng, ctx, 2 if ctx.quick else 6)
    ctx.validate('ResampleTrace', cases)
