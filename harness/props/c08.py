"""C08 - non-linear and total least-squares fits obey the implicit-function rule.

(T) least_squares on smooth non-linear families (exponential, two exponentials, cosh, rational, power, 2-d mixed) with data on
    independent / shared / mixed ensembles, uncorrelated and correlated chi^2, with and without priors, autograd and num_grad:
    FitTrace.tla evaluates the gradient and the Hessian of the documented chi^2 at the returned parameters from the model's
    analytic first and second derivatives (Expr!Grad, Expr!Diff - symbolic, independent of autograd), requires the Newton
    decrement g^T H^-1 g / 2 to be below the minimiser's tolerance (stationary point) and every fluctuation of every parameter
    to equal -H^-1 d(grad chi^2)/d(data) propagated by ObsCore!Derive.  total_least_squares: the same for the unknowns
    (p, xi) with the x-residual term, using the public xplus.  Re-fits after shifting one datum must move the parameters by
    the predicted first-order amount; a total-least-squares fit with negligible x errors must coincide with the ordinary fit.
"""
import contextlib
import io

import numpy as np

import pyerrors as pe

from harness import gen, fitgen
from harness.jsonsafe import rat, ratx
from harness.frames import snap, frame_event
from harness.pe_project import project_obs

RULE = ('cases = (model family x ensemble structure x priors x correlation mode x gradient mode) for least_squares, (family x x-error size) for '
        'total_least_squares, plus shift-and-refit and TLS-vs-OLS twins; non-trivial = every case (all are non-linear in at least one parameter)')
ASSUMPTIONS = ['data are generated close to the model (relative noise 1-3 %) in well-conditioned regions; a minimiser that reports non-convergence raises and the case is discarded',
               'stationarity is measured by the Newton decrement in units of chi^2 (1e-11 Levenberg-Marquardt, 1e-7 ODR)',
               'shift-and-refit (central difference, step 1e-2 sigma) agrees to first order: |dp - eps*dp/dy| <= 1e-2 |eps dp/dy| + 1e-3 max|eps dp/dy| + 1e-7 max|p|']


def _quiet(f):
    with np.errstate(all='ignore'), contextlib.redirect_stdout(io.StringIO()), contextlib.redirect_stderr(io.StringIO()):
        return f()


def make_case(rng, i, ctx):
    name = list(fitgen.NONLINEAR)[i % len(fitgen.NONLINEAR)]
    n, D, f, eb, ptrue, (lo, hi) = fitgen.NONLINEAR[name]
    npts = int(rng.integers(n + 2, n + 6))
    if D == 1:
        x = np.round(np.sort(rng.choice(np.linspace(lo, hi, 40), size=npts, replace=False)), 3)
        truth = np.array([f(ptrue, xi) for xi in x])
    else:
        x = np.round(rng.uniform(lo, hi, size=(2, npts)), 2)
        truth = np.array([f(ptrue, x[:, j]) for j in range(npts)])
    force = (i % 4 == 0)                      # every fourth case (cycles through the 7 families): correlated chi^2 together with priors
    kind = 'shared' if force else str(rng.choice(['independent', 'shared', 'mixed']))
    corr_mode = 'estimated' if (kind == 'shared' and npts <= 8 and (force or rng.random() < 0.5)) else 'none'
    ys = fitgen.data_points(rng, truth, kind, npts, nsamp=60 if corr_mode != 'none' else 30)
    [o.gamma_method() for o in ys]
    numgrad = bool(rng.random() < 0.2)
    kw = {'silent': True, 'initial_guess': [p * float(rng.uniform(0.9, 1.1)) for p in ptrue]}
    if numgrad:
        kw['num_grad'] = True
    pri_form = 'dict' if force else str(rng.choice(['none', 'none', 'dict']))
    priors = None
    if pri_form == 'dict':
        k = int(rng.integers(0, n))
        form = int(rng.integers(0, 3))
        if form == 2:
            priors = {k: '%.1f(%.1f)' % (ptrue[k] * 1.05, float(rng.uniform(0.2, 0.6)))}      # error with its own decimal point
        else:
            priors = {k: ['%.2f(%d)', '%.1f0(%d)'][form] % (ptrue[k] * 1.05, int(rng.integers(20, 60)))}
        kw['priors'] = priors
    L = None
    if corr_mode != 'none':
        kw['correlated_fit'] = True
        corr = pe.covariance(ys, correlation=True)
        if np.linalg.cond(corr) > 1e6:
            return None
        L = pe.obs.invert_corr_cov_cholesky(corr, np.diag(1 / np.array([o.dvalue for o in ys])))
    before = snap(ys)
    try:
        res = _quiet(lambda: pe.fits.least_squares(x, ys, f, **kw))
    except Exception as e:  # noqa: BLE001
        if 'did not converge' in str(e):
            return 'discard'
        return [{'id': 'nl-%04d-%s' % (i, name), 'ev': 'fit', 'mode': 'fit', 'res': {'k': 'exc', 't': type(e).__name__}}]
    if max(abs(float(p.value) - t) / abs(t) for p, t in zip(res.fit_parameters, ptrue)) > 0.5:
        return 'discard'          # a different local minimum far from the generating parameters: outside "well-conditioned regions"
    expr = gen.strip(eb(n))
    points = [{'e': 1, 'x': [rat(float(x[j]))] if D == 1 else [rat(float(x[0, j])), rat(float(x[1, j]))]} for j in range(npts)]
    W = {'k': 'diag', 'dy': [rat(float(o.dvalue)) for o in ys]} if L is None else {'k': 'chol', 'L': fitgen.mat(L)}
    pri = []
    if priors is not None:
        for k, po in res.priors.items():
            po.gamma_method()
            pri.append({'pos': int(k) + 1, 'o': project_obs(po), 'v': rat(float(po.value)), 'dv': rat(float(po.dvalue)), 's': priors[k]})
    rec = fitgen.fit_result_record(res, L is not None)
    rec['ncov'] = int(min(o.N for o in ys))
    cid = 'nl-%04d-%s-%s-%s-%s%s' % (i, name, kind, pri_form, corr_mode, '-num' if numgrad else '')
    cases = [{'id': cid, 'ev': 'fit', 'mode': 'fit', 'n': n, 'linear': False, 'method': 'Levenberg-Marquardt', 'numgrad': numgrad, 'exprs': [expr],
              'points': points, 'y': [project_obs(o) for o in ys], 'W': W, 'priors': pri, 'res': rec}]
    if i % 2 == 0:
        cases.append(frame_event(cid + '-frame', 'least_squares leaves the data observables as they were', before, ys))
    if i % 3 == 1:
        # the same request started from its own solution (re-fitting from a previous result): the same fit, judged in full once more
        kw2 = dict(kw, initial_guess=[float(p.value) for p in res.fit_parameters])
        try:
            res_b = _quiet(lambda: pe.fits.least_squares(x, ys, f, **kw2))
            pri_b = []
            if priors is not None:
                for k, po in res_b.priors.items():
                    po.gamma_method()
                    pri_b.append({'pos': int(k) + 1, 'o': project_obs(po), 'v': rat(float(po.value)), 'dv': rat(float(po.dvalue)), 's': priors[k]})
            rec_b = fitgen.fit_result_record(res_b, L is not None)
            rec_b['ncov'] = rec['ncov']
            cases.append(dict(cases[0], id=cid + '-refit', priors=pri_b, res=rec_b))
        except Exception as e:  # noqa: BLE001
            if 'did not converge' not in str(e):
                cases.append({'id': cid + '-refit', 'ev': 'fit', 'mode': 'fit', 'res': {'k': 'exc', 't': type(e).__name__}})
    ctx.nontrivial.add((name, kind, pri_form, corr_mode, numgrad))
    # shift one datum and re-fit (independent data: the sensitivity dp/dy_k is the ratio of fluctuations on the ensemble of point k)
    if kind == 'independent' and priors is None and not numgrad and rng.random() < 0.7:
        k = int(rng.integers(0, npts))
        # central difference with a step well above the convergence noise of the minimiser (about 1e-8 of the parameter error)
        eps = 1e-2 * float(ys[k].dvalue)
        chain = ys[k].names[0]
        sens = []
        for p in res.fit_parameters:
            d = np.asarray(p.deltas[chain])
            dy = np.asarray(ys[k].deltas[chain])
            j = int(np.argmax(np.abs(dy)))
            sens.append(float(d[j] / dy[j]))
        p0 = [float(p.value) for p in res.fit_parameters]
        try:
            moved = []
            for sgn in (1, -1):
                ys2 = list(ys)
                ys2[k] = ys[k] + sgn * eps
                ys2[k].gamma_method()
                res2 = _quiet(lambda: pe.fits.least_squares(x, ys2, f, silent=True, initial_guess=p0))
                moved.append([float(p.value) for p in res2.fit_parameters])
            shifted = {'k': 'ok', 'p': [{'value': rat(p0[a] + 0.5 * (moved[0][a] - moved[1][a]))} for a in range(len(p0))]}
        except Exception as e:  # noqa: BLE001
            shifted = {'k': 'exc', 't': type(e).__name__}
        # absolute allowance: third order in the step, and the minimiser's own precision
        curv = (1e-3 * eps * max(abs(s) for s in sens) + 1e-7 * max(abs(v) for v in p0)) / eps ** 2
        cases.append({'id': cid + '-shift%d' % k, 'ev': 'shift', 'eps': rat(eps), 'sens': [rat(s) for s in sens], 'curv': rat(curv),
                      'base': {'k': 'ok', 'p': [{'value': rat(float(p.value))} for p in res.fit_parameters]}, 'shifted': shifted})
    return cases


def make_tls(rng, i, ctx):
    # the 4-parameter 2-d family has 4 + 2*npts unknowns (minutes per case in exact arithmetic): thorough tier only
    names = ['exp', 'rational', 'cosh', 'power', 'prod2d'] + ([] if ctx.quick else ['mixed2d'])
    name = names[i % len(names)]
    n, D, f, eb, ptrue, (lo, hi) = fitgen.NONLINEAR[name]
    npts = int(rng.integers(n + 2, n + 4))
    xs = np.round(rng.uniform(lo, hi, size=(D, npts)), 2)
    xs.sort(axis=1)
    truth = np.array([f(ptrue, xs[0, j] if D == 1 else xs[:, j]) for j in range(npts)])
    negligible = i % 3 == 1                 # a fixed third of the cases, with x errors of 1e-9, 1e-11, 1e-12 in turn (relative to x)
    ys = fitgen.data_points(rng, truth, 'independent', npts)
    relx = [1e-9, 1e-11, 1e-12][(i // 3) % 3] if negligible else float(rng.uniform(0.003, 0.02))
    xo = [[pe.Obs([xs[d, j] + relx * (abs(xs[d, j]) + 0.1) * rng.normal(size=20)], ['x%d_%02d' % (d, j)]) for j in range(npts)] for d in range(D)]
    for row in xo:
        for k, o in enumerate(row):
            row[k] = o - (o.value - xs[xo.index(row), k])
    [o.gamma_method() for o in ys]
    [[o.gamma_method() for o in row] for row in xo]
    xarg = xo[0] if D == 1 else tuple(xo) if rng.random() < 0.5 else xo
    try:
        kwx = {}
        if rng.random() < 0.35:
            # the expected-chi-square estimate (with a covariance of the caller's choosing) is a by-product: the fit itself is what it was
            nall = npts * (D + 1)
            a_ = rng.normal(size=(nall, nall)) * 0.05
            sd = np.concatenate(([2.0 * o.dvalue for o in ys], [3.0 * o.dvalue for row in xo for o in row]))
            kwx = {'expected_chisquare': True, 'covariance': np.diag(sd) @ (np.eye(nall) + a_ @ a_.T) @ np.diag(sd)}
        ig = [p * float(rng.uniform(0.95, 1.05)) for p in ptrue]
        before_t = snap([xarg, ys])
        res = _quiet(lambda: pe.fits.total_least_squares(xarg, ys, f, silent=True, initial_guess=ig, **kwx))
        tls_frame = frame_event('tls-%04d-frame' % i, 'total_least_squares leaves the observables it was given as they were', before_t, [xarg, ys])
    except Exception as e:  # noqa: BLE001
        if 'did not converge' in str(e):
            return 'discard'
        return [{'id': 'tls-%04d-%s' % (i, name), 'ev': 'tls', 'mode': 'fit', 'res': {'k': 'exc', 't': type(e).__name__}}]
    if max(abs(float(p.value) - t) / abs(t) for p, t in zip(res.fit_parameters, ptrue)) > 0.5:
        return 'discard'
    xplus = np.atleast_2d(np.asarray(res.xplus, dtype=float))
    cid = 'tls-%04d-%s-%s%s' % (i, name, 'negligible' if negligible else 'xerr', '-expchi' if kwx else '')
    cases = []
    if not negligible:
        cases.append({'id': cid, 'ev': 'tls', 'mode': 'fit', 'n': n, 'fe': gen.strip(eb(n)),
                      'x': [[project_obs(o) for o in row] for row in xo], 'y': [project_obs(o) for o in ys],
                      'dx': [[rat(float(o.dvalue)) for o in row] for row in xo], 'dy': [rat(float(o.dvalue)) for o in ys],
                      'res': {'k': 'ok', 'p': [project_obs(p) for p in res.fit_parameters], 'xplus': [[ratx(float(v)) for v in row] for row in xplus], 'dof': int(res.dof), 'chisquare': ratx(abs(float(res.odr_chisquare)))}})
    else:
        # negligible x errors: the total-least-squares fit coincides with the ordinary fit (parameters as observables on the y ensembles)
        try:
            ols = _quiet(lambda: pe.fits.least_squares(xs[0] if D == 1 else xs, ys, f, silent=True, initial_guess=list(ptrue)))

            def ychains(p):
                q = project_obs(p)
                q['chains'] = [c for c in q['chains'] if c['name'].startswith('pt')]
                return q
            cases.append({'id': cid, 'ev': 'same', 'what': 'total least squares with negligible x errors = ordinary fit', 'rtol': '1/10000',
                          'a': {'k': 'ok', 'p': [ychains(p) for p in res.fit_parameters]}, 'b': {'k': 'ok', 'p': [ychains(p) for p in ols.fit_parameters]}})
        except Exception as e:  # noqa: BLE001
            if 'did not converge' in str(e):
                return 'discard'
            cases.append({'id': cid, 'ev': 'same', 'what': 'tls vs ols', 'rtol': '1/10000', 'a': {'k': 'ok', 'p': []}, 'b': {'k': 'exc', 't': type(e).__name__}})
    cases.append(tls_frame)
    ctx.nontrivial.add(('tls', name, negligible))
    return cases


def fitlin_cases(rng, n, ctx):
    """fit_lin dispatches on the type of x: observables -> total least squares (their errors count, however small), numbers -> ordinary fit"""
    cases = []
    for i in range(n):
        npts = int(rng.integers(4, 8))
        slope = [0.7, 3e4, -2.0, 1e-3][i % 4]                     # slope x abscissa error x form of the abscissae in a fixed rotation
        icpt = float(np.round(rng.uniform(-1, 2), 2))
        xs = np.sort(np.round(rng.uniform(0.5, 4.0, size=npts), 2))
        relx = [1e-2, 1e-7, 1e-4, 1e-5][(i // 4) % 4]
        ys = fitgen.data_points(rng, icpt + slope * xs, 'independent', npts)
        [o.gamma_method() for o in ys]
        form = ['obs', 'floats', 'obs', 'array', 'obs', 'ints', 'obs'][(i // 2) % 7]

        def f(a, x):
            return a[0] + a[1] * x
        try:
            if form == 'obs':
                xo = [pe.Obs([x + relx * (abs(x) + 0.1) * rng.normal(size=20)], ['x%02d' % j]) for j, x in enumerate(xs)]
                xo = [o - (o.value - x) for o, x in zip(xo, xs)]
                [o.gamma_method() for o in xo]
                got = _quiet(lambda: pe.fits.fit_lin(xo, ys, silent=True))
                want = _quiet(lambda: pe.fits.total_least_squares(xo, ys, f, silent=True)).fit_parameters
            else:
                xarg = [float(x) for x in xs] if form == 'floats' else np.array(xs) if form == 'array' else [int(v) for v in range(1, npts + 1)]
                got = _quiet(lambda: pe.fits.fit_lin(xarg, ys, silent=True))
                want = _quiet(lambda: pe.fits.least_squares(np.asarray(xarg, dtype=float), ys, f, silent=True)).fit_parameters
        except Exception as e:  # noqa: BLE001
            if 'did not converge' in str(e):
                continue
            cases.append({'id': 'lin-%04d-%s' % (i, form), 'ev': 'same', 'what': 'fit_lin raised', 'rtol': '1/100000000', 'a': {'k': 'ok', 'p': []}, 'b': {'k': 'exc', 't': type(e).__name__}})
            continue
        cases.append({'id': 'lin-%04d-%s-slope%g-relx%g' % (i, form, slope, relx), 'ev': 'same',
                      'what': 'fit_lin = total least squares for observable abscissae (ordinary fit for numbers)', 'rtol': '1/100000000',
                      'a': {'k': 'ok', 'p': [project_obs(o) for o in got]}, 'b': {'k': 'ok', 'p': [project_obs(o) for o in want]}})
        ctx.nontrivial.add(('lin', form, slope, relx))
    return cases


def run(ctx):
    rng = np.random.default_rng(ctx.seed)
    q = ctx.quick
    cases, discarded = [], 0
    i = 0
    want = 40 if q else 600
    while len([c for c in cases if c['ev'] == 'fit']) < want and i < 10 * want:
        i += 1
        r = make_case(rng, i, ctx)
        if r is None:
            continue
        if r == 'discard':
            discarded += 1
            continue
        cases += r
    want = 16 if q else 250
    i = 0
    ntls = 0
    while ntls < want and i < 10 * want:
        i += 1
        r = make_tls(rng, i, ctx)
        if r == 'discard' or r is None:
            discarded += 1
            continue
        cases += r
        ntls += 1
    ctx.extra['discarded'] = discarded
    cases += fitlin_cases(rng, 16 if q else 200, ctx)
    ctx.sample({'id': cases[0]['id'], 'model': cases[0].get('exprs')})
    ctx.validate('FitTrace', cases, timeout=3000)
