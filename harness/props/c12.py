"""C12 - dobs / pobs XML export and import are mutually inverse.

(T) lists of 1-4 observables on 1-2 ensembles x 1-3 replicas with range / strided / irregular configuration lists that
    differ between the observables of one file, covariance inputs of dimension 1..3, real-valued and integer-valued
    (count-like, containing zeros) data, gz on/off, every separator_insertion mode, file and string transport, are
    exported and imported by real pyerrors; StoreTrace.tla compares the projections up to the documented renaming of the
    replicas (NameAfter) at 1e-13.  The format-level zero marker is carried as the named deviation ZeroMarkerLoss.
"""
import contextlib
import io
import os
import shutil

import numpy as np

import pyerrors as pe

from harness import gen, tlc
from harness.props.c11 import doc_any, analysis_numbers, _quiet, _after

RULE = ('cases = (format dobs / pobs x transport x gz x separator_insertion mode x list of 1..4 observables with differing '
        'configuration subsets / replica subsets / ensembles x covariance inputs x data kind); non-trivial = observables of one file differ in their configuration lists or replicas')
ASSUMPTIONS = ['tags are not written by these formats (documented): not compared', 'covariance matrices and gradients are written with 15 significant digits: compared at 1e-13',
               'the replica separator is treated as documented: removed on export, re-inserted according to separator_insertion (StoreTrace!NameAfter)']


def _data(rng, n, kind):
    if kind == 'ints':
        x = rng.integers(0, 4, n).astype(float)
        if np.all(x == x[0]):
            x[0] += 1
        return x
    if kind == 'intmean':
        x = rng.integers(0, 3, n).astype(float)          # count-like with an integer mean: some samples EQUAL the mean
        x[-1] += round(x.mean()) * n - x.sum() if abs(round(x.mean()) * n - x.sum()) < 3 else 0
        if np.all(x == x[0]):
            x[0] += 1
        return x
    return rng.normal(size=n) * float(10 ** rng.uniform(-3, 3)) + float(rng.normal())


def make_list(rng, fmt):
    nobs = int(rng.integers(1, 5))
    nens = 1 if fmt == 'pobs' else int(rng.integers(1, 3))
    ens = ['A', 'Bb'][:nens]
    base = {}
    for e in ens:
        nrep = int(rng.integers(1, 4))
        bare = nrep == 1 and rng.random() < 0.4          # the most common naming: one chain called like its ensemble, no separator at all
        for r in range(nrep):
            key = e if bare else '%s|r%d' % (e, r + 1)
            base[key] = gen.make_idl(rng, str(rng.choice(['contig', 'strided', 'irregular'])), int(rng.integers(6, 14)))
            if rng.random() < 0.4:
                # lists that agree in replica name, first configuration and length with those of other files of this session, and differ in between
                base[key] = gen.make_idl(rng, str(rng.choice(['contig', 'strided', 'irregular', 'gapped'])), 8, first=1)
    kind = str(rng.choice(['real', 'real', 'ints', 'intmean']))
    covs = []
    if fmt == 'dobs' and rng.random() < 0.5:
        dim = int(rng.integers(1, 4))
        a = rng.normal(size=(dim, dim))
        cov = a @ a.T + 0.3 * np.eye(dim)
        cov = (cov + cov.T) / 2
        cov = cov * float(rng.choice([1.0, 1.0, 1e-10, 1e-16, 1e6]))          # systematic errors of any size
        cl = pe.cov_Obs([float(rng.normal()) for _ in range(dim)], cov, 'sys%d' % dim)
        covs = [cl] if dim == 1 else list(cl)
    out = []
    for i in range(nobs):
        parts = []
        for e in ens:
            names = [n for n in base if n.split('|')[0] == e]
            if fmt == 'dobs' and i > 0 and rng.random() < 0.5:
                keep = sorted(rng.choice(len(names), size=int(rng.integers(1, len(names) + 1)), replace=False).tolist())
                names = [names[k] for k in keep]
            idls = []
            for nm in names:
                il = base[nm]
                if fmt == 'pobs' and nobs > 1 and rng.random() < (0.1 if i == 0 else 0.15):
                    # what the pobs format cannot hold (one configuration column per replica): the export has to refuse - whether the odd one
                    # out is the first observable or a later one, shorter or of the same length on other configurations
                    il = [c + 1 for c in il] if rng.random() < 0.4 else gen.sub_idl(rng, il, str(rng.choice(['prefix', 'suffix', 'random'])), nmin=5)
                if fmt == 'dobs' and i > 0 and rng.random() < 0.5:
                    il = gen.sub_idl(rng, il, str(rng.choice(['prefix', 'suffix', 'stride', 'random'])), nmin=5)
                elif fmt == 'dobs' and i > 0 and len(il) >= 6 and rng.random() < 0.5:
                    # same replica, same number of configurations, same first and last one - and another one in between
                    lst = list(il)
                    free = [c for c in range(lst[0] + 1, lst[-1]) if c not in set(lst)]
                    if free:
                        k = int(rng.integers(1, len(lst) - 1))
                        il = sorted(set(lst[:k] + lst[k + 1:]) | {int(rng.choice(free))})
                idls.append(il)
            if fmt == 'dobs' and i > 0 and rng.random() < 0.25 and len(ens) > 1:
                continue
            data = [_data(rng, len(il), kind) for il in idls]
            if len(names) > 1 and rng.random() < 0.3:
                # an observable frozen on one replica (a topological charge stuck in one sector on a short run): a constant column that is
                # neither absent nor equal to the mean over all replicas
                k = int(rng.integers(0, len(names)))
                c = float(rng.integers(-2, 5))
                data[k] = np.full(len(idls[k]), c)
                if abs(np.concatenate(data).mean() - c) < 1e-9:
                    data[k] = data[k] + 1.0
            parts.append(pe.Obs(data, names, idl=idls))
        if not parts:
            parts.append(pe.Obs([_data(rng, len(base[n]), kind) for n in list(base)[:1]], list(base)[:1], idl=[base[list(base)[0]]]))
        o = parts[0]
        for p in parts[1:]:
            o = o + p
        if covs and rng.random() < 0.7:
            for c in covs:
                if rng.random() < 0.7:
                    o = o + float(np.round(rng.normal(), 3) or 0.5) * float(rng.choice([1.0, 1.0, 1e-9])) * c
            if len(covs) > 1 and rng.random() < 0.4:
                o = o + 0.75 * (covs[0] - covs[1])           # gradient components that cancel in the sum are a dependence all the same
        out.append(o)
    return out, kind


MODES = {'dobs': [('true', True), ('false', False), ('none', None), ('int', 1), ('int', 2), ('str', 'r')],
         'pobs': [('none', None), ('int', 1), ('str', 'r')]}


def cases_for(rng, n, ctx, tmp):
    cases = []
    for i in range(n):
        fmt = 'dobs' if i % 3 else 'pobs'
        ol, kind = make_list(rng, fmt)
        mk, mv = MODES[fmt][int(rng.integers(0, len(MODES[fmt])))]
        gz = bool(rng.random() < 0.5)
        transport = str(rng.choice(['file', 'string'])) if fmt == 'dobs' else 'file'
        fn = os.path.join(tmp, 'z%d' % i)
        for o in ol:
            o.tag = None
        before = doc_any(ol)
        dn0 = analysis_numbers(ol)
        # an alternative ensemble tag is a label in the file, nothing else (not combined with the mode that re-derives names from the tag)
        ekw = {}
        if fmt == 'dobs' and mk != 'true' and rng.random() < 0.3:
            ekw = {'enstags': {e: 'tag of ' + e for o in ol for e in o.mc_names}}
        if fmt == 'dobs':
            if transport == 'file':
                r = _quiet(lambda: pe.input.dobs.write_dobs(ol, fn, 'nm', who='c12', gz=gz, **ekw))
                y = r if isinstance(r, Exception) else _quiet(lambda: pe.input.dobs.read_dobs(fn, gz=gz, separator_insertion=mv))
            else:
                s = _quiet(lambda: pe.input.dobs.create_dobs_string(ol, 'nm', who='c12', **ekw))
                y = s if isinstance(s, Exception) else _quiet(lambda: pe.input.dobs.import_dobs_string(s.encode('utf-8'), separator_insertion=mv))
        else:
            r = _quiet(lambda: pe.input.dobs.write_pobs(ol, fn, 'nm', gz=gz))
            y = r if isinstance(r, Exception) else _quiet(lambda: pe.input.dobs.read_pobs(fn, gz=gz, separator_insertion=mv))
        if not isinstance(y, Exception):
            for o in y:
                o.tag = None
        mode = {'k': mk}
        if mk in ('int', 'str'):
            mode['v'] = mv
        cid = 'z-%04d-%s-%s-%s-%s%s-%s' % (i, fmt, transport, 'gz' if gz else 'plain', mk, '' if mk not in ('int', 'str') else str(mv), kind)
        cases.append({'id': cid, 'ev': 'zeuthen', 'fmt': fmt, 'isdobs': fmt == 'dobs', 'mode': mode, 'before': before, 'after': _after(y)})
        if i % 2 == 0:
            cases.append({'id': cid + '-source', 'ev': 'roundtrip', 'fmt': 'the exported list itself after the export', 'before': before, 'after': _after(ol)})
        if not isinstance(y, Exception) and mk == 'true' and [o.N for o in y] == [o.N for o in ol]:
            cases.append({'id': cid + '-reanalysis', 'ev': 'reanalysis', 'before': dn0, 'after': analysis_numbers(y)})
        ctx.nontrivial.add((fmt, transport, gz, mk, kind, len(ol), i))
        if len(ctx.samples) < 4:
            ctx.sample({'id': cid, 'observables': [[(nm, str(o.idl[nm])[:40]) for nm in o.names if nm in o.idl] for o in ol]})
    return cases


def run(ctx):
    rng = np.random.default_rng(ctx.seed)
    tmp = tlc.scratch('verif.c12.')
    try:
        cases = cases_for(rng, 150 if ctx.quick else 1500, ctx, tmp)
    finally:
        shutil.rmtree(tmp, ignore_errors=True)
    ctx.validate('StoreTrace', cases)
