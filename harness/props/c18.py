"""C18 - truncated measurement files never produce wrong numbers (fault enumeration).

For synthetic file sets of every format of C17 one file is cut at EVERY byte offset (thorough) / at every offset of the last
two records plus a stride over the rest (quick), the set is read by real pyerrors, and ReadTrace.tla decides with
Readers!Truncated: the outcome must be an exception, or exactly Readers!Expected of the records that lie wholly before the
cut.  Exported archives of C11 / C12 (json.gz, xml.gz, csv.gz) are cut at every offset (quick: a stride) and must be
rejected.  Acceptance of a partial final record "as if complete" is a named deviation (recorded finding) in the spec.
"""
import contextlib
import gzip
import io
import os
import shutil

import numpy as np
import pandas as pd

import pyerrors as pe

from harness import gen, tlc
from harness.jsonsafe import rat
from harness.props import c17
from harness.writers import openqcd as w_oq, sfcf as w_sf, hadrons as w_hd

RULE = ('cases = (format x file x cut offset); distinct = distinct (format, file, offset); non-trivial = cut strictly inside the file')
ASSUMPTIONS = ['a cut is simulated by truncating a copy of the file; one file of the set is cut at a time',
               'records = the byte ranges reported by the independent encoders (header + records tile each file exactly)']

KNOWN_TAIL = 'a final record cut after the data block the reader uses is accepted as complete'


def offsets(desc, quick, rng):
    n = os.path.getsize(desc['path'])
    if not quick or n <= 400:
        return list(range(0, n))
    recs = desc['records']
    start_last2 = recs[-2][0] if len(recs) >= 2 else 0
    offs = set(range(start_last2, n))
    offs |= set(range(0, min(n, desc['header_len'] + 8)))
    offs |= set(int(x) for x in rng.choice(n, size=60, replace=False))
    for s, e, _ in recs:
        offs |= {s, max(0, s - 1), min(n - 1, s + 1), min(n - 1, s + 3), min(n - 1, s + 4), e - 1}
    return sorted(o for o in offs if 0 <= o < n)


def cut_file(path, cut):
    with open(path, 'rb') as f:
        data = f.read()
    with open(path, 'wb') as f:
        f.write(data[:cut])
    return data


def binary_family(rng, ctx, tmp, quick, fmt, k):
    """one file set of an openQCD-family format, every requested cut of one of its files"""
    idxs = [1, 2] if k % 2 == 0 else [3]
    cl = {r: [4 + 2 * i for i in range(6 if quick else 8)] for r in idxs}
    d = os.path.join(tmp, '%s%d' % (fmt, k))
    if fmt == 'rwms':
        version = ['1.4', '1.6', '2.0'][k % 3]
        nfct, nsrc = ([1], [2]) if version == '1.4' else ([2], [2])
        replicas = {r: [(cfg, [[[c17.val(r, cfg, 10 * f + s) for s in range(nsrc[0])] for f in range(nfct[0])]]) for cfg in cl[r]] for r in idxs}
        desc = w_oq.write_rwms(d, 'ens', replicas, version, nfct, nsrc, postfix='ms1')
        par = {'none': 0}

        def read():
            return pe.input.openQCD.read_rwms(d, 'ens', version=version, postfix='ms1')

        def payload(p):
            return [[[rat(x) for x in f] for f in a] for a in p]

        def objs(r):
            return list(r)
        known = 'rwms: ' + KNOWN_TAIL
    elif fmt == 'qtop':
        dn, nn, tmax, eps, L = 1, 2, 2, 0.02, 4
        c = float(np.sqrt(1 * 8 * eps * dn) / L)
        replicas = {r: [(cfg, [[[c17.val(r, cfg, 100 * o + 10 * fl + t) for t in range(tmax)] for fl in range(nn + 1)] for o in range(3)]) for cfg in cl[r]] for r in idxs}
        desc = w_oq.write_ms_openqcd(d, 'ens', replicas, dn, nn, tmax, eps)
        par = {'c': rat(c), 'L': L, 'eps': rat(eps), 'dn': dn}

        def read():
            return pe.input.openQCD.read_qtop(d, 'ens', c, version='openQCD', L=L)

        def payload(p):
            return [[rat(x) for x in row] for row in p[2]]

        def objs(r):
            return [r]
        known = 'ms.dat: ' + KNOWN_TAIL
    elif fmt == 'gfms':
        ncs, tmax, L, cmax = 2, 5, 4, 0.4
        zeuthen = bool(k % 2)
        c = cmax / ncs * 1
        replicas = {r: [(cfg, [[[[c17.val(r, cfg, 1000 * j + 100 * f + 10 * o + t) for t in range(tmax)] for o in range(8)] for f in range(2)] for j in range(ncs + 1)])
                        for cfg in cl[r]] for r in idxs}
        desc = w_oq.write_gfms_sfqcd(d, 'ens', replicas, ncs, tmax, 2, L, 1e-7, cmax)
        par = {'c': rat(c), 'cmax': rat(cmax), 'ncs': ncs, 'zeuthen': zeuthen}

        def read():
            return pe.input.openQCD.read_qtop(d, 'ens', c, version='sfqcd', Zeuthen_flow=zeuthen)

        def payload(p):
            return [[[[rat(x) for x in o] for o in f] for f in j] for j in p]

        def objs(r):
            return [r]
        known = 'gfms: ' + KNOWN_TAIL
    elif fmt == 'msE':
        dn, nn, tmax, eps, L, xmin = 1, 2, 3, 0.02, 2, int(k % 2)
        plaq = bool((k // 2) % 2)
        replicas = {r: [(cfg, [[[c17.valn(r, cfg, 100 * o + 10 * fl + t) for t in range(tmax)] for fl in range(nn + 1)] for o in range(3)]) for cfg in cl[r]] for r in idxs}
        desc = w_oq.write_ms_openqcd(d, 'ens', replicas, dn, nn, tmax, eps)
        par = {'xmin': xmin, 'L': L}

        def read():
            return pe.input.openQCD._extract_flowed_energy_density(d, 'ens', 1, xmin, L, **({'plaquette': True} if plaq else {}))

        def payload(p):
            return [[rat(x) for x in row] for row in p[0 if plaq else 1]]

        def objs(r):
            return [r[t] for t in sorted(r)]
        known = 'ms.dat action density: ' + KNOWN_TAIL
    elif fmt == 'pbp':
        nfct, nsrc = [2], [2]
        replicas = {r: [(cfg, [[([c17.valn(r, cfg, 10 * f + s) for s in range(nsrc[0])], [c17.valn(r, cfg, 500 + 10 * f + s) for s in range(nsrc[0])]) for f in range(nfct[0])]])
                        for cfg in cl[r]] for r in idxs}
        desc = w_oq.write_pbp(d, 'ens', replicas, nfct, nsrc)
        par = {'none': 0}

        def read():
            return pe.input.misc.read_pbp(d, 'ens')

        def payload(p):
            return [[[[rat(x) for x in blk] for blk in f] for f in a] for a in p]

        def objs(r):
            return list(r)
        known = 'pbp: ' + KNOWN_TAIL
    else:  # ms5
        tmax, corr, qc = 2, ['gA', 'lTt', 'g1'][k % 3], 'dd'
        replicas = {}
        for r in idxs:
            recs = []
            for cfg in cl[r]:
                recs.append((cfg, {name: [(c17.val(r, cfg, 100 * ci + 2 * t), c17.val(r, cfg, 100 * ci + 2 * t + 1)) for t in range(1 if name in ('g1', 'l1') else tmax)]
                                   for ci, name in enumerate(c17.MS5)}))
            replicas[r] = recs
        desc = w_oq.write_ms5_xsf(d, 'ens', replicas, qc, tmax)
        par = {'none': 0}

        def read():
            return pe.input.openQCD.read_ms5_xsf(d, 'ens', qc, corr)

        def payload(p):
            return [[rat(re), rat(im)] for re, im in p[corr]]

        def objs(r):
            if isinstance(r, pe.Corr):
                out = []
                for t in range(r.T):
                    z = r.content[t][0]
                    out += [z.real, z.imag]
                return out
            return [r.real, r.imag]
        known = 'ms5_xsf: ' + KNOWN_TAIL
    reps = [{'stem': 'ensr%d' % r, 'recs': [{'cfg': cfg, 'p': payload(p)} for cfg, p in replicas[r]]} for r in idxs]
    cases = []
    target = desc[-1]                       # the file of the last replica is cut
    rpos = len(idxs)
    bounds = [[s, e] for s, e, _ in target['records']]
    size = os.path.getsize(target['path'])
    all_cuts = offsets(target, quick, rng)
    # the complete file is read first (N records), then cut inside the record that follows a complete prefix, then complete again
    last_start = bounds[-1][0]
    sample_cuts = set([c_ for c_ in all_cuts if c_ > last_start][1::7][:6] + [c_ for c_ in all_cuts if bounds[-2][0] < c_ < last_start][2::9][:3]) if len(bounds) >= 2 else set()
    for cut in all_cuts:
        if cut in sample_cuts:
            # ... first the file as it was before the writer began the record that is cut: a complete, shorter file
            prev_end = max([e_ for s_, e_ in bounds if e_ <= cut] + [0])
            if prev_end > 0:
                orig0 = cut_file(target['path'], prev_end)
                c17.quiet(read)
                with open(target['path'], 'wb') as f:
                    f.write(orig0)
        orig = cut_file(target['path'], cut)
        r = c17.quiet(read)
        with open(target['path'], 'wb') as f:
            f.write(orig)
        res = c17.res_series(r if isinstance(r, Exception) else objs(r))
        cid = 'cut-%s%d-%s-%05d' % (fmt, k, os.path.basename(target['path']), cut)
        cases.append({'id': cid, 'ev': 'trunc', 'fmt': fmt, 'reps': reps, 'par': par, 'sel': {'k': 'all'}, 'r': rpos, 'bounds': bounds, 'cut': cut,
                      'cutinfo': '%d of %d bytes' % (cut, size), 'known': known, 'res': res})
        ctx.nontrivial.add((fmt, k, cut))
        # history: the writer finishes the record - the complete file is at the same place again and is read once more in the same process:
        # every complete record is there, whatever an earlier (refused) read of the unfinished file left behind
        if cut in sample_cuts:
            r2 = c17.quiet(read)
            cases.append({'id': cid + '-then-complete', 'ev': 'read', 'fmt': fmt, 'reps': reps, 'par': par, 'sel': {'k': 'all'},
                          'res': c17.res_series(r2 if isinstance(r2, Exception) else objs(r2))})
    return cases


def text_family(rng, ctx, tmp, quick, k):
    version = ['1.0', '2.0c', '1.0a', '2.0', '1.0c', '2.0a'][k % 6]
    appended = version.endswith('a')
    idxs = [1, 2]
    cl = {r: [3 + 2 * i for i in range(6 if r == 2 else 5)] for r in idxs}
    T = 4
    specs = [w_sf.bi('f_A', wf=0)] if appended else [w_sf.bi('f_A', wf=0), w_sf.bb('f_1', wf=0, wf2=0)]
    spec = specs[0]
    replicas = {}
    for r in idxs:
        replicas['tst_r%d' % r] = [(cfg, {tuple(s): [(c17.val(r, cfg, 100 * si + 2 * t), c17.val(r, cfg, 100 * si + 2 * t + 1)) for t in range(1 if s.corr_type == 'bb' else T)]
                                          for si, s in enumerate(specs)}) for cfg in cl[r]]
    d = os.path.join(tmp, 'sfcf%d' % k)
    desc = w_sf.write_sfcf(d, replicas, version)

    def read():
        return pe.input.sfcf.read_sfcf(d, 'tst', spec.name, quarks=spec.quarks, corr_type=spec.corr_type, noffset=spec.offset, wf=spec.wf, wf2=0, version=version, silent=True)
    reps = [{'stem': 'tst_r%d' % r, 'recs': [{'cfg': cfg, 'p': [[rat(re), rat(im)] for re, im in corrs[tuple(spec)]]} for cfg, corrs in replicas['tst_r%d' % r]]} for r in idxs]
    cases = []

    def read_multi():
        # several correlators in one request, asked for in another order than the file prints them; the result for `spec` is what is judged
        out = pe.input.sfcf.read_sfcf_multi(d, 'tst', [s_.name for s_ in specs[::-1]], quarks_list=[spec.quarks], corr_type_list=[s_.corr_type for s_ in specs[::-1]],
                                            noffset_list=[spec.offset], wf_list=[spec.wf], wf2_list=[0], version=version, silent=True, keyed_out=True)
        key = [k for k in out if k.startswith(spec.name + '/')][0]
        return out[key]

    def read_multi_low():
        # ... and the correlator printed LAST in the file while the request names it first
        low = specs[-1]
        out = pe.input.sfcf.read_sfcf_multi(d, 'tst', [s_.name for s_ in specs[::-1]], quarks_list=[spec.quarks], corr_type_list=[s_.corr_type for s_ in specs[::-1]],
                                            noffset_list=[spec.offset], wf_list=[spec.wf], wf2_list=[0], version=version, silent=True, keyed_out=True)
        key = [k for k in out if k.startswith(low.name + '/')][0]
        return out[key]
    reps_low = [{'stem': 'tst_r%d' % r, 'recs': [{'cfg': cfg, 'p': [[rat(re), rat(im)] for re, im in corrs[tuple(specs[-1])]]} for cfg, corrs in replicas['tst_r%d' % r]]} for r in idxs]
    readers = [('', read, reps)] + ([('-multi', read_multi, reps), ('-multilow', read_multi_low, reps_low)] if len(specs) > 1 else [])
    # the files that are cut: appended -> the f_A file of the first and of the last replica; otherwise (one file per configuration) the file of
    # the FIRST configuration of the first replica (the one the reader takes the layout from), a middle one and the LAST of the last replica
    mine = [x for x in desc if x.get('name') in (None, 'f_A')]
    if appended:
        targets = [(1, [x for x in mine if x['replica'] == 'tst_r1'][0], None), (2, [x for x in mine if x['replica'] == 'tst_r2'][0], None)]
    else:
        f1 = [x for x in mine if x['replica'] == 'tst_r1']
        f2 = [x for x in mine if x['replica'] == 'tst_r2']
        targets = [(1, f1[0], 0), (2, f2[len(f2) // 2], len(f2) // 2), (2, f2[-1], len(f2) - 1)]
    for r_idx, target, pos in targets:
        size = os.path.getsize(target['path'])
        if appended:
            bounds = [[s_, e_] for s_, e_, _ in target['records']]
        else:
            bounds = [[0, 0] for _ in cl[r_idx]]          # the other files of the replica are complete ...
            bounds[pos] = [0, size]                       # ... this one is complete only when nothing is cut off
        offs = list(range(size)) if (not quick or size < 1500) else sorted(set(range(0, size, 7)) | set(range(size - 160, size)))
        if quick and len(targets) > 2 and pos not in (0, len(cl[r_idx]) - 1):
            offs = offs[::3]
        for cut in offs:
            for rtag, rd, rreps in readers:
                if rtag and quick and cut % 2:
                    continue
                orig = cut_file(target['path'], cut)
                r = c17.quiet(rd)
                with open(target['path'], 'wb') as f:
                    f.write(orig)
                res = c17.res_series(r if isinstance(r, Exception) else list(r))
                cid = 'cut-sfcf%s%s-%s-%05d' % (version, rtag, '_'.join(target['path'].split(os.sep)[-2:]) if not appended else os.path.basename(target['path']), cut)
                cases.append({'id': cid, 'ev': 'trunc', 'fmt': 'sfcf', 'reps': rreps, 'par': {'im': False}, 'sel': {'k': 'all'}, 'r': r_idx, 'bounds': bounds, 'cut': cut,
                              'cutinfo': '%d of %d bytes' % (cut, size), 'known': 'sfcf: ' + KNOWN_TAIL, 'res': res})
            ctx.nontrivial.add(('sfcf', version, r_idx, pos, cut))
    return cases


def hd5_family(rng, ctx, tmp, quick):
    cfgs = [2, 4, 6, 8, 10, 12]
    T = 3
    configs = {cfg: [complex(c17.val(1, cfg, 2 * t), c17.val(1, cfg, 2 * t + 1)) for t in range(T)] for cfg in cfgs}
    d = os.path.join(tmp, 'hd')
    desc = w_hd.write_meson_hd5(d, 'mes', configs)
    reps = [{'stem': 'mes', 'recs': [{'cfg': cfg, 'p': [[rat(z.real), rat(z.imag)] for z in configs[cfg]]} for cfg in cfgs]}]
    target = desc[-1]
    size = os.path.getsize(target['path'])
    bounds = [[0, 0] for _ in cfgs]
    bounds[-1] = [0, size]
    cases = []
    offs = list(range(size)) if not quick else sorted(set(range(0, size, 41)) | set(range(size - 40, size)))
    for cut in offs:
        orig = cut_file(target['path'], cut)
        r = c17.quiet(lambda: pe.input.hadrons.read_meson_hd5(d, 'mes', 'ensH', 'meson_0'))
        with open(target['path'], 'wb') as f:
            f.write(orig)
        res = c17.res_series(r if isinstance(r, Exception) else [r.content[t][0] for t in range(r.T)])
        cases.append({'id': 'cut-hd5-%05d' % cut, 'ev': 'trunc', 'fmt': 'hd5', 'reps': reps, 'par': {'im': False, 'ens_id': 'ensH'}, 'sel': {'k': 'all'}, 'r': 1,
                      'bounds': bounds, 'cut': cut, 'cutinfo': '%d of %d bytes' % (cut, size), 'known': 'hd5: ' + KNOWN_TAIL, 'res': res})
        ctx.nontrivial.add(('hd5', cut))
    return cases


def export_cases(rng, ctx, tmp, quick):
    """truncated json.gz / xml.gz / csv.gz exports must be rejected"""
    cases = []
    o = [gen.make_obs(rng, [('A|r1', range(1, 12)), ('A|r2', [2, 4, 5, 9, 10, 12])], mean=1.0 + k) for k in range(3)]
    files = []
    p = os.path.join(tmp, 'ex_json')
    pe.input.json.dump_to_json(o, p, gz=True)
    files.append(('json.gz', p + '.json.gz', lambda: pe.input.json.load_json(p, gz=True, verbose=False)))
    p2 = os.path.join(tmp, 'ex_dobs')
    pe.input.dobs.write_dobs(o, p2, 'nm', who='c18')
    files.append(('xml.gz(dobs)', p2 + '.xml.gz', lambda: pe.input.dobs.read_dobs(p2)))
    p3 = os.path.join(tmp, 'ex_pobs')
    pe.input.dobs.write_pobs([o[0]], p3, 'nm')
    files.append(('xml.gz(pobs)', p3 + '.xml.gz', lambda: pe.input.dobs.read_pobs(p3)))
    p4 = os.path.join(tmp, 'ex_df')
    df = pd.DataFrame({'i': [0, 1, 2], 'o': o})
    pe.input.pandas.dump_df(df, p4, gz=True)
    files.append(('csv.gz', p4 + '.csv.gz', lambda: pe.input.pandas.load_df(p4, gz=True)))
    # a long table (an implementation that writes it piecewise leaves well-formed prefixes behind)
    p5 = os.path.join(tmp, 'ex_df_long')
    small = [pe.pseudo_Obs(1.0 + 0.01 * k, 0.05, 'L|r1', samples=8) for k in range(70)]
    pe.input.pandas.dump_df(pd.DataFrame({'i': list(range(70)), 'o': small}), p5, gz=True)
    files.append(('csv.gz(70 rows)', p5 + '.csv.gz', lambda: pe.input.pandas.load_df(p5, gz=True)))
    for fmt, path, reader in files:
        size = os.path.getsize(path)
        offs = list(range(size)) if not quick else sorted(set(range(0, size, 37)) | set(range(size - 30, size)))
        if fmt.startswith('csv.gz(70'):
            offs = sorted(set(range(0, size, 997 if quick else 101)) | set(range(size - 12, size)))
            with open(path, 'rb') as f:
                blob = f.read()
            offs = sorted(set(offs) | {k for k in range(1, size) if blob[k:k + 3] == b'\x1f\x8b\x08'})
        if quick:
            # structure-aware offsets: wherever a gzip member could begin (a cut there leaves a well-formed archive of the members before it)
            with open(path, 'rb') as f:
                blob = f.read()
            offs = sorted(set(offs) | {k for k in range(1, size) if blob[k:k + 3] == b'\x1f\x8b\x08'})
        for cut in offs:
            orig = cut_file(path, cut)
            r = c17.quiet(reader)
            with open(path, 'wb') as f:
                f.write(orig)
            res = {'k': 'exc', 't': type(r).__name__} if isinstance(r, Exception) else {'k': 'loaded'}
            cases.append({'id': 'cut-%s-%05d' % (fmt, cut), 'ev': 'truncated', 'fmt': fmt, 'cutinfo': '%d of %d' % (cut, size), 'res': res})
            ctx.nontrivial.add((fmt, cut))
    return cases


def run(ctx):
    rng = np.random.default_rng(ctx.seed)
    q = ctx.quick
    tmp = tlc.scratch('verif.c18.')
    cases, exports = [], []
    try:
        for fmt in ('rwms', 'qtop', 'gfms', 'ms5', 'msE', 'pbp'):
            for k in range(2 if q else 6):
                cases += binary_family(rng, ctx, tmp, q, fmt, k)
        for k in range(3 if q else 6):
            cases += text_family(rng, ctx, tmp, q, k)
        cases += hd5_family(rng, ctx, tmp, q)
        exports = export_cases(rng, ctx, tmp, q)
    finally:
        shutil.rmtree(tmp, ignore_errors=True)
    ctx.exhaustive = not q
    ctx.sample({'cut_case': cases[5]['id'], 'record_bounds': cases[5]['bounds'], 'outcome': cases[5]['res']['k']})
    ctx.validate('ReadTrace', cases, timeout=3000)
    ctx.validate('StoreTrace', exports, timeout=3000)
