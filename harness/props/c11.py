"""C11 - JSON serialisation round-trips losslessly and conforms to the shipped schema.

(R/T) documents are drawn from the structure grammar Obs | list | ndarray (any shape <= 2x2x2) | Corr (N = 1 and matrix,
      padding, undefined timeslices, prange, tag) | nested dict, on every layout class, with covariance inputs of dimension
      1..3, tags of every JSON type, gz on/off, indent 0/1, through every transport (file, string, csv, sqlite, pickle).
      The projections before and after are compared by StoreTrace.tla (DocSame: names, configuration lists and their
      form, flags, tags exact; numbers at 1e-13); the written document is validated against examples/json_schema.json;
      the error analysis of the imported object must equal that of the original.
"""
import contextlib
import copy
import gzip
import io
import json
import os
import pickle
import shutil

import numpy as np
import pandas as pd

import pyerrors as pe

from harness import gen, tlc
from harness.jsonsafe import rat, ratx
from harness.pe_project import project_obs

RULE = ('cases = (structure kind x layout class x covariance dimension x tag type x gz x indent x transport); non-trivial = structure '
        'with more than one observable, or several chains, or an irregular configuration list, or a covariance input')
ASSUMPTIONS = ['JSON-schema validity is decided by the jsonschema package (draft 2020-12 validator on the shipped schema), not by TLA+',
               'the order of covariance names inside .names is not significant', 'correlator tags are strings or None (Corr prints its tag as text)']

TAGPOS = [0]
TAGS = [None, 'a tag', '', 0, 7, 2.5, True, False, [], [1, 'x'], {'a': 1}, {'k': [1, 2, {'z': None}]}, ['single'], [3], [None], [['nested']], [[]]]

try:
    import jsonschema
    with open('/repo/examples/json_schema.json') as _f:
        _SCHEMA = json.load(_f)
except Exception:  # noqa: BLE001
    jsonschema = None


def tagtext(t):
    return json.dumps(t, sort_keys=True)


def doc_obs(o):
    return {'k': 'obs', 'o': project_obs(o), 'tag': tagtext(o.tag)}


def doc_any(x):
    if isinstance(x, pe.Obs):
        return doc_obs(x)
    if isinstance(x, pe.Corr):
        content = []
        for item in x.content:
            if item is None:
                content.append({'k': 'none'})
            else:
                content.append({'k': 'list', 'a': [doc_obs(o) for o in np.asarray(item, dtype=object).ravel()]})
        return {'k': 'corr', 'T': int(x.T), 'N': int(x.N), 'content': content, 'prange': tagtext(x.prange), 'tag': tagtext(x.tag)}
    if isinstance(x, np.ndarray):
        return {'k': 'array', 'shape': [int(s) for s in x.shape], 'a': [doc_any(y) for y in x.ravel()]}
    if isinstance(x, (list, tuple)):
        return {'k': 'list', 'a': [doc_any(y) for y in x]}
    if isinstance(x, dict):
        keys = sorted(x.keys(), key=str)
        return {'k': 'dict', 'keys': [str(k) for k in keys], 'vals': [doc_any(x[k]) for k in keys]}
    if x is None or isinstance(x, (bool, int, float, str)):
        return {'k': 'prim', 'v': tagtext(x)}
    if isinstance(x, (np.integer, np.floating)):
        return {'k': 'prim', 'v': tagtext(x.item())}
    return {'k': 'other:' + type(x).__name__}


def _layout(rng):
    cls = str(rng.choice(['same', 'strided', 'gapped', 'multi_replica', 'second_ensemble', 'bare', 'prefix_ensembles']))
    if cls == 'bare':
        return [('ensX', gen.make_idl(rng, str(rng.choice(gen.IDL_CLASSES)), int(rng.integers(5, 12))))]
    if cls == 'second_ensemble':
        return [('A|r1', gen.make_idl(rng, 'irregular', 7)), ('A|r2', gen.make_idl(rng, 'strided', 6)), ('B e', gen.make_idl(rng, 'contig', 5))]
    return gen.operand_layouts(rng, 'same' if cls in ('strided', 'gapped') else cls, 1)[0] if cls not in ('strided', 'gapped') else \
        [('A|r1', gen.make_idl(rng, cls, int(rng.integers(5, 12))))]


def _obs(rng, lay, covs, scale=1.0):
    o = gen.make_obs(rng, lay, mean=float(rng.normal()) * scale, sigma=float(abs(rng.normal()) + 0.01) * scale)
    for c in covs:
        o = o + float(rng.normal()) * c
    if rng.random() < 0.15:
        o.reweighted = True
    return o


def _covs(rng):
    if rng.random() < 0.5:
        return []
    dim = int(rng.integers(1, 4))
    a = rng.normal(size=(dim, dim))
    cov = a @ a.T + 0.3 * np.eye(dim)
    cov = (cov + cov.T) / 2
    cov = cov * float(rng.choice([1.0, 1.0, 1e-10, 1e-16, 1e6]))          # systematic errors of any size
    cl = pe.cov_Obs([float(rng.normal()) for _ in range(dim)], cov, 'sys %d' % dim)
    return [cl] if dim == 1 else list(cl)


def make_structure(rng, kind):
    lay = _layout(rng)
    covs = _covs(rng)
    scale = float(10 ** rng.uniform(-14, 14)) if rng.random() < 0.4 else 1.0
    rew = bool(rng.random() < 0.15)

    def ob(tag=True):
        o = _obs(rng, lay, covs, scale)
        o.reweighted = rew
        if tag:
            TAGPOS[0] += 1
            o.tag = TAGS[TAGPOS[0] % len(TAGS)]
        return o
    if kind == 'obs':
        return ob()
    if kind == 'list':
        return [ob() for _ in range(int(rng.integers(1, 4)))]
    if kind == 'array':
        shape = tuple(int(rng.integers(1, 4)) for _ in range(int(rng.integers(1, 4))))
        arr = np.empty(shape, dtype=object)
        for idx in np.ndindex(shape):
            arr[idx] = ob()
        # arrays that are not C-contiguous in memory (transposed views, Fortran order) are arrays all the same
        view = str(rng.choice(['c', 'c', 'transpose', 'fortran', 'swap']))
        if view == 'transpose' and arr.ndim >= 2:
            arr = arr.T
        elif view == 'fortran' and arr.ndim >= 2:
            arr = np.asfortranarray(arr)
        elif view == 'swap' and arr.ndim >= 2:
            arr = np.swapaxes(arr, 0, arr.ndim - 1)
        return arr
    if kind == 'corr':
        T = int(rng.integers(2, 6))
        N = int(rng.choice([1, 1, 2]))
        content = []
        for t in range(T):
            if rng.random() < 0.25 and t != 0:
                content.append(None)
            elif N == 1:
                content.append(ob(tag=False))
            else:
                m = np.empty((N, N), dtype=object)
                for idx in np.ndindex((N, N)):
                    m[idx] = ob(tag=False)
                content.append(m)
        pad = [int(rng.integers(0, 3)), int(rng.integers(0, 3))]
        c = pe.Corr(content, padding=pad)
        if rng.random() < 0.5:
            c.prange = [0, int(rng.integers(0, c.T))]
        c.tag = [None, 'corr tag', 'x/y|z', 'pion 2pt'][int(rng.integers(0, 4))]
        return c
    raise ValueError(kind)


def analysis_numbers(x):
    """dvalue of every observable inside a structure after a default analysis (empty if it cannot be analysed)"""
    out = []

    def rec(y):
        if isinstance(y, pe.Obs):
            try:
                y.gamma_method()
                out.append({'dv': ratx(float(y.dvalue)), 'scale': ratx(float(abs(y.value)) + max([float(np.max(np.abs(y.r_values[n]))) for n in y.r_values] + [0.0]))})
            except Exception:  # noqa: BLE001
                out.append({'dv': '0', 'scale': '0'})
        elif isinstance(y, pe.Corr):
            for it in y.content:
                if it is not None:
                    for o in np.asarray(it, dtype=object).ravel():
                        rec(o)
        elif isinstance(y, np.ndarray):
            for o in y.ravel():
                rec(o)
        elif isinstance(y, (list, tuple)):
            for o in y:
                rec(o)
        elif isinstance(y, dict):
            for k in sorted(y.keys(), key=str):
                rec(y[k])
    rec(x)
    return out


def _quiet(f):
    try:
        with np.errstate(all='ignore'), contextlib.redirect_stdout(io.StringIO()):
            return f()
    except Exception as e:  # noqa: BLE001
        return e


def _after(x):
    return {'k': 'exc', 't': type(x).__name__} if isinstance(x, Exception) else doc_any(x)


def schema_event(cid, text):
    if jsonschema is None:
        return None
    try:
        jsonschema.validate(json.loads(text), _SCHEMA)
        return {'id': cid + '-schema', 'ev': 'schema', 'valid': True, 'msg': ''}
    except jsonschema.ValidationError as e:
        return {'id': cid + '-schema', 'ev': 'schema', 'valid': False, 'msg': str(e.message)[:120]}
    except Exception as e:  # noqa: BLE001
        return {'id': cid + '-schema', 'ev': 'schema', 'valid': False, 'msg': type(e).__name__}


def cases_for(rng, n, ctx, tmp):
    cases = []
    kinds = ['obs', 'list', 'array', 'corr', 'multi', 'dict']
    transports = ['file', 'file', 'string', 'pickle', 'df_csv', 'df_sql', 'obs_dump']
    for i in range(n):
        kind = kinds[i % len(kinds)]
        transport = transports[int(rng.integers(0, len(transports)))]
        gz = bool(rng.random() < 0.5)
        indent = int(rng.integers(0, 2))
        cid = 'rt-%04d-%s-%s-%s-i%d' % (i, kind, transport, 'gz' if gz else 'plain', indent)
        fn = os.path.join(tmp, 'f%d' % i)
        if kind == 'dict':
            x = {'a': make_structure(rng, 'obs'), 'b': {'c': make_structure(rng, 'list'), 'd': 'text', 'e': [1, 2.5, None]},
                 'corr': make_structure(rng, 'corr'), 'key 3': make_structure(rng, 'array')}
            if (i // len(kinds)) % 4 == 1:
                # the smallest dictionaries: exactly one structure (of any kind), at the top or one level down; an empty sub-dictionary beside it
                one = make_structure(rng, str(rng.choice(['obs', 'list', 'array', 'corr'])))
                x = {'only': one} if rng.random() < 0.5 else {'outer': {'inner': one, 'note': 'text'}, 'empty': {}}
            elif (i // len(kinds)) % 2 == 0:
                for q in range(int(rng.integers(8, 13))):          # more than ten structures in one dictionary
                    x['entry %02d' % q] = make_structure(rng, 'obs')
            before = doc_any(x)
            dn0 = analysis_numbers(x)
            r = _quiet(lambda: pe.input.json.dump_dict_to_json(x, fn, gz=gz, indent=indent))
            y = r if isinstance(r, Exception) else _quiet(lambda: pe.input.json.load_json_dict(fn, gz=gz, verbose=False))
            cases.append({'id': cid, 'ev': 'roundtrip', 'fmt': 'json-dict', 'before': before, 'after': _after(y)})
            cases.append({'id': cid + '-source', 'ev': 'roundtrip', 'fmt': 'the exported dictionary itself after the export', 'before': before, 'after': _after(x)})
        else:
            x = [make_structure(rng, k) for k in ('obs', 'list', 'corr')] if kind == 'multi' else make_structure(rng, kind)
            before = doc_any(x)
            dn0 = analysis_numbers(x)
            src, src_before = x, before
            if transport in ('df_csv', 'df_sql'):
                cells = x if kind == 'multi' else [x]
                cells = [c for c in cells if isinstance(c, (pe.Obs, pe.Corr))] or [make_structure(rng, 'obs')]
                firsto = [c for c in cells if isinstance(c, pe.Obs)]
                if firsto and rng.random() < 0.6:
                    # cells that are numerically (almost) the same observable are different cells: another tag, a value 3e-12 away
                    twin = copy.deepcopy(firsto[0])
                    twin.tag = 'the twin'
                    near = firsto[0] + 3e-12 * (abs(firsto[0].value) + 1.0)
                    near.tag = firsto[0].tag
                    cells = cells + [twin, near]
                df = pd.DataFrame({'idx': list(range(len(cells))), 'label': ['r%d' % k for k in range(len(cells))], 'data': cells})
                # the index of a frame is a label, not a position: frames that were filtered, re-indexed or concatenated are frames all the same
                variant = (i // len(kinds)) % 4
                if variant == 1:
                    df.index = range(1, len(cells) + 1)
                elif variant == 2:
                    df.index = [k % 2 for k in range(len(cells))]
                elif variant == 3:
                    df.index = range(3, len(cells) + 3)
                cid += '-ix%d' % variant
                before = doc_any([list(df['idx']), list(df['label']), list(df['data'])])
                dn0 = analysis_numbers(list(df['data']))
                x = list(df['data'])
                src, src_before = x, doc_any(x)
                if transport == 'df_csv':
                    r = _quiet(lambda: pe.input.pandas.dump_df(df, fn, gz=gz))
                    y = r if isinstance(r, Exception) else _quiet(lambda: pe.input.pandas.load_df(fn, gz=gz))
                else:
                    r = _quiet(lambda: pe.input.pandas.to_sql(df, 'tab', fn + '.sqlite', gz=gz))
                    y = r if isinstance(r, Exception) else _quiet(lambda: pe.input.pandas.read_sql('SELECT * from tab', fn + '.sqlite'))
                if not isinstance(y, Exception):
                    y = [[v.item() if hasattr(v, 'item') else v for v in y['idx']], list(y['label']), list(y['data'])]
                cases.append({'id': cid, 'ev': 'roundtrip', 'fmt': transport, 'before': before, 'after': _after(y)})
            elif transport == 'pickle':
                y = _quiet(lambda: pickle.loads(pickle.dumps(x)))
                cases.append({'id': cid, 'ev': 'roundtrip', 'fmt': 'pickle', 'before': before, 'after': _after(y)})
            elif transport == 'string':
                bare = kind in ('obs', 'array', 'corr') and (i // len(kinds)) % 2 == 0
                s = _quiet(lambda: pe.input.json.create_json_string(x if kind == 'multi' or bare else [x], indent=indent))
                y = s if isinstance(s, Exception) else _quiet(lambda: pe.input.json.import_json_string(s, verbose=False))
                cases.append({'id': cid, 'ev': 'roundtrip', 'fmt': 'json-string', 'before': before, 'after': _after(y)})
                if not isinstance(s, Exception):
                    ev = schema_event(cid, s)
                    if ev:
                        cases.append(ev)
            elif transport == 'obs_dump' and isinstance(x, (pe.Obs, pe.Corr)):
                r = _quiet(lambda: x.dump('d%d' % i, datatype='json.gz', path=tmp))
                y = r if isinstance(r, Exception) else _quiet(lambda: pe.input.json.load_json(os.path.join(tmp, 'd%d' % i), verbose=False))
                cases.append({'id': cid, 'ev': 'roundtrip', 'fmt': 'dump-method', 'before': before, 'after': _after(y)})
            else:
                bare = kind in ('obs', 'array', 'corr') and (i // len(kinds)) % 2 == 1           # a single structure may be handed over as it is (an array included)
                r = _quiet(lambda: pe.input.json.dump_to_json(x if kind == 'multi' or bare else [x], fn, gz=gz, indent=indent, description={'made by': 'c11', 'n': i}))
                y = r if isinstance(r, Exception) else _quiet(lambda: pe.input.json.load_json(fn, gz=gz, verbose=False))
                cases.append({'id': cid, 'ev': 'roundtrip', 'fmt': 'json-file', 'before': before, 'after': _after(y)})
                if not isinstance(r, Exception):
                    p = fn + '.json' + ('.gz' if gz else '')
                    text = gzip.open(p, 'rt', encoding='utf-8').read() if gz else open(p, encoding='utf-8').read()
                    ev = schema_event(cid, text)
                    if ev:
                        cases.append(ev)
        if not isinstance(y, Exception):
            cases.append({'id': cid + '-reanalysis', 'ev': 'reanalysis', 'before': dn0, 'after': analysis_numbers(y)})
        if kind != 'dict' and i % 2 == 0:
            cases.append({'id': cid + '-source', 'ev': 'roundtrip', 'fmt': 'the exported object itself after the export', 'before': src_before, 'after': _after(src)})
        ctx.nontrivial.add((kind, transport, gz, indent, i))
        if len(ctx.samples) < 4:
            ctx.sample({'id': cid, 'structure': kind, 'transport': transport, 'gz': gz, 'indent': indent})
    for j in range(4):
        # an observable assembled from reweighted pieces, one per replica (the usual way to a multi-replica reweighted observable)
        w = pe.Obs([1.0 + 0.1 * rng.normal(size=20), 1.0 + 0.1 * rng.normal(size=16)], ['mrg|r1', 'mrg|r2'])
        parts = [pe.Obs([rng.normal(size=20)], ['mrg|r1']), pe.Obs([rng.normal(size=16)], ['mrg|r2'])]
        m = _quiet(lambda: pe.merge_obs(pe.reweight(w, parts)))
        if isinstance(m, Exception):
            cases.append({'id': 'rt-merged-%d' % j, 'ev': 'roundtrip', 'fmt': 'merge of reweighted pieces', 'before': doc_any(parts[0]), 'after': _after(m)})
            continue
        m = m * 2.0 if j % 2 else m
        before = doc_any(m)
        s_ = _quiet(lambda: pe.input.json.create_json_string([m], indent=0))
        y = s_ if isinstance(s_, Exception) else _quiet(lambda: pe.input.json.import_json_string(s_, verbose=False))
        cases.append({'id': 'rt-merged-%d' % j, 'ev': 'roundtrip', 'fmt': 'json-string', 'before': before, 'after': _after(y)})
    return cases


def run(ctx):
    rng = np.random.default_rng(ctx.seed)
    tmp = tlc.scratch('verif.c11.')
    try:
        cases = cases_for(rng, 120 if ctx.quick else 1500, ctx, tmp)
    finally:
        shutil.rmtree(tmp, ignore_errors=True)
    ctx.validate('StoreTrace', cases)
