"""C04 - every observable produced by the library is structurally well-formed; arithmetic is closed;
malformed construction requests are rejected.

(M) Gen_Construct: TLC proves on the specification that every request of its grammar that ObsCore!Construct
    accepts yields a WellFormed observable and that the rejected ones are exactly the malformed classes;
    MC_Align: results of Reweight / Correlate / Merge / Derive on every small layout are WellFormed.
(R) the 3168 constructor requests TLC enumerated are replayed into pe.Obs(...) - must raise / must construct
    exactly ObsCore!Construct(request).
(T) closure table {Obs, CObs} x {Obs, CObs, int, float, complex, ndarray} x {+,-,*,/} x both orders, the elementary
    functions, reweight / correlate / merge_obs, fits, roots, json / dobs / pickle / jackknife round trips, covariance
    observables (valid and malformed): every returned object is judged by OpsTrace.tla with ObsCore!WellFormed.
"""
import json
import os
import pickle
import shutil

import numpy as np

import pyerrors as pe

from harness import gen, tlc
from harness.jsonsafe import rat, frac
from harness.pe_project import project_obs, project_any, project_exc

RULE = ('cases = TLC-enumerated constructor requests + random valid / malformed requests + closure-table entries + results of '
        'public operations; non-trivial = a request class or an (operand type, operator, order) combination or an operation kind')
ASSUMPTIONS = ['closure is claimed for + - * / (and the elementary functions on real observables), as in the property statement',
               'indefinite covariance matrices used as malformed requests have a negative principal minor by a clear margin']


def _call(f):
    try:
        with np.errstate(all='ignore'):
            return f()
    except Exception as e:  # noqa: BLE001
        return e


def _res(x):
    return project_exc(x) if isinstance(x, Exception) else project_any(x)


def replay_generated(ctx):
    d = tlc.scratch('verif.gen.')
    try:
        out = os.path.join(d, 'req.ndjson')
        r = tlc.run_tlc('Gen_Construct', cfg='Gen_Construct.cfg', workers=1, timeout=600, env={'OUT_FILE': out})
        if r['error'] or r['assumption_failed'] or not os.path.exists(out):
            if r['assumption_failed']:
                ctx.rejects.append(('model:Gen_Construct', 'an ASSUME about ObsCore!Construct is false'))
                return []
            raise tlc.MachineryError('Gen_Construct failed: ' + r['out'][-2000:])
        ctx.model_runs.append({'module': 'Gen_Construct', 'ok': True, 'wall_s': round(r['wall_s'], 1)})
        cases = []
        with open(out) as f:
            for line in f:
                c = json.loads(line)
                samples = [np.array([float(frac(v)) for v in ch['x']]) for ch in c['req']]
                names = [ch['name'] for ch in c['req']]
                idl = [list(ch['idl']) for ch in c['req']]
                c['res'] = _res(_call(lambda: pe.Obs(samples, names, idl=idl)))
                cases.append(c)
        ctx.extra['tlc_enumerated_requests'] = len(cases)
        return cases
    finally:
        shutil.rmtree(d, ignore_errors=True)


def construct_cases(rng, n, ctx):
    cases = []
    for i in range(n):
        nch = int(rng.integers(1, 4))
        ens = str(rng.choice(['A', 'Bens', 'x y']))
        names = ['%s|r%d' % (ens, k + 1) for k in range(nch)] if nch > 1 or rng.random() < 0.6 else [ens]
        idls = [gen.make_idl(rng, str(rng.choice(gen.IDL_CLASSES)), int(rng.integers(5, 14))) for _ in names]
        samples = [rng.normal(size=len(il)) * 10 ** rng.uniform(-3, 3) + rng.uniform(-5, 5) for il in idls]
        kind = str(rng.choice(['valid', 'valid', 'noidl', 'ndarray_idl', 'dupname', 'intname', 'unsorted', 'descending', 'dupcfg', 'lenmismatch', 'short',
                               'two_ens', 'idlcount', 'namecount']))
        namekinds = ['str'] * len(names)
        use_idl = True
        idl_arg = [il if isinstance(il, range) and rng.random() < 0.5 else list(il) for il in idls]
        if kind == 'noidl':
            use_idl = False
            idls = [range(1, len(s) + 1) for s in samples]
        elif kind == 'ndarray_idl':
            idl_arg = [np.array(list(il)) for il in idls]
        elif kind == 'dupname' and nch > 1:
            names[1] = names[0]
        elif kind == 'intname':
            k = int(rng.integers(0, len(names)))
            names[k] = 7
            namekinds[k] = 'int'
        elif kind == 'unsorted':
            k = int(rng.integers(0, len(names)))
            l2 = list(idls[k])
            p = int(rng.integers(0, len(l2) - 1))
            l2[p], l2[p + 1] = l2[p + 1], l2[p]
            idls[k] = l2
            idl_arg[k] = l2
        elif kind == 'descending':
            # the whole list backwards: equally spaced lists stay equally spaced (the branch that turns a list into a range); as list, array or range
            k = int(rng.integers(0, len(names)))
            l2 = list(idls[k])[::-1]
            idls[k] = l2
            if len(set(np.diff(l2))) > 1 and i % 2 == 0 and len(l2) >= 5:
                # make it equally spaced (the branch that turns a list into a range), keeping length and first entry
                l2 = [l2[0] - q * int(rng.integers(1, 4)) for q in range(len(l2))]
                l2 = [l2[0] - q * (l2[0] - l2[1]) for q in range(len(l2))]
                idls[k] = l2
            form = ['list', 'ndarray', 'range'][i % 3] if len(set(np.diff(l2))) == 1 else ['list', 'ndarray'][i % 2]
            idl_arg[k] = l2 if form == 'list' else np.array(l2) if form == 'ndarray' else range(l2[0], l2[-1] + (l2[1] - l2[0]), l2[1] - l2[0])
        elif kind == 'dupcfg':
            k = int(rng.integers(0, len(names)))
            l2 = list(idls[k])
            p = int(rng.integers(0, len(l2) - 1))
            l2[p + 1] = l2[p]
            idls[k] = l2
            idl_arg[k] = l2
        elif kind == 'lenmismatch':
            k = int(rng.integers(0, len(names)))
            samples[k] = np.append(samples[k], 1.0) if rng.random() < 0.5 else samples[k][:-1]
            if len(samples[k]) < 5:
                samples[k] = np.append(samples[k], [1.0, 2.0])
        elif kind == 'short':
            k = int(rng.integers(0, len(names)))
            m = int(rng.integers(1, 5))
            samples[k] = samples[k][:m]
            idls[k] = list(idls[k])[:m]
            idl_arg[k] = idls[k]
        elif kind == 'two_ens' and nch > 1:
            names[-1] = 'other|r1'
        idlcount = len(idl_arg)
        if kind == 'idlcount':
            idl_arg = idl_arg + [range(1, 6)]
            idlcount = len(idl_arg)
        ncount = len(samples)
        names_arg = list(names)
        if kind == 'namecount':
            samples = samples + [rng.normal(size=6)]
            ncount = len(samples)
        if use_idl and i % 2 == 0:
            # history: arithmetic on OTHER observables whose merged configuration list agrees with the requested one in length, first and last entry
            # - what the constructor accepts, rejects and turns into a range does not depend on what was computed before
            for l2_ in idls:
                l2_ = [int(x) for x in l2_]
                n_ = len(l2_)
                if n_ >= 6 and l2_[0] + n_ - 1 < l2_[-1]:
                    U = [l2_[0]] + [l2_[0] + q for q in range(1, n_ - 1)] + [l2_[-1]]
                    pa = pe.Obs([rng.normal(size=n_ - 1)], ['prime|r1'], idl=[U[:1] + U[2:]])
                    pb = pe.Obs([rng.normal(size=n_ - 1)], ['prime|r1'], idl=[U[:2] + U[3:]])
                    _call(lambda: pa + pb)
        if use_idl:
            out = _call(lambda: pe.Obs(samples, names_arg, idl=idl_arg))
        else:
            out = _call(lambda: pe.Obs(samples, names_arg))
        req = [{'name': str(names[k]), 'namekind': namekinds[k], 'idl': [int(x) for x in idls[k]], 'x': [rat(float(v)) for v in samples[k]]}
               for k in range(len(names))]
        cases.append({'id': 'ctor-%04d-%s' % (i, kind), 'ev': 'construct', 'req': req, 'idlcount': idlcount if use_idl else 0,
                      'samplecount': ncount, 'res': _res(out)})
        ctx.nontrivial.add(('ctor', kind, nch))
    return cases


def covobs_cases(rng, n, ctx):
    cases = []
    for i in range(n):
        dim = int(rng.integers(1, 4))
        if i % 8 == 5:
            dim = max(dim, 2)
        a = rng.integers(-3, 4, size=(dim, dim)).astype(float)
        cov = a @ a.T + np.eye(dim)            # integer entries, positive definite by a margin
        kind = str(rng.choice(['valid', 'valid', 'valid1d', 'pipe', 'asym', 'indef', 'nmeans', 'semidef']))
        # covariances of very different magnitude (exact powers of two): symmetry and definiteness do not depend on the scale
        if i % 8 == 5:
            kind = 'indef1d'       # variances handed over as a 1-d list, one of them negative, together with a gradient whose quadratic form is positive
        scale = 1.0 if kind == 'semidef' else float(rng.choice([1.0, 1.0, 2.0 ** -33, 2.0 ** -40, 2.0 ** 20]))
        cov = cov * scale
        name = 'sys%d' % i
        means = [float(np.round(rng.uniform(-2, 2), 3)) for _ in range(dim)]
        if rng.random() < 0.3:
            means[int(rng.integers(0, dim))] = int(rng.integers(-3, 4))        # a mean typed as an integer is a number like any other
        arg = cov
        psdmargin = False
        if kind == 'valid1d':
            cov = np.diag(np.abs(np.diag(cov)))
            arg = np.diag(cov).copy()
        elif kind == 'indef1d':
            cov = np.diag(np.abs(np.diag(cov)))
            cov[dim - 1, dim - 1] = -0.5 * scale
            arg = np.diag(cov).copy()
        elif kind == 'pipe':
            name = 'sys|1'
        elif kind == 'asym' and dim > 1:
            cov = cov.copy()
            cov[0, 1] += 1.0 * scale
            arg = cov
        elif kind == 'indef':
            cov = cov.copy()
            cov[dim - 1, dim - 1] = -1.0 * scale
            arg = cov
        elif kind == 'nmeans':
            means = means + [0.5]
        elif kind == 'semidef':
            v = rng.integers(1, 4, size=(dim, 1)).astype(float)
            cov = v @ v.T                     # rank one: positive SEMI-definite, must be accepted ... but eigvalsh may return -1e-17
            arg = cov
            psdmargin = dim > 1
        # the public grad keyword (gradient of the observable with respect to the means): the covariance is validated all the same
        grad = None
        if kind != 'nmeans' and rng.random() < 0.35:
            grad = [float(np.round(rng.uniform(-2, 2), 2)) for _ in range(dim)]
        if kind == 'indef1d':
            grad = [1.0] * (dim - 1) + [0.5]
        cov_before = [[rat(float(x)) for x in row] for row in np.atleast_2d(cov)]
        arg = np.array(arg, dtype=float)          # the caller's own buffer ...
        out = _call(lambda: pe.cov_Obs(means if len(means) > 1 else means[0], arg, name, **({'grad': grad} if grad is not None else {})))
        arg *= 3.0                                # ... which the caller is free to reuse afterwards
        cases.append({'id': 'cov-%04d-%s%s' % (i, kind, '-grad' if grad is not None else ''), 'ev': 'covobs', 'name': name, 'means': [rat(m) for m in means],
                      'grad': [rat(g) for g in grad] if grad is not None else [],
                      'cov': cov_before, 'psdmargin': psdmargin, 'res': _res(out)})
        ctx.nontrivial.add(('cov', kind, dim))
    return cases


def closure_cases(rng, ctx, reps=1):
    cases = []
    ops = {'add': lambda a, b: a + b, 'sub': lambda a, b: a - b, 'mul': lambda a, b: a * b, 'div': lambda a, b: a / b}
    for rep in range(reps):
        order_cls = ['prefix_ensembles', 'second_ensemble', 'multi_replica', 'overlap', 'same']
        lays = gen.operand_layouts(rng, order_cls[rep % len(order_cls)], 4)
        o = [gen.make_obs(rng, lay, mean=float(rng.uniform(0.6, 2.0)), sigma=0.05) for lay in lays]
        partners = {
            'obs': lambda: o[2], 'cobs': lambda: pe.CObs(o[2], o[3]), 'int': lambda: 3, 'float': lambda: 1.75,
            'complex': lambda: complex(0.5, -1.25), 'ndarray': lambda: np.array([1.5, 2.0]),
            'ndarray_c': lambda: np.array([1.5 + 0.5j, 2.0j]), 'npfloat': lambda: np.float64(2.5), 'npint': lambda: np.int64(2),
            'npcomplex': lambda: np.complex128(1 + 2j),
            # complex numbers whose imaginary part vanishes are complex numbers all the same
            'complex_im0': lambda: complex(2.5, 0.0), 'npcomplex_im0': lambda: np.complex128(3.0), 'complex_re0': lambda: complex(0.0, 1.5),
            'npcomplex64': lambda: np.complex64(1.5 - 0.5j), 'negzero_im': lambda: complex(-0.5, -0.0),
        }
        subjects = {'obs': lambda: o[0], 'cobs': lambda: pe.CObs(o[0], o[1]), 'cobs_num_im': lambda: pe.CObs(o[0], 0.5)}
        for sname, sf in subjects.items():
            for pname, pf in partners.items():
                for opname, op in ops.items():
                    for order in ('left', 'right'):
                        s, p = sf(), pf()
                        out = _call(lambda: op(s, p) if order == 'left' else op(p, s))
                        cid = 'clo-%d-%s-%s-%s-%s' % (rep, sname, opname, pname, order)
                        cases.append({'id': cid, 'ev': 'wf', 'require': 'closed', 'res': _res(out)})
                        ctx.nontrivial.add(('clo', sname, opname, pname, order))
        # powers: real ones are closed; those with a complex number or a complex observable are a recorded finding
        for sname in ('obs', 'cobs'):
            for pname in ('int', 'float', 'npfloat', 'complex', 'npcomplex'):
                for order in ('left', 'right'):
                    s_, p_ = subjects[sname](), partners[pname]()
                    out = _call(lambda: s_ ** p_ if order == 'left' else p_ ** s_)
                    cases.append({'id': 'clo-%d-%s-pow-%s-%s' % (rep, sname, pname, order), 'ev': 'wf', 'require': 'closed',
                                  'complexpower': sname == 'cobs' or 'complex' in pname, 'res': _res(out)})
        for fn in gen.UNARY:
            x = o[0] * 0 + (1.7 if fn == 'arccosh' else 0.45) + (o[0] - o[0].value) * 0.1
            out = _call(lambda: -x if fn == 'neg' else abs(x) if fn == 'abs' else getattr(np, fn)(x))
            cases.append({'id': 'clo-%d-fn-%s' % (rep, fn), 'ev': 'wf', 'require': 'closed', 'res': _res(out)})
        for fn in ('neg', 'abs', 'conj'):
            z = pe.CObs(o[0], o[1])
            out = _call(lambda: -z if fn == 'neg' else z.conjugate() if fn == 'conj' else abs(z))
            cases.append({'id': 'clo-%d-cfn-%s' % (rep, fn), 'ev': 'wf', 'require': 'closed', 'res': _res(out)})
    return cases


def operation_cases(rng, n, ctx):
    """results of fits, roots, round trips, reweight / correlate / merge"""
    import autograd.numpy as anp
    cases = []
    tmp = tlc.scratch('verif.c04.')
    try:
        for i in range(n):
            lay = gen.operand_layouts(rng, str(rng.choice(['same', 'multi_replica', 'strided', 'gapped'])), 1)[0]
            lay = [(nm, il) for nm, il in lay]
            xs = np.arange(1, 6)
            ys = [gen.make_obs(rng, lay, mean=1.0 + 0.5 * x, sigma=0.05) for x in xs]
            kind = ['fit', 'fit_prior', 'root', 'json', 'dobs', 'pickle', 'jack', 'reweight', 'correlate', 'merge', 'corrfit', 'total_ls',
                    'matmul', 'inv', 'eigh', 'pseudo', 'gevp'][i % 17]
            outs = None
            if kind == 'fit':
                [y.gamma_method() for y in ys]
                outs = _call(lambda: list(pe.fits.least_squares(xs, ys, lambda a, x: a[0] + a[1] * x, silent=True).fit_parameters))
            elif kind == 'fit_prior':
                [y.gamma_method() for y in ys]
                outs = _call(lambda: list(pe.fits.least_squares(xs, ys, lambda a, x: a[0] + a[1] * x, priors=['1.0(5)', '0.5(5)'], silent=True).fit_parameters))
            elif kind == 'total_ls':
                xo = [gen.make_obs(rng, [('X|r1', range(1, 21))], mean=float(x), sigma=0.01) for x in xs]
                [y.gamma_method() for y in ys + xo]
                outs = _call(lambda: list(pe.fits.total_least_squares(xo, ys, lambda a, x: a[0] + a[1] * x, silent=True).fit_parameters))
            elif kind == 'root':
                outs = _call(lambda: pe.roots.find_root(ys[0], lambda x, d: anp.exp(-x ** 2) - d * 0.3, guess=0.8))
            elif kind == 'json':
                ys[0].tag = 'a tag'
                pe.input.json.dump_to_json([ys[0], ys[:3], np.array(ys[:2])], os.path.join(tmp, 'j%d' % i), gz=bool(i % 2))
                outs = _call(lambda: pe.input.json.load_json(os.path.join(tmp, 'j%d' % i), gz=bool(i % 2), verbose=False))
                outs = outs if isinstance(outs, Exception) else [outs[0]] + list(outs[1]) + list(outs[2])
            elif kind == 'dobs':
                pe.input.dobs.write_dobs(ys[:2], os.path.join(tmp, 'd%d' % i), 'nm', who='me')
                outs = _call(lambda: pe.input.dobs.read_dobs(os.path.join(tmp, 'd%d' % i), full_output=False))
            elif kind == 'pickle':
                outs = _call(lambda: pickle.loads(pickle.dumps(ys[:2])))
            elif kind == 'jack':
                o1 = gen.make_obs(rng, [('J', lay[0][1])], mean=1.0)
                outs = _call(lambda: pe.import_jackknife(o1.export_jackknife(), 'J', idl=[o1.idl['J']]))
            elif kind == 'reweight':
                w = gen.make_obs(rng, lay, mean=1.0, sigma=0.1)
                outs = _call(lambda: pe.reweight(w, ys[:2]))
            elif kind == 'correlate':
                outs = _call(lambda: pe.correlate(ys[0], ys[1]))
            elif kind == 'merge':
                a = gen.make_obs(rng, [('M|r1', range(1, 9))])
                b = gen.make_obs(rng, [('M|r2', [1, 2, 4, 8, 9, 10])])
                outs = _call(lambda: pe.merge_obs([a, b]))
            elif kind == 'corrfit':
                c = pe.Corr(ys)
                c.gamma_method()
                outs = _call(lambda: list(c.fit(lambda a, x: a[0] + a[1] * x, silent=True).fit_parameters))
            elif kind in ('matmul', 'inv', 'eigh'):
                m = np.array([[ys[0] + 3, ys[1] * 0.2], [ys[1] * 0.2, ys[2] + 2]])
                outs = _call(lambda: list((m @ m).ravel()) if kind == 'matmul' else list(pe.linalg.inv(m).ravel()) if kind == 'inv'
                             else list(pe.linalg.eigh(m)[0].ravel()) + list(pe.linalg.eigh(m)[1].ravel()))
            elif kind == 'pseudo':
                outs = _call(lambda: [pe.pseudo_Obs(1.2, 0.1, 'P|r1', samples=50), pe.pseudo_Obs(0.0, 0.0, 'P')])
            elif kind == 'gevp':
                outs = _call(lambda: [ys[0].sqrt() * ys[1].log() ** 2 / np.exp(ys[2])])
            res = _res(outs)
            cases.append({'id': 'op-%04d-%s' % (i, kind), 'ev': 'wf', 'require': 'any', 'res': res})
            ctx.nontrivial.add(('op', kind))
    finally:
        shutil.rmtree(tmp, ignore_errors=True)
    return cases


def run(ctx):
    rng = np.random.default_rng(ctx.seed)
    q = ctx.quick
    ctx.model('MC_Align', cfg='MC_Align.cfg' if q else 'MC_Align_deep.cfg', timeout=1800)
    cases = replay_generated(ctx)
    ctx.exhaustive = False
    cases += construct_cases(rng, 150 if q else 2000, ctx)
    cases += covobs_cases(rng, 60 if q else 600, ctx)
    cases += closure_cases(rng, ctx, reps=3 if q else 10)
    cases += operation_cases(rng, 34 if q else 340, ctx)
    ctx.sample({'closure_case': 'clo-0-obs-sub-complex-right', 'meaning': '(0.5-1.25j) - Obs must be a well-formed CObs'})
    ctx.sample({'constructor_request': cases[0]['req'], 'outcome': cases[0]['res']['k']})
    ctx.validate('OpsTrace', cases)
