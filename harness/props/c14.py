"""C14 - correlator arithmetic acts timeslice-wise and propagates undefined slices; index transformations are the
stated maps; nothing mutates operands or arguments.

(M) MC_Corr: for every pair of masks (T = 4; 6 thorough) TLC checks on CorrOps the algebra the property relies on
    (mask union, commutativity, roll / reverse / thin / symmetrisation / Hankel laws).
(R) Gen_Masks: TLC enumerates every pattern of undefined timeslices; for each pattern real correlators are built and
    every operator x partner type x operand order, every elementary function and every index transformation is run
    through real pyerrors; CorrTrace.tla recomputes each timeslice entry-wise (value and every fluctuation, analytic
    gradients of Expr) and compares masks, T, N and entries.  Frame events: projections of operands and arguments
    before / after, and the result of a second invocation with the same objects.
"""
import copy
import json
import os
import shutil

import numpy as np

import pyerrors as pe

from harness import tlc
from harness.corrproj import NS, mk, pslot, pcorr, pres, make_corr
from harness.jsonsafe import rat

RULE = ('cases = TLC-enumerated undefined-timeslice patterns x {operator x partner kind x operand order, elementary functions, index '
        'transformations with argument grids, frame checks}; non-trivial = pattern with at least one undefined timeslice, or matrix / complex content')
ASSUMPTIONS = ['all observables of a test correlator live on one chain of 6 configurations (alignment across chains is C01\'s subject)',
               'x ** Corr and Corr ** Corr are not offered by the class (no reflected power): recorded as a known finding, see DESIGN',
               'an operation whose result would be undefined on every timeslice may raise instead of returning']

BIN = {'add': lambda a, b: a + b, 'sub': lambda a, b: a - b, 'mul': lambda a, b: a * b, 'div': lambda a, b: a / b, 'pow': lambda a, b: a ** b}
FUNCS = ['sqrt', 'log', 'exp', 'sin', 'cos', 'tan', 'arcsin', 'arccos', 'arctan', 'sinh', 'cosh', 'tanh', 'arcsinh', 'arccosh', 'arctanh', 'abs', 'neg']


def _call(f):
    try:
        with np.errstate(all='ignore'):
            return f()
    except Exception as e:  # noqa: BLE001
        return e


def masks(ctx, cfg):
    d = tlc.scratch('verif.gen.')
    try:
        out = os.path.join(d, 'masks.ndjson')
        r = tlc.run_tlc('Gen_Masks', cfg=cfg, workers=1, timeout=600, env={'OUT_FILE': out})
        if r['error'] or not os.path.exists(out):
            raise tlc.MachineryError('Gen_Masks failed: ' + r['out'][-2000:])
        ctx.model_runs.append({'module': 'Gen_Masks', 'cfg': cfg, 'ok': True, 'wall_s': round(r['wall_s'], 1)})
        with open(out) as f:
            ms = [json.loads(line) for line in f]
        ctx.extra['tlc_enumerated_masks'] = len(ms)
        return ms
    finally:
        shutil.rmtree(d, ignore_errors=True)


def partner(rng, kind, T, mask2, N=1):
    v = float(np.round(rng.uniform(0.4, 2.2) * (1 if rng.random() < 0.7 else -1), 3))
    if kind == 'corr':
        c = make_corr(rng, mask2, N=N)
        return c, {'k': 'corr', 'c': pcorr(c)}
    if kind == 'obs':
        o = mk(rng, v)
        return o, {'k': 'scalar', 'x': pslot(o)}
    if kind == 'cobs':
        z = pe.CObs(mk(rng, v), mk(rng, float(np.round(rng.uniform(0.3, 2), 3))))
        return z, {'k': 'scalar', 'x': pslot(z)}
    if kind == 'int':
        i = int(rng.integers(2, 4))
        return i, {'k': 'scalar', 'x': pslot(i)}
    if kind == 'float':
        return v, {'k': 'scalar', 'x': pslot(v)}
    if kind == 'complex':
        z = complex(v, float(np.round(rng.uniform(0.3, 2), 3)))
        return z, {'k': 'scalar', 'x': pslot(z)}
    raise ValueError(kind)


def arith_cases(rng, m, ctx, full):
    cases = []
    T, mask = m['T'], m['mask']
    a = make_corr(rng, mask)
    pa = pcorr(a)
    kinds = ['corr', 'obs', 'cobs', 'int', 'float', 'complex']
    for op in ['add', 'sub', 'mul', 'div', 'pow']:
        for kind in kinds:
            for order in ('left', 'right'):
                if op == 'pow' and kind in ('cobs', 'complex'):
                    continue          # complex exponents are outside the statement
                if op == 'pow' and (order == 'right' or kind == 'corr') and not (full and kind in ('corr', 'float', 'obs')):
                    continue          # the reflected power / correlator exponent is a recorded finding: exercised on a few patterns only
                if not full and rng.random() < 0.5:
                    continue
                mask2 = [bool(rng.random() < 0.3) for _ in range(T)]
                if all(mask2):
                    mask2[0] = False
                p, pp = partner(rng, kind, T, mask2)
                if op in ('div', 'mul', 'add') and kind in ('int', 'float') and order == 'right' and rng.random() < 0.35:
                    p = 0 if kind == 'int' else 0.0            # zero is a number: 0 / C(t) is a perfectly defined zero
                    pp = {'k': 'scalar', 'x': pslot(p)}
                if op == 'pow' and kind in ('obs', 'float', 'corr'):
                    a2 = make_corr(rng, mask, positive=True)
                    if kind == 'corr':
                        p = make_corr(rng, mask2, positive=True)
                        pp = {'k': 'corr', 'c': pcorr(p)}
                    pa2 = pcorr(a2)
                else:
                    a2, pa2 = a, pa
                if op == 'div' and kind == 'corr' and rng.random() < 0.4:
                    # 0 / 0 at one timeslice where both are defined: the quotient is not a number there
                    both = [t for t in range(T) if a2.content[t] is not None and p.content[t] is not None]
                    if both:
                        tz = both[int(rng.integers(0, len(both)))]
                        a2 = pe.Corr([None if x is None else (x[0] * 0 if t == tz else x[0]) for t, x in enumerate(a2.content)])
                        p = pe.Corr([None if x is None else (x[0] * 0 if t == tz else x[0]) for t, x in enumerate(p.content)])
                        pa2, pp = pcorr(a2), {'k': 'corr', 'c': pcorr(p)}
                before = [pcorr(a2), pp]
                r = _call(lambda: BIN[op](a2, p) if order == 'left' else BIN[op](p, a2))
                r2 = _call(lambda: BIN[op](a2, p) if order == 'left' else BIN[op](p, a2))
                after = [pcorr(a2), {'k': 'corr', 'c': pcorr(p)} if kind == 'corr' else {'k': 'scalar', 'x': pslot(p)}]
                cid = '%s-ar-%s-%s-%s' % (m['id'], op, kind, order)
                cases.append({'id': cid, 'ev': 'arith', 'a': pa2, 'op': op, 'p': {'k': pp['k'], **({'c': pp['c']} if kind == 'corr' else {'x': pp['x']})},
                              'selfleft': order == 'left', 'n': NS, 'res': pres(r)})
                cases.append({'id': cid + '-frame', 'ev': 'frame', 'before': before, 'after': after, 'first': pres(r), 'second': pres(r2)})
                ctx.nontrivial.add((T, tuple(mask), op, kind, order))
    return cases


def func_cases(rng, m, ctx, full):
    cases = []
    a = make_corr(rng, m['mask'])
    pa = pcorr(a)
    for fn in FUNCS:
        if not full and rng.random() < 0.4:
            continue
        r = _call(lambda: -a if fn == 'neg' else abs(a) if fn == 'abs' else getattr(np, fn)(a))
        cases.append({'id': '%s-fn-%s' % (m['id'], fn), 'ev': 'func', 'a': pa, 'fn': fn, 'n': NS, 'res': pres(r)})
        ctx.nontrivial.add((m['T'], tuple(m['mask']), fn))
    return cases


def matrix_complex_cases(rng, m, ctx):
    """matrix-valued (N = 2, 3) and complex content"""
    cases = []
    T, mask = m['T'], m['mask']
    N = int(rng.integers(2, 4))
    a = make_corr(rng, mask, N=N)
    pa = pcorr(a)
    # elementary functions of a matrix correlator: a timeslice with any entry outside the domain is undefined as a whole
    for fn in ('arcsin', 'arccosh', 'arctanh', 'log', 'sqrt', 'exp'):
        r = _call(lambda: getattr(np, fn)(a))
        cases.append({'id': '%s-mfn-%s-N%d' % (m['id'], fn, N), 'ev': 'func', 'a': pa, 'fn': fn, 'n': NS, 'res': pres(r)})
    for op in ('add', 'sub', 'mul', 'div'):
        for kind in ('corr', 'corr1', 'obs', 'float', 'cobs'):
            order = str(rng.choice(['left', 'right']))
            mask2 = [bool(rng.random() < 0.25) for _ in range(T)]
            mask2[int(rng.integers(0, T))] = False
            if kind == 'corr1':
                if op in ('add', 'sub'):
                    continue          # correlators of different matrix dimension can be multiplied / divided (N = 1 broadcasts), not added
                p, pp = partner(rng, 'corr', T, mask2, N=1)
                if order == 'right':
                    order = 'left'
            elif kind == 'corr':
                p, pp = partner(rng, 'corr', T, mask2, N=N)
            else:
                p, pp = partner(rng, kind, T, mask2)
            aa, paa = a, pa
            if op == 'div' and kind in ('corr', 'corr1') and order == 'left' and rng.random() < 0.5:
                both = [t for t in range(T) if a.content[t] is not None and p.content[t] is not None]
                if both:
                    tz = both[int(rng.integers(0, len(both)))]

                    def zero00(c, t):
                        x = np.array(c.content[t], dtype=object).copy()
                        if x.ndim == 2:
                            x[0, 0] = x[0, 0] * 0
                        else:
                            x = x[0] * 0
                        return x
                    aa = pe.Corr([None if x is None else (zero00(a, t) if t == tz else x) for t, x in enumerate(a.content)])
                    p = pe.Corr([None if x is None else (zero00(p, t) if t == tz else (x if p.N > 1 else x[0])) for t, x in enumerate(p.content)])
                    paa, pp = pcorr(aa), {'k': 'corr', 'c': pcorr(p)}
            r = _call(lambda: BIN[op](aa, p) if order == 'left' else BIN[op](p, aa))
            cases.append({'id': '%s-mx%d-%s-%s-%s' % (m['id'], N, op, kind, order), 'ev': 'arith', 'a': paa, 'op': op, 'p': pp,
                          'selfleft': order == 'left', 'n': NS, 'res': pres(r)})
            ctx.nontrivial.add(('mx', N, op, kind, order))
    # complex content: the supported subset
    z = make_corr(rng, mask, complex_content=True)
    pz = pcorr(z)
    for op, kinds in (('add', ['corr', 'ccorr', 'obs', 'cobs', 'float', 'complex']), ('sub', ['corr', 'ccorr', 'obs', 'cobs', 'float', 'complex']),
                      ('mul', ['corr', 'ccorr', 'obs', 'cobs', 'float', 'complex']), ('div', ['obs', 'float', 'int'])):
        for kind in kinds:
            mask2 = [bool(rng.random() < 0.25) for _ in range(T)]
            mask2[int(rng.integers(0, T))] = False
            if kind == 'ccorr':
                p = make_corr(rng, mask2, complex_content=True)
                pp = {'k': 'corr', 'c': pcorr(p)}
            else:
                p, pp = partner(rng, kind, T, mask2)
            orders = ['left'] + (['right'] if kind in ('corr', 'obs', 'float', 'int') and op != 'div' else [])
            for order in orders:
                r = _call(lambda: BIN[op](z, p) if order == 'left' else BIN[op](p, z))
                cases.append({'id': '%s-cx-%s-%s-%s' % (m['id'], op, kind, order), 'ev': 'arith', 'a': pz, 'op': op, 'p': pp,
                              'selfleft': order == 'left', 'n': NS, 'res': pres(r)})
                ctx.nontrivial.add(('cx', op, kind, order))
    return cases


def _vec(v):
    return {'k': 'none'} if v is None else {'k': 'v', 'v': [rat(float(x)) for x in v]}


def index_cases(rng, m, ctx, full):
    cases = []
    T, mask = m['T'], m['mask']
    a = make_corr(rng, mask)
    pa = pcorr(a)

    def add(method, args, f, a_=None, extra_before=None, extra_after=None):
        aa = a if a_ is None else a_
        before = [pcorr(aa)] + (extra_before() if extra_before else [])
        r = _call(f)
        r2 = _call(f)
        after = [pcorr(aa)] + (extra_after() if extra_after else [])
        cid = '%s-ix-%s-%s' % (m['id'], method, '-'.join('%s' % v for v in args.values() if not isinstance(v, (dict, list))))
        cases.append({'id': cid, 'ev': 'index', 'a': pcorr(aa), 'method': method, 'args': args or {'none': 0}, 'n': NS, 'res': pres(r)})
        cases.append({'id': cid + '-frame', 'ev': 'frame', 'before': before, 'after': after, 'first': pres(r), 'second': pres(r2)})
        ctx.nontrivial.add((T, tuple(mask), method, json.dumps(args, sort_keys=True)[:60]))

    for dt in ([-T - 1, -1, 0, 1, 2, T, T + 3] if full else [int(rng.integers(-T - 1, T + 4))]):
        add('roll', {'dt': dt}, lambda: a.roll(dt))
    add('reverse', {}, lambda: a.reverse())
    for sp, off in ([(1, 0), (2, 0), (2, 1), (3, 0), (3, 2), (T, 0), (T + 1, 1)] if full else [(int(rng.integers(1, 4)), int(rng.integers(0, 3)))]):
        add('thin', {'spacing': sp, 'offset': off}, lambda: a.thin(sp, off))
    if T % 2 == 0:
        add('symmetric', {}, lambda: a.symmetric())
        add('anti_symmetric', {}, lambda: a.anti_symmetric())
    mask2 = [bool(rng.random() < 0.3) for _ in range(T)]
    mask2[int(rng.integers(0, T))] = False
    b = make_corr(rng, mask2)
    for parity in (1, -1):
        add('T_symmetry', {'partner': pcorr(b), 'parity': parity}, lambda: a.T_symmetry(b, parity),
            extra_before=lambda: [pcorr(b)], extra_after=lambda: [pcorr(b)])
    for N, per in ([(1, False), (2, False), (2, True), (3, False), (3, True), (4, True), (5, True)] if full else [(int(rng.integers(1, 6)), bool(rng.random() < 0.6))]):
        add('Hankel', {'N': N, 'periodic': per}, lambda: a.Hankel(N, periodic=per))
    # matrix-valued methods
    N = int(rng.integers(2, 4))
    g = make_corr(rng, mask, N=N)
    i, j = int(rng.integers(0, N)), int(rng.integers(0, N))
    add('item', {'i': i, 'j': j}, lambda: g.item(i, j), a_=g)
    add('trace', {}, lambda: g.trace(), a_=g)
    add('matrix_symmetric', {}, lambda: g.matrix_symmetric(), a_=g)
    for norm in (False, True):
        vl = np.round(rng.uniform(0.5, 3, size=N), 2)
        vr = np.round(rng.uniform(-2, 2, size=N), 2)
        vl0, vr0 = vl.copy(), vr.copy()
        add('projected', {'vl': [_vec(vl0)] * T, 'vr': [_vec(vr0)] * T, 'normalize': norm}, lambda: g.projected(vl, vr, normalize=norm), a_=g,
            extra_before=lambda: [{'k': 'vecs', 'v': [_vec(vl0), _vec(vr0)]}], extra_after=lambda: [{'k': 'vecs', 'v': [_vec(vl), _vec(vr)]}])
        # one vector for both sides
        add('projected', {'vl': [_vec(vl0)] * T, 'vr': [_vec(vl0)] * T, 'normalize': norm, 'tag': 'single'}, lambda: g.projected(vl, normalize=norm), a_=g)
        # a list of vectors, one per timeslice, some of them undefined
        vls = [None if rng.random() < 0.2 else np.round(rng.uniform(0.5, 3, size=N), 2) for _ in range(T)]
        if all(v is None for v in vls) or all(vls[t] is None or mask[t] for t in range(T)):
            vls = [np.round(rng.uniform(0.5, 3, size=N), 2) for _ in range(T)]
        vls0 = [None if v is None else v.copy() for v in vls]
        add('projected', {'vl': [_vec(v) for v in vls0], 'vr': [_vec(v) for v in vls0], 'normalize': norm, 'tag': 'list'},
            lambda: g.projected(vls, normalize=norm), a_=g,
            extra_before=lambda: [{'k': 'vecs', 'v': [_vec(v) for v in vls0]}], extra_after=lambda: [{'k': 'vecs', 'v': [_vec(v) for v in vls]}])
    # printing must not alter its argument
    pr = [0, max(0, T - 2)]
    pr0 = list(pr)
    s1 = _call(lambda: a.__repr__(pr))
    s2 = _call(lambda: a.__repr__(pr))
    cases.append({'id': '%s-ix-repr-frame' % m['id'], 'ev': 'frame', 'before': [pa, {'k': 'range', 'v': pr0}], 'after': [pcorr(a), {'k': 'range', 'v': [int(x) for x in pr]}],
                  'first': {'k': 'str', 's': s1 if isinstance(s1, str) else 'exc'}, 'second': {'k': 'str', 's': s2 if isinstance(s2, str) else 'exc'}})
    # ... whatever kind of sequence the range is handed in as
    pra = np.array([0, max(0, T - 2)])
    s1 = _call(lambda: a.__repr__(pra))
    s2 = _call(lambda: a.__repr__(pra))
    cases.append({'id': '%s-ix-repr-frame-ndarray' % m['id'], 'ev': 'frame', 'before': [pa, {'k': 'range', 'v': pr0}], 'after': [pcorr(a), {'k': 'range', 'v': [int(x) for x in pra]}],
                  'first': {'k': 'str', 's': s1 if isinstance(s1, str) else 'exc'}, 'second': {'k': 'str', 's': s2 if isinstance(s2, str) else 'exc'}})
    return cases


def run(ctx):
    rng = np.random.default_rng(ctx.seed)
    q = ctx.quick
    ctx.model('MC_Corr', cfg='MC_Corr.cfg' if q else 'MC_Corr_deep.cfg', timeout=1800)
    ms = masks(ctx, 'Gen_Masks_q5.cfg' if q else 'Gen_Masks_t8.cfg')
    cases = []
    for k, m in enumerate(ms):
        full = (not q) or k % 6 == 0
        if not q and m['T'] == 8 and k % 3:
            continue                  # every third pattern at T = 8 (255 patterns) keeps the thorough tier within budget
        cases += arith_cases(rng, m, ctx, full)
        cases += func_cases(rng, m, ctx, full)
        cases += index_cases(rng, m, ctx, full)
        if full or k % 4 == 1:
            cases += matrix_complex_cases(rng, m, ctx)
    ctx.sample({'pattern': ms[3], 'operations': [c['id'] for c in cases[:8]]})
    ctx.validate('CorrTrace', cases, timeout=3000)
