"""C06 - covariance and correlation matrices are consistent with the individual errors.

(M/R) Gen_SortCorr: TLC enumerates every order of up to 4 keys with 1..3 points each; all scenarios are replayed
      into pe.obs.sort_corr and the returned matrix must be the stated permutation (exact).
(T)   pe.covariance on lists of 2-8 analysed observables (one or several ensembles and replica sets; identical,
      nested, partly overlapping lists; shared covariance inputs; every analysis parameter choice; random list order),
      the Cholesky-based inverse, eigenvalue smoothing, fit error bands - each judged by CovTrace.tla through the
      identities of the property, in exact arithmetic on the returned matrices.
"""
import json
import os
import shutil

import numpy as np
import autograd.numpy as anp

import pyerrors as pe

from harness import gen, tlc
from harness.jsonsafe import rat, ratx
from harness.frames import snap, frame_event
from harness.pe_project import project_obs

RULE = ('cases = covariance requests (list class x size 2..8 x analysis parameters x permutation), Cholesky inverses, smoothing '
        'parameters E, error bands, TLC-enumerated sort_corr scenarios; non-trivial = list with at least two observables sharing an ensemble or covariance input')
ASSUMPTIONS = ['Pearson correlation read as the normalised cross moment of the stored fluctuations on the common configurations',
               'positive semi-definiteness judged by exact LDL^T pivots of cov + 1e-10*max|cov|*1']


def mat(a):
    return [[ratx(float(x)) for x in row] for row in np.asarray(a, dtype=float)]


def _list(rng, cls, n):
    if cls == 'single_same':
        idl = gen.make_idl(rng, str(rng.choice(gen.IDL_CLASSES)), int(rng.integers(12, 40)))
        base = [gen.make_obs(rng, [('A|r1', idl)], mean=float(rng.uniform(-1, 2)), sigma=float(rng.uniform(0.05, 1)), tau=float(rng.choice([0, 2]))) for _ in range(3)]
        out = []
        for _ in range(n):
            c = rng.normal(size=3)
            out.append(c[0] * base[0] + c[1] * base[1] + c[2] * base[2] * base[0])
        return out
    if cls == 'single_nested':
        idl = gen.make_idl(rng, str(rng.choice(['contig', 'strided', 'strided'])), int(rng.integers(20, 40)))
        out = []
        for _ in range(n):
            sub = gen.sub_idl(rng, idl, str(rng.choice(['prefix', 'suffix', 'stride', 'random', 'window', 'window'])), nmin=8)
            out.append(gen.make_obs(rng, [('A|r1', sub)], mean=float(rng.uniform(-1, 2)), sigma=float(rng.uniform(0.05, 1))))
        # correlate them a bit: add a common signal on the common configurations is not possible without changing idl; keep independent data
        return out
    if cls == 'single_twin':
        # one chain, irregular lists that agree in length, first and last configuration and differ in between (what a cheap test of
        # "the same configurations" cannot tell apart); a common signal on top of independent noise, so the correlations are sizeable
        L = int(rng.integers(14, 30))
        first, last = int(rng.integers(1, 5)), int(rng.integers(60, 80))
        sig = {c: float(rng.normal()) for c in range(first, last + 1)}
        out = []
        for _ in range(n):
            il = [first] + sorted(int(x) for x in rng.choice(np.arange(first + 1, last), size=L - 2, replace=False)) + [last]
            x = np.array([sig[c] for c in il]) + 0.5 * rng.normal(size=L) + float(rng.uniform(-1, 2))
            out.append(pe.Obs([x], ['A|r1'], idl=[il]))
        return out
    if cls == 'multi':
        lays = gen.operand_layouts(rng, str(rng.choice(['multi_replica', 'replica_subset', 'second_ensemble', 'overlap'])), n)
        prim = [gen.make_obs(rng, lay, mean=float(rng.uniform(0.5, 2)), sigma=float(rng.uniform(0.05, 0.5)), tau=float(rng.choice([0, 3]))) for lay in lays]
        out = []
        for i in range(n):
            j = int(rng.integers(0, n))
            out.append(prim[i] + float(rng.normal()) * prim[j] if rng.random() < 0.6 else prim[i])
        return out
    if cls == 'external':
        dim = int(rng.integers(1, 4))
        a = rng.normal(size=(dim, dim))
        cov = (a @ a.T + 0.2 * np.eye(dim)) * 0.01
        cov = (cov + cov.T) / 2
        cl = pe.cov_Obs([1.0 + 0.1 * k for k in range(dim)], cov, 'sysE')
        cl = [cl] if dim == 1 else cl
        out = []
        for _ in range(n):
            c = rng.normal(size=dim)
            o = sum(float(c[k]) * cl[k] for k in range(dim))
            out.append(o * cl[0] if rng.random() < 0.3 else o)
        return out
    if cls == 'mixed':
        a = _list(rng, 'multi', max(1, n // 2))
        b = _list(rng, 'external', n - len(a)) if n - len(a) > 0 else []
        out = a + b
        if b and rng.random() < 0.7:
            out[0] = out[0] + b[0]
        out.append(gen.make_obs(rng, [('Zdisjoint', range(1, 12))]))
        return out
    raise ValueError(cls)


def cov_cases(rng, n, ctx):
    cases = []
    classes = ['single_same', 'single_nested', 'multi', 'external', 'mixed', 'single_twin']
    for i in range(n):
        cls = classes[i % len(classes)]
        k = int(rng.integers(2, 9))
        objs = _list(rng, cls, k)
        kw = {}
        if rng.random() < 0.6:
            kw['S'] = float(rng.choice([0, 1.0, 2.0, 3.5]))
        if rng.random() < 0.2:
            kw['tau_exp'] = float(rng.choice([2.0, 5.0]))
        try:
            [o.gamma_method(**kw) for o in objs]
        except ValueError as e:
            if 'common spacing' in str(e) or 'at least 8 samples' in str(e):
                continue                      # outside the domain of the analysis (judged by C02), not a covariance question
            raise
        try:
            if any(o.dvalue == 0 for o in objs):
                continue
            before = snap(objs)
            with np.errstate(all='ignore'):
                C = pe.covariance(objs)
                K = pe.covariance(objs, correlation=True)
                perm = rng.permutation(len(objs)).tolist()
                po = [objs[p] for p in perm]
                Cp = pe.covariance(po)
                Kp = pe.covariance(po, correlation=True)
        except Exception as e:  # noqa: BLE001
            cases.append({'id': 'cov-%04d-%s' % (i, cls), 'ev': 'raised', 't': type(e).__name__})
            continue
        cid = 'cov-%04d-%s-n%d' % (i, cls, len(objs))
        if i % 2 == 0:
            cases.append(frame_event(cid + '-frame', 'covariance leaves the list and the observables it was given as they were', before, objs))
        cases.append({'id': cid, 'ev': 'cov', 'objs': [project_obs(o) for o in objs], 'dvalues': [ratx(float(o.dvalue)) for o in objs],
                      'cov': mat(C), 'corr': mat(K), 'perm': [p + 1 for p in perm], 'cov_perm': mat(Cp), 'corr_perm': mat(Kp)})
        ctx.nontrivial.add((cls, len(objs), tuple(sorted(kw.items()))))
        ctx.sample({'id': cid, 'class': cls, 'gamma_method_kwargs': kw, 'names': [o.names for o in objs][:4]})
        # helpers built on the correlation matrix
        if cls in ('single_same', 'multi') and np.linalg.cond(K) < 1e6:
            errs = np.array([o.dvalue for o in objs])
            try:
                ci = pe.obs.invert_corr_cov_cholesky(K, np.diag(1 / errs))
                cases.append({'id': cid + '-chol', 'ev': 'cholinv', 'corr': mat(K), 'errs': [rat(float(e)) for e in errs], 'chol_inv': mat(ci)})
            except Exception:  # noqa: BLE001
                pass
        if len(objs) >= 5:
            for E in range(3, len(objs) - 1):
                try:
                    Ks = pe.covariance(objs, correlation=True, smooth=E)
                    cases.append({'id': cid + '-smooth%d' % E, 'ev': 'smooth', 'corr': mat(K), 'res': mat(Ks), 'E': E})
                    if np.linalg.cond(Ks) < 1e6 and np.all(np.linalg.eigvalsh((Ks + Ks.T) / 2) > 1e-6):
                        # the Cholesky helper takes the matrix it is given - a smoothed correlation matrix has trace n, not a unit diagonal
                        errs_s = np.array([o.dvalue for o in objs])
                        cis = pe.obs.invert_corr_cov_cholesky(Ks, np.diag(1 / errs_s))
                        cases.append({'id': cid + '-smooth%d-chol' % E, 'ev': 'cholinv', 'corr': mat(Ks), 'errs': [rat(float(e)) for e in errs_s], 'chol_inv': mat(cis)})
                except Exception as e:  # noqa: BLE001
                    cases.append({'id': cid + '-smooth%d' % E, 'ev': 'raised', 't': type(e).__name__})
    return cases


def rolling_cases(rng, n, ctx):
    """history: one observable is kept while its partners come and go (a loop over candidates that are dropped after the request) - every
    request is judged like any other: nothing remembered about an earlier partner may enter"""
    cases = []
    for i in range(n):
        idl = gen.make_idl(rng, str(rng.choice(gen.IDL_CLASSES)), int(rng.integers(14, 40)))
        a = gen.make_obs(rng, [('A|r1', idl)], mean=1.0, sigma=0.3, tau=float(rng.choice([0, 2])))
        a.gamma_method()
        for j in range(5):
            mix = float([0.95, -0.2, 0.0, 0.6, -0.9][j])
            b = gen.make_obs(rng, [('A|r1', idl)], mean=2.0, sigma=0.3) + mix * (a - a.value) if mix else gen.make_obs(rng, [('A|r1', idl)], mean=2.0, sigma=0.3)
            b.gamma_method()
            objs = [a, b]
            try:
                with np.errstate(all='ignore'):
                    C = pe.covariance(objs)
                    K = pe.covariance(objs, correlation=True)
                    Cp = pe.covariance([b, a])
                    Kp = pe.covariance([b, a], correlation=True)
            except Exception as e:  # noqa: BLE001
                cases.append({'id': 'roll-%03d-%d' % (i, j), 'ev': 'raised', 't': type(e).__name__})
                continue
            cases.append({'id': 'roll-%03d-%d' % (i, j), 'ev': 'cov', 'objs': [project_obs(o) for o in objs], 'dvalues': [ratx(float(o.dvalue)) for o in objs],
                          'cov': mat(C), 'corr': mat(K), 'perm': [2, 1], 'cov_perm': mat(Cp), 'corr_perm': mat(Kp)})
            ctx.nontrivial.add(('roll', i, j))
            del b, objs
    return cases


def band_cases(rng, n, ctx):
    cases = []
    for i in range(n):
        fam = str(rng.choice(['poly', 'exp']))
        npar = int(rng.integers(1, 5)) if fam == 'poly' else 2
        beta = _list(rng, str(rng.choice(['single_same', 'multi', 'mixed'])), npar)[:npar]
        beta = [b * 0 + float(rng.uniform(0.3, 1.5)) + (b - b.value) for b in beta]
        try:
            [b.gamma_method() for b in beta]
        except ValueError:
            continue
        xs = np.round(rng.uniform(0.1, 2.0, size=int(rng.integers(1, 5))), 3)
        # the abscissae may be handed in as an array of floats, a list of floats or of integers, an integer array or a range
        xform = str(rng.choice(['farray', 'flist', 'ilist', 'iarray', 'range']))
        if xform == 'flist':
            xs = [float(v) for v in xs]
        elif xform == 'ilist':
            xs = [int(v) for v in rng.integers(0, 4, size=len(xs))]
        elif xform == 'iarray':
            xs = np.arange(1, 1 + len(xs))
        elif xform == 'range':
            xs = range(0, len(xs))
        if fam == 'poly':
            def func(a, x):
                return sum(a[k] * x ** k for k in range(npar))
        else:
            def func(a, x):
                return a[0] * anp.exp(-a[1] * x)
        try:
            with np.errstate(all='ignore'):
                before = snap(beta)
                err = pe.fits.error_band(xs, func, beta)
                fev = frame_event('band-%04d-frame' % i, 'error_band leaves the parameter observables as they were', before, beta)
                C = pe.covariance(beta)
        except Exception as e:  # noqa: BLE001
            cases.append({'id': 'band-%04d' % i, 'ev': 'raised', 't': type(e).__name__})
            continue
        cases.append(fev)
        cases.append({'id': 'band-%04d-%s%d-%s' % (i, fam, npar, xform), 'ev': 'band', 'family': fam, 'beta': [rat(float(b.value)) for b in beta],
                      'xs': [rat(float(x)) for x in xs], 'cov': mat(C), 'err': [ratx(float(e)) for e in err]})
        ctx.nontrivial.add(('band', fam, npar))
    return cases


def sortcorr_cases(ctx, cfg):
    d = tlc.scratch('verif.gen.')
    try:
        out = os.path.join(d, 'sc.ndjson')
        r = tlc.run_tlc('Gen_SortCorr', cfg=cfg, workers=1, timeout=600, env={'OUT_FILE': out})
        if r['error'] or not os.path.exists(out):
            raise tlc.MachineryError('Gen_SortCorr failed: ' + r['out'][-2000:])
        ctx.model_runs.append({'module': 'Gen_SortCorr', 'cfg': cfg, 'ok': True, 'wall_s': round(r['wall_s'], 1)})
        cases = []
        with open(out) as f:
            for line in f:
                c0 = json.loads(line)
                n = sum(c0['lens'])
                corr = np.array([[100.0 * (i + 1) + (j + 1) for j in range(n)] for i in range(n)])
                # the data dictionary is filled in the order of the key list, in reversed and in sorted order: its insertion order says nothing
                pairs = list(zip(c0['kl'], c0['lens']))
                for tag, order in (('', pairs), ('-ydrev', pairs[::-1]), ('-ydsorted', sorted(pairs))):
                    if tag and order == pairs:
                        continue
                    c = dict(c0)
                    c['id'] = c0['id'] + tag
                    yd = {k: list(range(ln)) for k, ln in order}
                    kl = list(c['kl'])                       # the caller's key list, used for two matrices in turn (correlation, then covariance)
                    corr2 = 7.0 * corr + 3.0
                    try:
                        res = pe.obs.sort_corr(corr, kl, yd)
                        c['res'] = mat(res)
                    except Exception as e:  # noqa: BLE001
                        c['res'] = [[rat(0)]]
                    c['corr'] = mat(corr)
                    cases.append(c)
                    if not tag:
                        c2 = dict(c0)
                        c2['id'] = c0['id'] + '-second'
                        try:
                            c2['res'] = mat(pe.obs.sort_corr(corr2, kl, yd))
                        except Exception as e:  # noqa: BLE001
                            c2['res'] = [[rat(0)]]
                        c2['corr'] = mat(corr2)
                        cases.append(c2)
        ctx.extra['tlc_enumerated_sortcorr'] = len(cases)
        return cases
    finally:
        shutil.rmtree(d, ignore_errors=True)


def run(ctx):
    rng = np.random.default_rng(ctx.seed)
    q = ctx.quick
    cases = sortcorr_cases(ctx, 'Gen_SortCorr_small.cfg' if q else 'Gen_SortCorr.cfg')
    cases += cov_cases(rng, 100 if q else 1200, ctx)
    cases += band_cases(rng, 30 if q else 300, ctx)
    cases += rolling_cases(rng, 8 if q else 80, ctx)
    ctx.validate('CovTrace', cases)
