"""C16 - GEVP and matrix pencil satisfy the eigen-equation and recover exact spectra.

(T) correlator matrices C_ij(t) = sum_n Z_in Z_jn exp(-E_n t) (N = 2..5 states, non-degenerate energies, generic overlaps,
    T = 8..16, t0 = 1..T/3, optionally with an antisymmetric admixture that the solver must symmetrise away and with
    undefined timeslices) are handed to Corr.GEVP with methods eigh / cholesky, sort Eigenvalue / Eigenvector / None,
    vector_obs on / off; GevpTrace.tla checks G(t) v = lambda G(t0) v for every state and time (value, and every fluctuation
    when uncertainties are propagated into the vectors), the ordering, agreement of the two methods up to sign and norm,
    state tracking, the eigenvalue correlators exp(-E_n (t - t0)) (also after pruning) and the matrix-pencil energies.
"""
import numpy as np

import pyerrors as pe

from harness.corrproj import NS, mk, pslot
from harness.jsonsafe import rat, ratx

RULE = ('cases = (N x T x t0 x method x sort x vector_obs x symmetric-or-not x undefined-timeslice pattern) for GEVP, eigenvalue correlators of '
        'exact N-exponential matrices (all states), pruned matrices, matrix-pencil extractions; non-trivial = every case')
ASSUMPTIONS = ['energies separated by >= 0.15, E_max (T - t0) <= 18 so that the generalised problem stays numerically well-posed',
               'eigen-equation residual compared at 1e-6 of max|G(t)|; exact spectra at 1e-5']


def _call(f):
    try:
        with np.errstate(all='ignore'):
            return f()
    except Exception as e:  # noqa: BLE001
        return e


def slot(x):
    if isinstance(x, pe.Obs):
        s = pslot(x)
        return {'v': s['v'], 'd': s['d']} if s['k'] == 'r' else {'v': 'nan', 'd': []}
    return {'v': ratx(float(x)), 'd': ['0'] * NS}


def pmat(m):
    return [[slot(x) for x in row] for row in np.asarray(m, dtype=object)]


def spectrum(rng, N):
    E = np.cumsum(rng.uniform(0.15, 0.3, size=N)) + 0.05
    Z = np.linalg.qr(rng.normal(size=(N, N)))[0] @ np.diag(rng.uniform(0.7, 1.5, size=N)) + 0.2 * rng.normal(size=(N, N))
    return E, Z


def matrix_corr(rng, E, Z, T, asym=0.0, mask=None, rel=0.01, exact=True, weights=None, scale=1.0):
    """G(t) = Z diag(w(t)) Z^T with w_n(t) = exp(-E_n t), or the given positive weights[t][n] (time-independent overlaps)"""
    N = len(E)
    content = []
    for t in range(T):
        if mask is not None and mask[t]:
            content.append(None)
            continue
        val = (Z * (np.exp(-E * t) if weights is None else np.asarray(weights[t]))) @ Z.T
        m = np.empty((N, N), dtype=object)
        for i in range(N):
            for j in range(i, N):
                o = mk(rng, float(val[i, j]), rel=rel)
                m[i, j] = o
                m[j, i] = o
        if asym:
            for i in range(N):
                for j in range(i + 1, N):
                    a = mk(rng, asym * float(rng.normal()) * abs(val[i, j]), rel=rel)
                    m[i, j] = m[i, j] + a
                    m[j, i] = m[j, i] - a
        if scale != 1.0:
            # the overall normalisation of a correlator is arbitrary (entries rescaled as observables: relative precision kept)
            for i in range(N):
                for j in range(i, N):
                    same = m[j, i] is m[i, j]
                    m[i, j] = m[i, j] * scale
                    m[j, i] = m[i, j] if same else m[j, i] * scale
        content.append(m)
    return pe.Corr(content)


def pG(c):
    return [{'k': 'none'} if it is None else {'k': 'm', 'm': pmat(it)} for it in c.content]


def pvecs(vecs, N, T, sortnone_ts=None):
    out = []
    for s in range(N):
        row = []
        for t in range(T):
            if sortnone_ts is not None:
                v = vecs[s] if t == sortnone_ts else None
            else:
                v = vecs[s][t] if t < len(vecs[s]) else None
            row.append({'k': 'none'} if v is None else {'k': 'v', 'v': [slot(x) for x in np.asarray(v, dtype=object).ravel()]})
        out.append(row)
    return out


def gevp_cases(rng, n, ctx, nmax):
    cases = []
    for i in range(n):
        N = int(rng.integers(2, nmax + 1))
        T = int(rng.integers(8, 17))
        t0 = int(rng.integers(1, T // 3 + 1))
        E, Z = spectrum(rng, N)
        asym = float(rng.choice([0.0, 0.0, 0.05]))
        mask = [False] * T
        if rng.random() < 0.4:
            for t in rng.choice(np.arange(t0 + 1, T), size=int(rng.integers(1, 3)), replace=False):
                mask[int(t)] = True
        vector_obs = bool(rng.random() < 0.3)
        method = str(rng.choice(['eigh', 'cholesky']))
        sort = [None, 'Eigenvalue', 'Eigenvector'][int(rng.integers(0, 3))]
        defined = [t for t in range(t0 + 1, T) if not mask[t]]
        ts = int(defined[int(rng.integers(0, len(defined)))])
        # time-independent overlaps with weights that are not pure exponentials: the order of the eigenvalues changes with time
        # (lambda_n(t) = exp(-E_{pi_t(n)} (t - t0)) with a permutation pi_t that is constant on stretches of time) - only a sorting by
        # eigenvector follows a state through such a crossing
        weights = None
        crossing = bool(i % 3 == 1 and not asym)
        if crossing:
            perm_t = {}
            cur = list(range(N))
            for t in range(t0 + 1, T):
                if rng.random() < 0.3:
                    cur = [int(x) for x in rng.permutation(N)]
                perm_t[t] = cur
            weights = [np.exp(-E * (t - t0)) if t <= t0 else np.exp(-E[perm_t[t]] * (t - t0)) for t in range(T)]
        scale = float(rng.choice([1.0, 1.0, 1e-12, 1e7]))
        c = matrix_corr(rng, E, Z, T, asym=asym, mask=mask, weights=weights, scale=scale)
        kw = {'sort': sort, 'vector_obs': vector_obs}
        if not vector_obs:
            kw['method'] = method
        if sort != 'Eigenvalue':
            kw['ts'] = ts
        G_before = pG(c)
        r = _call(lambda: c.GEVP(t0, **kw))
        G_after = pG(c)
        cid = 'gevp-%04d-N%d-T%d-t0%d-%s-%s-%s%s%s' % (i, N, T, t0, method if not vector_obs else 'obs', sort, 'asym' if asym else 'cross' if crossing else 'sym',
                                                      ('-mask' if any(mask) else '') + ('-scale%g' % scale if scale != 1.0 else ''), '-vobs' if vector_obs else '')
        G = pG(c)
        if i % 2 == 0:
            import json as _json
            cases.append({'id': cid + '-frame', 'ev': 'frame', 'what': 'GEVP leaves the correlator matrix as it was', 'before': _json.dumps(G_before, sort_keys=True), 'after': _json.dumps(G_after, sort_keys=True)})
        if isinstance(r, Exception):
            res = {'k': 'exc', 't': type(r).__name__}
        else:
            res = {'k': 'ok', 'vecs': pvecs(r, N, T, sortnone_ts=ts if sort is None else None)}
        if sort is None:
            G = [g if t in (t0, ts) else {'k': 'none'} for t, g in enumerate(G)]      # only ts is solved
        cases.append({'id': cid, 'ev': 'gevp', 'N': N, 'T': T, 't0': t0, 'ts': ts, 'sort': sort or 'None', 'vobs': vector_obs, 'exact': not asym, 'G': G, 'res': res})
        ctx.nontrivial.add((N, T, t0, method, sort, vector_obs, bool(asym), any(mask)))
        # the other method must give parallel vectors
        if not vector_obs and not isinstance(r, Exception):
            kw2 = dict(kw, method='cholesky' if method == 'eigh' else 'eigh')
            r2 = _call(lambda: c.GEVP(t0, **kw2))
            if not isinstance(r2, Exception):
                cases.append({'id': cid + '-pair', 'ev': 'pair', 'a': pvecs(r, N, T, sortnone_ts=ts if sort is None else None),
                              'b': pvecs(r2, N, T, sortnone_ts=ts if sort is None else None)})
        if len(ctx.samples) < 3:
            ctx.sample({'id': cid, 'energies': [float(e) for e in E]})
    return cases


def spectrum_cases(rng, n, ctx, nmax):
    cases = []
    for i in range(n):
        N = int(rng.integers(2, nmax + 1))
        T = int(rng.integers(8, 15))
        t0 = int(rng.integers(1, T // 3 + 1))
        E, Z = spectrum(rng, N)
        c = matrix_corr(rng, E, Z, T, rel=1e-6)
        sort = str(rng.choice(['Eigenvalue', 'Eigenvector']))
        lam = []
        for s in range(N):
            kw = {'state': s, 'sort': sort}
            if sort == 'Eigenvector':
                kw['ts'] = t0 + 1
            ev = _call(lambda: c.Eigenvalue(t0, **kw))
            row = []
            for t in range(T):
                if isinstance(ev, Exception) or ev.content[t] is None or t <= t0:
                    row.append({'k': 'none'})
                else:
                    row.append({'k': 'x', 'x': ratx(float(ev.content[t][0].value))})
            if isinstance(ev, Exception):
                row[t0 + 1] = {'k': 'x', 'x': 'nan'}
            lam.append(row)
        cases.append({'id': 'spec-%04d-N%d-T%d-t0%d-%s' % (i, N, T, t0, sort), 'ev': 'spectrum', 'what': 'GEVP', 't0': t0, 'E': [rat(float(e)) for e in E], 'lam': lam})
        # the vectors handed to projected() stay the caller's: projecting with normalisation first and without afterwards uses the same vectors
        vs = _call(lambda: c.GEVP(t0, sort='Eigenvalue')[0])
        if not isinstance(vs, Exception):
            import copy as _copy
            ref = _call(lambda: c.projected(_copy.deepcopy(vs)))
            _call(lambda: c.projected(vs, normalize=True))
            again = _call(lambda: c.projected(vs))

            def vals(x):
                return [] if isinstance(x, Exception) else [('none' if it is None else ratx(float(it[0].value))) for it in x.content]
            cases.append({'id': 'spec-%04d-projected-frame' % i, 'ev': 'frame', 'what': 'projecting on the same vectors gives the same correlator, whether or not a normalising projection came in between',
                          'before': vals(ref), 'after': vals(again)})
        # pruning to the lowest states preserves their energies
        if N >= 3:
            Nt = int(rng.integers(1, N))
            tproj = t0 + 1
            # a matrix that is not exactly symmetric is symmetrised first: the antisymmetric part must not leak into the pruned matrix
            asym_in = bool(rng.random() < 0.5)
            cin = matrix_corr(rng, E, Z, T, asym=0.05, rel=1e-6) if asym_in else c
            # the vectors may come from another correlator matrix with the same overlaps (a base matrix with better statistics, other energies)
            base = None
            if rng.random() < 0.4:
                E2 = np.cumsum(rng.uniform(0.15, 0.3, size=N)) + 0.11
                base = matrix_corr(rng, E2, Z, T, rel=1e-6)
            pr = _call(lambda: cin.prune(Nt, tproj=tproj, t0proj=t0) if base is None else cin.prune(Nt, tproj=tproj, t0proj=t0, basematrix=base))
            if isinstance(pr, Exception):
                cases.append({'id': 'prune-%04d' % i, 'ev': 'spectrum', 'what': 'prune raised ' + type(pr).__name__, 't0': t0, 'E': [rat(float(e)) for e in E[:1]], 'lam': [[{'k': 'x', 'x': 'nan'}]]})
                continue
            lam = []
            if Nt == 1:
                row = []
                for t in range(T):
                    it = pr.content[t]
                    row.append({'k': 'none'} if (it is None or t <= t0 or pr.content[t0] is None) else
                               {'k': 'x', 'x': ratx(float(np.asarray(it).ravel()[0].value) / float(np.asarray(pr.content[t0]).ravel()[0].value))})
                lam.append(row)
            else:
                for s in range(Nt):
                    ev = _call(lambda: pr.Eigenvalue(t0, state=s))
                    row = []
                    for t in range(T):
                        if isinstance(ev, Exception) or ev.content[t] is None or t <= t0:
                            row.append({'k': 'none'})
                        else:
                            row.append({'k': 'x', 'x': ratx(float(ev.content[t][0].value))})
                    if isinstance(ev, Exception):
                        row[t0 + 1] = {'k': 'x', 'x': 'nan'}
                    lam.append(row)
            cases.append({'id': 'prune-%04d-N%d-to%d%s' % (i, N, Nt, ('-asym' if asym_in else '') + ('-base' if base is not None else '')), 'ev': 'spectrum', 'what': 'pruned to %d states' % Nt, 't0': t0,
                          'E': [rat(float(e)) for e in E[:Nt]], 'lam': lam})
    return cases


def pencil_cases(rng, n, ctx):
    cases = []
    for i in range(n):
        K = int(rng.integers(1, 6))
        T = int(rng.integers(max(8, 2 * K), 25))
        E = np.cumsum(rng.uniform(0.25, 0.5, size=K))
        a = rng.uniform(0.5, 2.0, size=K)
        vals = [float(np.sum(a * np.exp(-E * t))) for t in range(T)]
        data = [mk(rng, v, rel=1e-7) for v in vals]
        # pencil parameter: the default, both admissible extremes (p = k, N - p = k) and anything between
        mode = ['def', 'lo', 'hi', 'mid'][i % 4]
        p = {'def': None, 'lo': K, 'hi': T - K, 'mid': int(rng.integers(K, T - K + 1))}[mode]
        r = _call(lambda: pe.mpm.matrix_pencil_method(data, k=K, p=p))
        res = {'k': 'exc', 't': type(r).__name__} if isinstance(r, Exception) else {'k': 'ok', 'E': [ratx(abs(float(o.value))) for o in r]}
        cases.append({'id': 'mpm-%04d-K%d-T%d-p%s' % (i, K, T, p), 'ev': 'pencil', 'E': [rat(float(e)) for e in E], 'res': res})
        ctx.nontrivial.add(('mpm', K, T, p))
    return cases


def run(ctx):
    rng = np.random.default_rng(ctx.seed)
    q = ctx.quick
    cases = gevp_cases(rng, 60 if q else 700, ctx, 4 if q else 5)
    cases += spectrum_cases(rng, 20 if q else 250, ctx, 4 if q else 5)
    cases += pencil_cases(rng, 24 if q else 400, ctx)
    ctx.validate('GevpTrace', cases, timeout=3000)
