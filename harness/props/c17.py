"""C17 - file readers return exactly the stored numbers at the right configurations.

(R/T) synthetic file sets are written by independent encoders (harness/writers, validated by re-encoding the repository's
      sample files byte-identically) for: openQCD reweighting factors 1.4 / 1.6 / 2.0, openQCD and sfqcd gradient-flow files,
      ms5_xsf, sfcf separate / compact / appended, Hadrons meson hdf5 - 1-3 replicas with distinct per-configuration numbers,
      arbitrary first configuration and spacing, replica indices with different digit counts.  They are read by real
      pyerrors under shuffled directory listings with range / stride / list / files / names selections; ReadTrace.tla
      computes Readers!Expected (replica name from the file name, configuration-number map, documented reduction,
      selection) and compares replica names, configuration lists and every number at 1e-12.
"""
import contextlib
import io
import os
import shutil

import numpy as np

import pyerrors as pe

from harness import tlc
from harness.jsonsafe import rat, ratx
from harness.pe_project import project_obs
from harness.writers import openqcd as w_oq, sfcf as w_sf, hadrons as w_hd

RULE = ('cases = (format x number of replicas x replica indices x first configuration x spacing x record count x reduction parameters x selection '
        'kind x listing order); non-trivial = more than one replica, or a selection, or a spacing / first configuration different from 1')
ASSUMPTIONS = ['prefixes contain no letter r (the readers cut the replica name at the first r of the file name)',
               'synthetic encoders re-encode the repository sample files byte-identically (harness/writers/selftest.py)',
               'openQCD family: equally spaced stored numbers (the readers reject irregular spacing)']


@contextlib.contextmanager
def shuffled_listing(rng, active=True):
    """the operating system may list directories in any order"""
    if not active:
        yield
        return
    real_listdir, real_walk = os.listdir, os.walk

    def listdir(p='.'):
        r = list(real_listdir(p))
        rng.shuffle(r)
        return r

    def walk(top, *a, **k):
        for dp, dn, fn in real_walk(top, *a, **k):
            dn2, fn2 = list(dn), list(fn)
            rng.shuffle(fn2)
            perm = list(dn2)
            rng.shuffle(perm)
            dn[:] = perm
            yield dp, dn, fn2
    os.listdir, os.walk = listdir, walk
    try:
        yield
    finally:
        os.listdir, os.walk = real_listdir, real_walk


def quiet(f):
    try:
        with np.errstate(all='ignore'), contextlib.redirect_stdout(io.StringIO()), contextlib.redirect_stderr(io.StringIO()):
            return f()
    except Exception as e:  # noqa: BLE001
        return e


def val(rep, cfg, slot):
    return 0.05 * rep + 1e-3 * cfg + 1e-6 * slot + 0.2


def valn(rep, cfg, slot):
    """as val, but without any linear structure in the slot (sums over permuted or shifted index sets must not coincide)"""
    h = np.sin(12.9898 * slot + 78.233 * cfg + 3.7 * rep) * 43758.5453
    return val(rep, cfg, 0) + 1e-2 * float(h - np.floor(h))


def rep_indices(rng):
    n = int(rng.integers(1, 4))
    pool = [1, 2, 3, 7, 10, 12]
    return sorted(rng.choice(pool, size=n, replace=False).tolist())


def cfg_lists(rng, idxs, nmin=5, nmax=12):
    out = {}
    for k in idxs:
        n = int(rng.integers(nmin, nmax + 1))
        step = int(rng.choice([1, 1, 2, 4, 10]))
        first = int(rng.choice([1, 1, 2, 5])) * step
        out[k] = [first + i * step for i in range(n)]
    return out


def res_series(objs):
    """list of observables -> tagged result"""
    if isinstance(objs, Exception):
        return {'k': 'exc', 't': type(objs).__name__}
    return {'k': 'series', 'obs': [project_obs(o) for o in objs]}


def selection(rng, fmt, reps_cfgs_mapped, allow_range=True):
    """a selection in mapped configuration numbers; returns (reader kwargs, sel record)"""
    kind = str(rng.choice(['all', 'all', 'range', 'range']))
    if kind == 'all' or not allow_range:
        return {}, {'k': 'all'}
    start, stop = [], []
    step = int(rng.choice([1, 1, 2]))
    for m in reps_cfgs_mapped:
        lo = int(rng.integers(0, max(1, len(m) - 6)))
        n_left = len(m) - lo
        hi_choices = [j for j in range(lo + step * 4, len(m))]
        hi = int(rng.choice(hi_choices)) if hi_choices else len(m) - 1
        if (hi - lo) // step + 1 < 5:
            lo, hi = 0, len(m) - 1
        start.append(m[lo])
        stop.append(m[hi])
    if any(((stop[i] - start[i]) // (step * (reps_cfgs_mapped[i][1] - reps_cfgs_mapped[i][0])) + 1) < 5 for i in range(len(start))):
        step = 1
    kw = {'r_start': list(start), 'r_stop': list(stop)}
    if step != 1:
        kw['r_step'] = step
    return kw, {'k': 'range', 'start': start, 'stop': stop, 'step': step * 1}


def mapped(fmt, stored):
    """the reader's documented configuration-number map (used only to PHRASE a selection; the expectation is computed by TLA+)"""
    s = stored
    if fmt == 'rwms':
        step = s[-1] - s[-2]
        m = [x // step for x in s]
        if m[0] > 1 and step > 1:
            m = [x - (m[0] - 1) for x in m]
        return m
    steps = s[1] - s[0]
    m = [x // steps for x in s]
    if m[0] > 1:
        m = [x - (m[0] - 1) for x in m]
    return m


def rwms_case(rng, i, tmp, ctx):
    version = ['1.4', '1.6', '2.0'][i % 3]
    idxs = rep_indices(rng)
    cl = cfg_lists(rng, idxs)
    nrw = int(rng.integers(1, 3))
    nfct = [1] * nrw if version == '1.4' else [int(rng.integers(1, 3)) for _ in range(nrw)]
    nsrc = [int(rng.integers(1, 4)) for _ in range(nrw)]
    replicas = {}
    for k in idxs:
        replicas[k] = [(cfg, [[[val(k, cfg, 100 * a + 10 * f + s) for s in range(nsrc[a])] for f in range(nfct[a])] for a in range(nrw)]) for cfg in cl[k]]
    d = os.path.join(tmp, 'rwms%d' % i)
    w_oq.write_rwms(d, 'ens', replicas, version, nfct, nsrc, postfix='ms1')
    kw, sel = selection(rng, 'rwms', [mapped('rwms', cl[k]) for k in idxs])
    how = str(rng.choice(['prefix', 'prefix', 'files', 'files_names']))
    shuffle = bool(rng.random() < 0.7)
    files = ['ensr%d.ms1.dat' % k for k in idxs]
    if how != 'prefix':
        order = list(range(len(files)))
        if len(files) > 1 and rng.random() < 0.7:
            # the caller lists the files in another order than the replica numbers: the data still belong to the name in the file name
            kw, sel = {}, {'k': 'all'}
            while order == list(range(len(files))):
                order = rng.permutation(len(files)).tolist()
        kw['files'] = [files[j] for j in order]
        if how == 'files_names':
            names = ['ens|r%d' % k for k in idxs]
            kw['names'] = [names[j] for j in order]
    with shuffled_listing(rng, shuffle):
        r = quiet(lambda: pe.input.openQCD.read_rwms(d, 'ens' if how == 'prefix' else '', version=version, postfix='ms1', **kw))
    reps = [{'stem': 'ensr%d' % k, 'recs': [{'cfg': cfg, 'p': [[[rat(x) for x in f] for f in a] for a in p]} for cfg, p in replicas[k]]} for k in idxs]
    cid = 'rwms-%04d-v%s-r%s-%s-%s%s' % (i, version, '_'.join(map(str, idxs)), sel['k'], how, '-shuf' if shuffle else '')
    ctx.nontrivial.add(('rwms', version, tuple(idxs), sel['k'], how, shuffle))
    return [{'id': cid, 'ev': 'read', 'fmt': 'rwms', 'reps': reps, 'par': {'none': 0}, 'sel': sel, 'res': res_series(r)}]


def qtop_case(rng, i, tmp, ctx):
    idxs = rep_indices(rng)
    cl = cfg_lists(rng, idxs)
    dn, nn, tmax = int(rng.choice([1, 2])), int(rng.integers(3, 6)), int(rng.integers(2, 5))
    L = 4
    eps = float(rng.choice([0.02, 0.01, 0.025]))
    n_target = int(rng.integers(0, nn + 1))
    c = float(np.sqrt(n_target * 8 * eps * dn) / L)
    replicas = {k: [(cfg, [[[val(k, cfg, 1000 * o + 10 * fl + t) for t in range(tmax)] for fl in range(nn + 1)] for o in range(3)]) for cfg in cl[k]] for k in idxs}
    d = os.path.join(tmp, 'ms%d' % i)
    w_oq.write_ms_openqcd(d, 'ens', replicas, dn, nn, tmax, eps)
    kw, sel = selection(rng, 'qtop', [mapped('qtop', cl[k]) for k in idxs])
    kw.pop('r_step', None)
    if sel['k'] == 'range':
        sel['step'] = 1
    shuffle = bool(rng.random() < 0.7)
    with shuffled_listing(rng, shuffle):
        r = quiet(lambda: pe.input.openQCD.read_qtop(d, 'ens', c, version='openQCD', L=L, **kw))
    reps = [{'stem': 'ensr%d' % k, 'recs': [{'cfg': cfg, 'p': [[rat(x) for x in row] for row in p[2]]} for cfg, p in replicas[k]]} for k in idxs]
    cid = 'qtop-%04d-r%s-n%d-%s%s' % (i, '_'.join(map(str, idxs)), n_target, sel['k'], '-shuf' if shuffle else '')
    ctx.nontrivial.add(('qtop', tuple(idxs), n_target, sel['k'], shuffle))
    return [{'id': cid, 'ev': 'read', 'fmt': 'qtop', 'reps': reps, 'par': {'c': rat(c), 'L': L, 'eps': rat(eps), 'dn': dn}, 'sel': sel,
             'res': res_series(r if isinstance(r, Exception) else [r])}]


def gfms_case(rng, i, tmp, ctx):
    idxs = rep_indices(rng)
    cl = cfg_lists(rng, idxs)
    ncs, tmax, L, cmax = int(rng.integers(2, 7)), 5, 4, float(rng.choice([0.4, 0.5, 0.3]))
    zeuthen = bool(rng.random() < 0.5)
    j = int(rng.integers(0, ncs + 1))
    c = cmax / ncs * j
    replicas = {k: [(cfg, [[[[val(k, cfg, 1000 * jj + 100 * f + 10 * o + t) for t in range(tmax)] for o in range(8)] for f in range(2)] for jj in range(ncs + 1)])
                    for cfg in cl[k]] for k in idxs}
    d = os.path.join(tmp, 'gfms%d' % i)
    w_oq.write_gfms_sfqcd(d, 'ens', replicas, ncs, tmax, 2, L, 1e-7, cmax)
    kw, sel = selection(rng, 'gfms', [mapped('gfms', cl[k]) for k in idxs])
    kw.pop('r_step', None)
    if sel['k'] == 'range':
        sel['step'] = 1
    shuffle = bool(rng.random() < 0.7)
    with shuffled_listing(rng, shuffle):
        r = quiet(lambda: pe.input.openQCD.read_qtop(d, 'ens', c, version='sfqcd', Zeuthen_flow=zeuthen, **kw))
    reps = [{'stem': 'ensr%d' % k, 'recs': [{'cfg': cfg, 'p': [[[[rat(x) for x in o] for o in f] for f in jj] for jj in p]} for cfg, p in replicas[k]]} for k in idxs]
    cid = 'gfms-%04d-r%s-c%d-%s-%s%s' % (i, '_'.join(map(str, idxs)), j, 'zeuthen' if zeuthen else 'wilson', sel['k'], '-shuf' if shuffle else '')
    ctx.nontrivial.add(('gfms', tuple(idxs), j, zeuthen, sel['k'], shuffle))
    return [{'id': cid, 'ev': 'read', 'fmt': 'gfms', 'reps': reps, 'par': {'c': rat(c), 'cmax': rat(cmax), 'ncs': ncs, 'zeuthen': zeuthen}, 'sel': sel,
             'res': res_series(r if isinstance(r, Exception) else [r])}]


MS5 = ['gS', 'gP', 'gA', 'gV', 'gVt', 'lA', 'lV', 'lVt', 'lT', 'lTt', 'g1', 'l1']


def ms5_case(rng, i, tmp, ctx):
    idxs = sorted(rng.choice([1, 2, 3, 7, 10, 12], size=int(rng.integers(1, 4)), replace=False).tolist())      # replica numbers with differing digit counts
    cl = {k: [int(f) for f in np.cumsum(rng.integers(1, 4, size=int(rng.integers(5, 10)))) + int(rng.integers(0, 20))] for k in idxs}
    tmax = int(rng.integers(2, 5))
    corr = MS5[int(rng.integers(0, len(MS5)))]
    qc = str(rng.choice(['dd', 'ud']))
    replicas = {}
    for k in idxs:
        recs = []
        for cfg in cl[k]:
            p = {}
            for ci, name in enumerate(MS5):
                T = 1 if name in ('g1', 'l1') else tmax
                p[name] = [(val(k, cfg, 100 * ci + 2 * t), val(k, cfg, 100 * ci + 2 * t + 1)) for t in range(T)]
            recs.append((cfg, p))
        replicas[k] = recs
    d = os.path.join(tmp, 'ms5%d' % i)
    w_oq.write_ms5_xsf(d, 'ens', replicas, qc, tmax)
    kw, sel = {}, {'k': 'all'}
    if rng.random() < 0.5:
        idl = []
        for k in idxs:
            keep = sorted(rng.choice(len(cl[k]), size=max(5, len(cl[k]) - 2) if len(cl[k]) > 5 else len(cl[k]), replace=False).tolist())
            idl.append([cl[k][j] for j in keep])
        kw['idl'] = idl
        sel = {'k': 'list', 'idl': idl}
    shuffle = bool(rng.random() < 0.7)
    with shuffled_listing(rng, shuffle):
        r = quiet(lambda: pe.input.openQCD.read_ms5_xsf(d, 'ens', qc, corr, **kw))
    if isinstance(r, Exception):
        objs = r
    elif isinstance(r, pe.Corr):
        objs = []
        for t in range(r.T):
            z = r.content[t][0]
            objs += [z.real, z.imag]
    else:
        objs = [r.real, r.imag]
    reps = [{'stem': 'ensr%d' % k, 'recs': [{'cfg': cfg, 'p': [[rat(re), rat(im)] for re, im in p[corr]]} for cfg, p in replicas[k]]} for k in idxs]
    cid = 'ms5-%04d-r%s-%s-%s-%s%s' % (i, '_'.join(map(str, idxs)), qc, corr, sel['k'], '-shuf' if shuffle else '')
    ctx.nontrivial.add(('ms5', tuple(idxs), corr, sel['k'], shuffle))
    return [{'id': cid, 'ev': 'read', 'fmt': 'ms5', 'reps': reps, 'par': {'none': 0}, 'sel': sel, 'res': res_series(objs)}]


def sfcf_case(rng, i, tmp, ctx):
    version = ['1.0', '2.0', '1.0c', '2.0c', '1.0a', '2.0a'][i % 6]
    appended = version.endswith('a')
    idxs = rep_indices(rng)
    cl = {k: [int(f) for f in np.cumsum(rng.integers(1, 4, size=int(rng.integers(5, 9)))) + int(rng.integers(0, 20))] for k in idxs}
    T = int(rng.integers(2, 5))
    specs = [w_sf.bi('f_A', wf=0), w_sf.bi('f_A', wf=1), w_sf.bb('f_1', wf=0, wf2=0), w_sf.bb('f_1', wf=0, wf2=1)]
    which = int(rng.integers(0, len(specs)))
    spec = specs[which]
    replicas = {}
    for k in idxs:
        recs = []
        for cfg in cl[k]:
            corrs = {}
            for si, s in enumerate(specs):
                TT = 1 if s.corr_type == 'bb' else T
                corrs[tuple(s)] = [(val(k, cfg, 100 * si + 2 * t), val(k, cfg, 100 * si + 2 * t + 1)) for t in range(TT)]
            recs.append((cfg, corrs))
        replicas['tst_r%d' % k] = recs
    d = os.path.join(tmp, 'sfcf%d' % i)
    w_sf.write_sfcf(d, replicas, version)
    im = bool(rng.random() < 0.4)
    shuffle = bool(rng.random() < 0.7)
    kw = {'im': im} if im else {}
    sel = {'k': 'all'}
    if not appended and rng.random() < 0.45:
        # an explicit selection of configuration files / directories per replica, handed over in arbitrary order
        files, want = [], []
        for k in idxs:
            keep = sorted(rng.choice(len(cl[k]), size=int(rng.integers(5, len(cl[k]) + 1)) if len(cl[k]) > 5 else len(cl[k]), replace=False).tolist())
            cfgs = [cl[k][j] for j in keep]
            want.append(list(cfgs))
            fl = [('tst_r%d_n%d' % (k, c)) if version.endswith('c') else ('cfg%d' % c) for c in cfgs]
            rng.shuffle(fl)
            files.append(fl)
        kw['files'] = files
        sel = {'k': 'list', 'idl': want}
    if not appended and rng.random() < 0.3:
        reps_arg = ['tst_r%d' % k for k in idxs]
        rng.shuffle(reps_arg)
        if 'files' not in kw:
            kw['replica'] = reps_arg
    par = {'im': im}
    if rng.random() < 0.3:
        kw['ens_name'] = 'E'                   # the caller states the ensemble name; the replica part still comes from the file / directory name
        par['ens_name'] = 'E'
    with shuffled_listing(rng, shuffle):
        r = quiet(lambda: pe.input.sfcf.read_sfcf(d, 'tst', spec.name, quarks=spec.quarks, corr_type=spec.corr_type, noffset=spec.offset, wf=spec.wf,
                                                   wf2=spec.wf2 or 0, version=version, silent=True, **kw))
    objs = r if isinstance(r, Exception) else list(r)
    reps = [{'stem': 'tst_r%d' % k, 'recs': [{'cfg': cfg, 'p': [[rat(re), rat(im_)] for re, im_ in corrs[tuple(spec)]]} for cfg, corrs in replicas['tst_r%d' % k]]} for k in idxs]
    cid = 'sfcf-%04d-v%s-r%s-%s-wf%d%d-%s-%s%s%s' % (i, version, '_'.join(map(str, idxs)), spec.name, spec.wf, spec.wf2 or 0, 'im' if im else 're', sel['k'],
                                                  '-replica' if 'replica' in kw else '', '-shuf' if shuffle else '')
    ctx.nontrivial.add(('sfcf', version, tuple(idxs), which, im, shuffle, sel['k'], 'replica' in kw))
    return [{'id': cid + ('-ensname' if 'ens_name' in par else ''), 'ev': 'read', 'fmt': 'sfcf', 'reps': reps, 'par': par, 'sel': sel, 'res': res_series(objs)}]


def hd5_case(rng, i, tmp, ctx):
    n = int(rng.integers(5, 12))
    step = int(rng.choice([1, 2, 5]))
    first = int(rng.integers(1, 30))
    cfgs = [first + j * step for j in range(n)]
    T = int(rng.integers(2, 6))
    configs = {cfg: [complex(val(1, cfg, 2 * t), val(1, cfg, 2 * t + 1)) for t in range(T)] for cfg in cfgs}
    d = os.path.join(tmp, 'hd%d' % i)
    grow = bool(rng.random() < 0.4)
    if grow:
        # the directory as it was while the simulation was still running: read once, then the remaining configurations arrive
        w_hd.write_meson_hd5(d, 'mes', {cfg: configs[cfg] for cfg in cfgs[:max(2, n // 2)]})
        quiet(lambda: pe.input.hadrons.read_meson_hd5(d, 'mes', 'ensH', 'meson_0'))
        w_hd.write_meson_hd5(d, 'mes', {cfg: configs[cfg] for cfg in cfgs[max(2, n // 2):]})
    else:
        w_hd.write_meson_hd5(d, 'mes', configs)
    kw, sel = {}, {'k': 'all'}
    if rng.random() < 0.5:
        keep = sorted(rng.choice(n, size=max(5, n - 3) if n > 5 else n, replace=False).tolist())
        idl = [cfgs[j] for j in keep]
        kw['idl'] = idl if rng.random() < 0.7 or len(set(np.diff(idl))) > 1 else range(idl[0], idl[-1] + 1, idl[1] - idl[0])
        sel = {'k': 'list', 'idl': [list(kw['idl'])]}
    shuffle = bool(rng.random() < 0.7)
    with shuffled_listing(rng, shuffle):
        r = quiet(lambda: pe.input.hadrons.read_meson_hd5(d, 'mes', 'ensH', 'meson_0', **kw))
    objs = r if isinstance(r, Exception) else [r.content[t][0] for t in range(r.T)]
    reps = [{'stem': 'mes', 'recs': [{'cfg': cfg, 'p': [[rat(z.real), rat(z.imag)] for z in configs[cfg]]} for cfg in cfgs]}]
    cid = 'hd5-%04d-n%d-s%d-%s%s%s' % (i, n, step, sel['k'], '-shuf' if shuffle else '', '-grown' if grow else '')
    ctx.nontrivial.add(('hd5', n, step, sel['k'], shuffle))
    return [{'id': cid, 'ev': 'read', 'fmt': 'hd5', 'reps': reps, 'par': {'im': False, 'ens_id': 'ensH'}, 'sel': sel, 'res': res_series(objs)}]


def t0_case(rng, i, tmp, ctx):
    """fit_t0: the root of the straight line fitted to `fit_range` points on either side of the zero crossing, wherever the crossing lies
    (also within fit_range points of the end of the measured flow times)"""
    K = int(rng.integers(8, 16))
    fr = int(rng.integers(1, 4))
    xs = [float(np.round(0.1 * (k + 1) * float(rng.choice([1.0, 1.0, 2.5])), 4)) for k in range(K)]
    xs = sorted(set(xs))
    K = len(xs)
    where = str(rng.choice(['middle', 'end', 'end', 'start']))
    zc = K - int(rng.integers(1, fr + 1)) if where == 'end' else int(rng.integers(1, fr + 1)) if where == 'start' else int(rng.integers(fr, K - fr))
    zc = min(max(zc, 1), K - 1)          # within fit_range points of either end as well
    troot = 0.5 * (xs[zc - 1] + xs[zc]) + 0.2 * (xs[zc] - xs[zc - 1]) * float(rng.uniform(-1, 1))
    slope, curv = float(rng.uniform(0.5, 2.0)), float(rng.uniform(0.0, 0.3))
    d = {}
    for x in xs:
        v = slope * (x - troot) + curv * (x - troot) ** 2 * (1 if x > troot else -1)
        d[x] = pe.pseudo_Obs(v, float(rng.uniform(0.01, 0.05)) * (abs(v) + 0.05), 'flow|r1', samples=30)
    r = quiet(lambda: pe.input.misc.fit_t0(d, fr))
    ys = list(d.values())
    [o.gamma_method() for o in ys]
    res = {'k': 'exc', 't': type(r).__name__} if isinstance(r, Exception) else {'k': 'ok', 'v': ratx(float(r.value))}
    ctx.nontrivial.add(('t0', K, fr, where))
    return [{'id': 't0-%04d-K%d-fr%d-%s' % (i, K, fr, where), 'ev': 'fit_t0', 'fmt': 't0', 'x': [rat(x) for x in xs], 'y': [rat(float(o.value)) for o in ys],
             'dy': [rat(float(o.dvalue)) for o in ys], 'fr': fr, 'res': res}]


LORENTZ_PAIRS = None


def _lorentz_pairs():
    """the 32 (gammaA, gammaB) labels of a FourQuarkFullyConnected file (10 vertex families), in a shuffled but fixed order"""
    global LORENTZ_PAIRS
    if LORENTZ_PAIRS is None:
        ax = ['X', 'Y', 'Z', 'T']
        pairs = []
        for a in (False, True):
            for b in (False, True):
                pairs += [('Gamma' + i + 'Gamma5' * a, 'Gamma' + i + 'Gamma5' * b) for i in ax]
        pairs += [(u, v) for u in ('Identity', 'Gamma5') for v in ('Identity', 'Gamma5')]
        sig = ['Sigma' + ax[i] + ax[j] for i in range(4) for j in range(i + 1, 4)]
        pairs += [(s_, s_) for s_ in sig]
        pairs += [(sig[k], sig[5 - k]) for k in range(6)]
        LORENTZ_PAIRS = pairs
    return LORENTZ_PAIRS


BILINEAR_GAMMAS = ['Identity', 'Gamma5', 'GammaX', 'GammaY', 'GammaZ', 'GammaT', 'GammaXGamma5', 'GammaYGamma5', 'GammaZGamma5', 'GammaTGamma5',
                   'SigmaXY', 'SigmaXZ', 'SigmaXT', 'SigmaYZ', 'SigmaYT', 'SigmaZT']


def _hd_cfgs(rng):
    n = int(rng.integers(5, 10))
    step = int(rng.choice([1, 2, 5]))
    first = int(rng.integers(1, 30))
    return [first + j * step for j in range(n)]


def _hd_selection(rng, cfgs):
    n = len(cfgs)
    if rng.random() < 0.5:
        return {}, {'k': 'all'}
    keep = sorted(rng.choice(n, size=max(5, n - 2) if n > 5 else n, replace=False).tolist())
    idl = [cfgs[j] for j in keep]
    arg = idl if rng.random() < 0.7 or len(set(np.diff(idl))) > 1 else range(idl[0], idl[-1] + 1, idl[1] - idl[0])
    return {'idl': arg}, {'k': 'list', 'idl': [list(arg)]}


def _cobs_list(m):
    out = []
    for idx in np.ndindex(m.shape):
        out += [m[idx].real, m[idx].imag]
    return out


def _mat(shape, cfg, base):
    n = int(np.prod(shape))
    return np.array([complex(valn(1, cfg, base + 2 * e), valn(1, cfg, base + 2 * e + 1)) for e in range(n)]).reshape(shape)


def _prec_mat(a, b, m):
    return {'a': a, 'b': b, 'm': [[rat(z.real), rat(z.imag)] for z in m.reshape(-1)]}


def hdmat_case(rng, i, tmp, ctx):
    """ExternalLeg / Bilinear / FourQuarkFullyConnected: matrices of complex observables, one file per configuration"""
    kind = ['leg', 'bilinear', 'fourquark'][i % 3]
    cfgs = _hd_cfgs(rng)
    d = os.path.join(tmp, 'hm%d' % i)
    kw, sel = _hd_selection(rng, cfgs)
    shuffle = bool(rng.random() < 0.7)
    out = []
    if kind == 'leg':
        shape = (2, 2, 1, 2) if rng.random() < 0.7 else (4, 4, 3, 3)
        stored = {cfg: [('leg', '', _mat(shape, cfg, 0))] for cfg in cfgs}
        w_hd.write_externalleg_hd5(d, 'npr', {cfg: stored[cfg][0][2] for cfg in cfgs})
        with shuffled_listing(rng, shuffle):
            r = quiet(lambda: pe.input.hadrons.read_ExternalLeg_hd5(d, 'npr', 'ensH', **kw))
        wants = [({'k': 'leg'}, r if isinstance(r, Exception) else _cobs_list(r))]
    elif kind == 'bilinear':
        shape = (2, 1, 1, 2)
        order = list(BILINEAR_GAMMAS)
        rng.shuffle(order)
        stored = {cfg: [(g, '', _mat(shape, cfg, 20 * k)) for k, g in enumerate(order)] for cfg in cfgs}
        w_hd.write_bilinear_hd5(d, 'npr', {cfg: [m for _, _, m in stored[cfg]] for cfg in cfgs}, order)
        with shuffled_listing(rng, shuffle):
            r = quiet(lambda: pe.input.hadrons.read_Bilinear_hd5(d, 'npr', 'ensH', **kw))
        pick = [str(g) for g in rng.choice(order, size=3, replace=False)]
        wants = [({'k': 'bilinear', 'gamma': g}, r if isinstance(r, Exception) else (_cobs_list(r[g]) if g in r else KeyError(g))) for g in pick]
    else:
        shape = (1, 2, 1, 1, 2, 1, 1, 1)
        order = list(_lorentz_pairs())
        rng.shuffle(order)
        stored = {cfg: [(a, b, _mat(shape, cfg, 10 * k)) for k, (a, b) in enumerate(order)] for cfg in cfgs}
        w_hd.write_fourquark_hd5(d, 'npr', {cfg: [m for _, _, m in stored[cfg]] for cfg in cfgs}, order)
        verts = [str(v) for v in rng.choice(['VV', 'VA', 'AV', 'AA', 'SS', 'SP', 'PS', 'PP', 'TT', 'TTtilde'], size=3, replace=False)]
        with shuffled_listing(rng, shuffle):
            r = quiet(lambda: pe.input.hadrons.read_Fourquark_hd5(d, 'npr', 'ensH', vertices=verts, **kw))
        wants = [({'k': 'fourquark', 'vertex': v}, r if isinstance(r, Exception) else (_cobs_list(r[v]) if v in r else KeyError(v))) for v in verts]
    reps = [{'stem': 'npr', 'recs': [{'cfg': cfg, 'p': [_prec_mat(a, b, m) for a, b, m in stored[cfg]]} for cfg in cfgs]}]
    for want, objs in wants:
        cid = 'hd5mat-%04d-%s-n%d-%s%s' % (i, '-'.join(str(v) for v in want.values()), len(cfgs), sel['k'], '-shuf' if shuffle else '')
        ctx.nontrivial.add(('hd5mat',) + tuple(want.values()) + (sel['k'], shuffle))
        out.append({'id': cid, 'ev': 'read', 'fmt': 'hd5mat', 'reps': reps, 'par': {'ens_id': 'ensH', 'want': want}, 'sel': sel, 'res': res_series(objs)})
    return out


def hddist_case(rng, i, tmp, ctx):
    """DistillationContraction: one directory per configuration, one file per meson field combination, all source times averaged"""
    cfgs = _hd_cfgs(rng)
    nt = int(rng.integers(3, 6))
    d = os.path.join(tmp, 'hx%d' % i)
    diagrams = ['direct', 'triangle'] if rng.random() < 0.5 else ['direct']
    stems = {'mfA': ['x/pi_n1_a_b.h5', 'x/pi_n2_c_d.h5', 'rho_n0_e_f.h5', 'rho_n3_g_h.h5'],
             'mfB': ['x/pi_n1_a_b.h5', 'x/pi_n2_c_d.h5', 'rho_n0_Identity_f.h5', 'rho_n3_g_h.h5']}
    if rng.random() < 0.5:
        del stems['mfB']
    data = {cfg: {st: {dg: np.array([[complex(valn(1 + k, cfg, 100 * q + 2 * (x0 * nt + t)), valn(1 + k, cfg, 100 * q + 2 * (x0 * nt + t) + 1)) for t in range(nt)]
                                     for x0 in range(nt)]) for q, dg in enumerate(diagrams)} for k, st in enumerate(stems)} for cfg in cfgs}
    w_hd.write_distillation_hd5(d, data, stems, nt, diagrams=diagrams)
    kw, sel = _hd_selection(rng, cfgs)
    shuffle = bool(rng.random() < 0.7)
    with shuffled_listing(rng, shuffle):
        r = quiet(lambda: pe.input.hadrons.read_DistillationContraction_hd5(d, 'ensH', diagrams=diagrams, **kw))
    out = []
    for k, st in enumerate(stems):
        pieces = [f.split('/')[-1].replace('.h5', '').split('_') for f in stems[st]]
        ident = str(tuple((q[0], q[1][1:], q[2], q[3]) for q in pieces))      # the label the reader derives from the meson field file names
        for dg in diagrams:
            im = dg == 'triangle' and 'Identity' not in ident
            if isinstance(r, Exception):
                objs = r
            elif ident not in r or dg not in r[ident]:
                objs = KeyError(ident)
            else:
                objs = [r[ident][dg].content[t][0] for t in range(r[ident][dg].T)]
            reps = [{'stem': 'data', 'recs': [{'cfg': cfg, 'p': [[[rat(z.real), rat(z.imag)] for z in row] for row in data[cfg][st][dg]]} for cfg in cfgs]}]
            cid = 'hd5dist-%04d-%s-%s-nt%d-n%d-%s%s' % (i, st, dg, nt, len(cfgs), sel['k'], '-shuf' if shuffle else '')
            ctx.nontrivial.add(('hd5dist', st, dg, nt, sel['k'], shuffle))
            out.append({'id': cid, 'ev': 'read', 'fmt': 'hd5dist', 'reps': reps, 'par': {'ens_id': 'ensH', 'im': bool(im)}, 'sel': sel, 'res': res_series(objs)})
    return out


def hdflow_case(rng, i, tmp, ctx):
    """extract_t0_hd5: the flow scale from FlowObservables files = fit_t0 of (flow time, t^2 E - 0.3) built from the stored numbers"""
    cfgs = _hd_cfgs(rng)
    K = int(rng.integers(8, 14))
    fr = int(rng.integers(1, 4))
    ft = [round(0.1 * (k + 1), 4) for k in range(K)]
    troot = {obs: float(rng.uniform(ft[fr], ft[K - 2])) for obs in ('Plaquette energy density', 'Clover energy density')}
    slope = float(rng.uniform(0.5, 2.0))
    data = {cfg: {obs: [0.3 + slope * (t - troot[obs]) * (1 + 0.05 * float(rng.normal())) + 0.01 * float(rng.normal()) for t in ft] for obs in troot} for cfg in cfgs}
    d = os.path.join(tmp, 'hf%d' % i)
    w_hd.write_flowobs_hd5(d, 'flow', data, ft)
    obs = str(rng.choice(list(troot)))
    kw, sel = _hd_selection(rng, cfgs)
    shuffle = bool(rng.random() < 0.7)
    with shuffled_listing(rng, shuffle):
        r = quiet(lambda: pe.input.hadrons.extract_t0_hd5(d, 'flow', 'ensH', obs=obs, fit_range=fr, **kw))
    use = list(kw['idl']) if kw else cfgs
    ys = [pe.Obs([np.array([data[cfg][obs][k] for cfg in use])], ['ensH'], idl=[use]) - 0.3 for k in range(K)]
    [o.gamma_method() for o in ys]
    res = {'k': 'exc', 't': type(r).__name__} if isinstance(r, Exception) else {'k': 'ok', 'v': ratx(float(r.value))}
    ctx.nontrivial.add(('hd5flow', K, fr, obs, sel['k']))
    return [{'id': 'hd5flow-%04d-K%d-fr%d-%s-%s' % (i, K, fr, obs.split()[0], sel['k']), 'ev': 'fit_t0', 'fmt': 't0', 'x': [rat(x) for x in ft],
             'y': [rat(float(o.value)) for o in ys], 'dy': [rat(float(o.dvalue)) for o in ys], 'fr': fr, 'res': res}]


def msE_case(rng, i, tmp, ctx):
    """the flowed action density of openQCD ms.dat files (what extract_t0 / extract_w0 are built on): for every flow time an observable
    of the timeslice average between xmin and tmax - xmin, per spatial volume"""
    idxs = rep_indices(rng)
    cl = cfg_lists(rng, idxs)
    dn, nn, tmax = int(rng.choice([1, 2])), int(rng.integers(2, 5)), int(rng.integers(4, 8))
    L = int(rng.choice([2, 4]))
    eps = float(rng.choice([0.02, 0.01, 0.025]))
    xmin = int(rng.integers(0, (tmax - 1) // 2 + 1))
    plaq = bool(rng.random() < 0.4)
    replicas = {k: [(cfg, [[[valn(k, cfg, 1000 * o + 10 * fl + t) for t in range(tmax)] for fl in range(nn + 1)] for o in range(3)]) for cfg in cl[k]] for k in idxs}
    d = os.path.join(tmp, 'mse%d' % i)
    w_oq.write_ms_openqcd(d, 'ens', replicas, dn, nn, tmax, eps)
    kw, sel = selection(rng, 'qtop', [mapped('qtop', cl[k]) for k in idxs])
    if sel['k'] == 'range':
        sel['step'] = int(kw.get('r_step', 1))
    if plaq:
        kw['plaquette'] = True
    shuffle = bool(rng.random() < 0.7)
    with shuffled_listing(rng, shuffle):
        r = quiet(lambda: pe.input.openQCD._extract_flowed_energy_density(d, 'ens', 1, xmin, L, **kw))
    if isinstance(r, Exception):
        objs = r
    else:
        keys = sorted(r)
        objs = [r[t] for t in keys] if np.allclose(keys, [n * dn * eps for n in range(nn + 1)]) else KeyError('flow times')
    blk = 0 if plaq else 1
    reps = [{'stem': 'ensr%d' % k, 'recs': [{'cfg': cfg, 'p': [[rat(x) for x in row] for row in p[blk]]} for cfg, p in replicas[k]]} for k in idxs]
    cid = 'msE-%04d-r%s-x%d-T%d-%s-%s%s' % (i, '_'.join(map(str, idxs)), xmin, tmax, 'plaq' if plaq else 'clover', sel['k'], '-shuf' if shuffle else '')
    ctx.nontrivial.add(('msE', tuple(idxs), xmin, plaq, sel['k'], shuffle))
    cases = [{'id': cid, 'ev': 'read', 'fmt': 'msE', 'reps': reps, 'par': {'xmin': xmin, 'L': L}, 'sel': sel, 'res': res_series(objs)}]
    if sel['k'] == 'all' and i % 2 == 0:
        # history: the same unchanged files are read again and again in one process while the keyword that keeps the configuration numbers of the
        # file (no shift to 1) comes and goes - every read is judged on its own
        for j, th in enumerate(('F', 'D', 'F')):
            kw2 = dict(kw, assume_thermalization=False) if th == 'F' else dict(kw)
            r2 = quiet(lambda: pe.input.openQCD._extract_flowed_energy_density(d, 'ens', 1, xmin, L, **kw2))
            objs2 = r2 if isinstance(r2, Exception) else [r2[t] for t in sorted(r2)]
            par2 = {'xmin': xmin, 'L': L, 'nothermal': 1} if th == 'F' else {'xmin': xmin, 'L': L}
            cases.append({'id': '%s-again%d%s' % (cid, j + 1, th), 'ev': 'read', 'fmt': 'msE', 'reps': reps, 'par': par2, 'sel': sel, 'res': res_series(objs2)})
    return cases


def mst0_case(rng, i, tmp, ctx):
    """extract_t0 / extract_w0 from ms.dat files: fit_t0 of t^2 E - c, or of t d/dt (t^2 E) - c (one-sided differences at the ends) and a
    square root, of the action density built from the stored numbers"""
    which = ['t0', 'w0'][i % 2]
    idxs = rep_indices(rng)[:2]
    cl = cfg_lists(rng, idxs, nmin=8, nmax=14)
    dn, nn, tmax, L = 1, int(rng.integers(8, 13)), int(rng.integers(4, 7)), 2
    eps = float(rng.choice([0.02, 0.05]))
    xmin = int(rng.integers(0, 2))
    fr = int(rng.integers(1, 3))
    cc = float(rng.choice([0.3, 0.3, 2.0 / 3.0]))
    ft = [n * dn * eps for n in range(nn + 1)]
    troot = float(rng.uniform(ft[fr + 1], ft[nn - 1]))
    a = cc / troot ** 2 if which == 't0' else cc / (2 * troot ** 2)          # E(t) = a: t^2 E = a t^2, t d/dt (t^2 E) = 2 a t^2
    replicas = {k: [(cfg, [[[L ** 3 * a * (1 + 0.03 * float(rng.normal())) for t in range(tmax)] for fl in range(nn + 1)] for o in range(3)]) for cfg in cl[k]] for k in idxs}
    d = os.path.join(tmp, 'mst%d' % i)
    w_oq.write_ms_openqcd(d, 'ens', replicas, dn, nn, tmax, eps)
    shuffle = bool(rng.random() < 0.7)
    f = pe.input.openQCD.extract_t0 if which == 't0' else pe.input.openQCD.extract_w0
    with shuffled_listing(rng, shuffle):
        r = quiet(lambda: f(d, 'ens', 1, xmin, L, fit_range=fr, c=cc))
    names = ['ens|r%d' % k for k in idxs]
    idl = [mapped('qtop', cl[k]) for k in idxs]
    E = [pe.Obs([np.array([np.mean(p[1][n][xmin:tmax - xmin]) for _, p in replicas[k]]) for k in idxs], names, idl=idl) / L ** 3 for n in range(nn + 1)]
    t2E = [ft[n] ** 2 * E[n] for n in range(nn + 1)]
    if which == 't0':
        ys = [o - cc for o in t2E]
    else:
        ys = [ft[0] * (t2E[1] - t2E[0]) / (ft[1] - ft[0]) - cc]
        ys += [ft[n] * (t2E[n + 1] - t2E[n - 1]) / (ft[n + 1] - ft[n - 1]) - cc for n in range(1, nn)]
        ys += [ft[nn] * (t2E[nn] - t2E[nn - 1]) / (ft[nn] - ft[nn - 1]) - cc]
    [o.gamma_method() for o in ys]
    res = {'k': 'exc', 't': type(r).__name__} if isinstance(r, Exception) else {'k': 'ok', 'v': ratx(float(r.value))}
    ctx.nontrivial.add(('mst0', which, nn, fr, tuple(idxs)))
    return [{'id': 'ms%s-%04d-nn%d-fr%d-r%s%s' % (which, i, nn, fr, '_'.join(map(str, idxs)), '-shuf' if shuffle else ''), 'ev': 'fit_t0', 'fmt': 't0', 'x': [rat(x) for x in ft],
             'y': [rat(float(o.value)) for o in ys], 'dy': [rat(float(o.dvalue)) for o in ys], 'fr': fr, 'sqrt': which == 'w0', 'res': res}]


def pbp_case(rng, i, tmp, ctx):
    """read_pbp: the layout of the 1.6 reweighting files with two blocks per factor, of which the second is averaged; configurations by position"""
    idxs = rep_indices(rng)
    cl = cfg_lists(rng, idxs)
    nrw = int(rng.integers(1, 3))
    nfct = [int(rng.integers(1, 3)) for _ in range(nrw)]
    nsrc = [int(rng.integers(1, 4)) for _ in range(nrw)]
    replicas = {k: [(cfg, [[([valn(k, cfg, 100 * a + 10 * f + s_) for s_ in range(nsrc[a])], [valn(k, cfg, 500 + 100 * a + 10 * f + s_) for s_ in range(nsrc[a])])
                            for f in range(nfct[a])] for a in range(nrw)]) for cfg in cl[k]] for k in idxs}
    d = os.path.join(tmp, 'pbp%d' % i)
    w_oq.write_pbp(d, 'ens', replicas, nfct, nsrc)
    kw, sel = {}, {'k': 'all'}
    if rng.random() < 0.5:
        start = [int(rng.integers(0, 3)) for _ in idxs]                        # 0 = from the first record
        stop = [len(cl[k]) - int(rng.integers(0, 2)) for k in idxs]
        if all(stop[j] - max(start[j], 1) + 1 >= 5 for j in range(len(idxs))):
            kw = {'r_start': list(start), 'r_stop': list(stop)}
            sel = {'k': 'range', 'start': start, 'stop': stop, 'step': 1}
    shuffle = bool(rng.random() < 0.7)
    with shuffled_listing(rng, shuffle):
        r = quiet(lambda: pe.input.misc.read_pbp(d, 'ens', **kw))
    reps = [{'stem': 'ensr%d' % k, 'recs': [{'cfg': cfg, 'p': [[[[rat(x) for x in blk] for blk in f] for f in a] for a in p]} for cfg, p in replicas[k]]} for k in idxs]
    cid = 'pbp-%04d-r%s-%s%s' % (i, '_'.join(map(str, idxs)), sel['k'], '-shuf' if shuffle else '')
    ctx.nontrivial.add(('pbp', tuple(idxs), sel['k'], shuffle))
    return [{'id': cid, 'ev': 'read', 'fmt': 'pbp', 'reps': reps, 'par': {'none': 0}, 'sel': sel, 'res': res_series(r)}]


MAKERS = [rwms_case, qtop_case, gfms_case, ms5_case, sfcf_case, hd5_case, t0_case, hdmat_case, hddist_case, hdflow_case, msE_case, mst0_case, pbp_case]




def run(ctx):
    rng = np.random.default_rng(ctx.seed)
    tmp = tlc.scratch('verif.c17.')
    cases = []
    try:
        n = 30 if ctx.quick else 200
        for mk in MAKERS:
            for i in range(n):
                cases += mk(rng, i, tmp, ctx)
    finally:
        shutil.rmtree(tmp, ignore_errors=True)
    ctx.sample({'ids': [c['id'] for c in cases[:6]]})
    ctx.sample({'fileset': {'fmt': cases[0]['fmt'], 'replica_stems': [r['stem'] for r in cases[0]['reps']], 'stored_numbers': [[x['cfg'] for x in r['recs']] for r in cases[0]['reps']]}})
    ctx.validate('ReadTrace', cases, timeout=3000)
