"""C01 - linear error propagation is exact and aligned by configuration number.

(M) MC_Split: TLC explores all layout triples and checks on the specification that Derive does not depend on how a
    sum is split whenever the operands share their replica sets or their per-replica configuration sets.
(T) random expression trees over the overloaded operators and the 15 functions are evaluated by real pyerrors
    - step by step with the operators, and in one step by derived_observable with autograd / num_grad / man_grad,
    scalar and array mode, complex operands - and every result is validated by DeriveTrace.tla against
    ObsCore!Derive with the analytic gradient of Expr.tla (symbolic differentiation inside TLC).
"""
import numpy as np
import autograd.numpy as anp
from autograd import jacobian

import pyerrors as pe

from harness import gen
from harness.jsonsafe import rat
from harness.frames import snap, frame_event
from harness.pe_project import project_any, project_obs, project_exc

RULE = ('cases = (expression tree | operator-table entry | complex expression | array-mode function) x layout class x evaluation mode; '
        'distinct = different (expression, layout, mode); non-trivial = result carries at least one Monte-Carlo chain or covariance input')
ASSUMPTIONS = ['operand values inside the domain of f with a margin; fluctuations small against that margin',
               'TLC, the Java rational kernel (BigInteger) and java.lang.Math as oracle of elementary functions',
               'num_grad compared at 1e-6, everything else at 1e-9 relative']


def _operands(rng, cls, k, with_cov=False, zero_ok=False):
    lays = gen.operand_layouts(rng, cls, k)
    ops = []
    for lay in lays:
        mean = float(np.round(rng.uniform(0.5, 2.2), 3)) * (1 if rng.random() < 0.85 else -1)
        ops.append(gen.make_obs(rng, lay, mean=mean, sigma=float(rng.uniform(0.01, 0.04)), tau=float(rng.choice([0, 0, 2.0]))))
        if zero_ok and rng.random() < 0.1:
            ops[-1] = ops[-1] - ops[-1].value          # fluctuates around a central value that is exactly zero
    if with_cov:
        dim = int(rng.integers(1, 4))
        a = rng.normal(size=(dim, dim))
        cov = a @ a.T + 0.1 * np.eye(dim)
        cov = (cov + cov.T) / 2
        means = [float(np.round(rng.uniform(0.6, 1.8), 3)) for _ in range(dim)]
        cl = pe.cov_Obs(means, cov * 1e-3, 'covA')
        if dim == 1:
            cl = [cl]
        shared = rng.random() < 0.6
        j = int(rng.integers(0, len(ops)))
        ops[j] = ops[j] * 0 + cl[0] if rng.random() < 0.3 else cl[0]      # pure covobs operand (or with zero MC part)
        if shared and len(ops) > 1:
            j2 = (j + 1) % len(ops)
            ops[j2] = ops[j2] + cl[-1]
        elif len(ops) > 1 and rng.random() < 0.5:
            j2 = (j + 1) % len(ops)
            ops[j2] = ops[j2] * pe.cov_Obs(1.3, 0.02 ** 2, 'covB')
    return ops


def _case(cid, evname, mode, expr, ops, res):
    return {'id': cid, 'ev': evname, 'mode': mode, 'expr': gen.strip(expr), 'ops': [project_obs(o) for o in ops], 'res': res}


def _call(f):
    try:
        with np.errstate(all='ignore'):
            return project_any(f())
    except Exception as e:  # noqa: BLE001 - the error path is part of the observable behaviour
        return project_exc(e)


def expr_cases(rng, n, ctx, tag, classes=None, with_cov_frac=0.25):
    cases = []
    classes = classes or gen.LAYOUT_CLASSES
    i = 0
    attempts = 0
    while sum(1 for c in cases if c['ev'] != 'frame') < n and attempts < 20 * n:
        attempts += 1
        cls = classes[i % len(classes)]
        k = int(rng.integers(1, 4))
        if cls == 'replica_subset_gapped':
            k = max(k, 2)
        with_cov = rng.random() < with_cov_frac
        ops = _operands(rng, cls, k, with_cov, zero_ok=True)
        vals = [float(o.value) for o in ops]
        e = gen.random_expr(rng, k, vals, depth=int(rng.integers(1, 4)))
        if e is None:
            continue
        i += 1
        modes = ['step', 'auto', 'num', 'man']
        mode = modes[int(rng.integers(0, len(modes)))] if rng.random() < 0.6 else 'step'
        if with_cov and mode == 'num':
            mode = 'auto'
        cid = '%s-%04d-%s-%s' % (tag, i, cls, mode)
        before = snap(ops)

        def f(x, **kw):
            return gen.ev(e, x, anp)

        if mode == 'step':
            res = _call(lambda: gen.ev(e, ops, np))
        elif mode == 'auto':
            res = _call(lambda: pe.derived_observable(f, ops))
        elif mode == 'num':
            res = _call(lambda: pe.derived_observable(f, ops, num_grad=True))
        else:
            grad = jacobian(lambda x: gen.ev(e, x, anp))(np.array(vals))
            res = _call(lambda: pe.derived_observable(f, ops, man_grad=list(np.asarray(grad).reshape(-1))))
        cases.append(_case(cid, 'expr', mode, e, ops, res))
        if i % 3 == 0:
            cases.append(frame_event(cid + '-frame', 'the operands of an expression are left as they were', before, ops))
        ctx.nontrivial.add((gen.expr_str(e), cls, mode))
        ctx.sample({'id': cid, 'expression': gen.expr_str(e), 'layout_class': cls, 'mode': mode,
                    'operand_chains': [[(c['name'], c['idl'][:4] + ['...'] if len(c['idl']) > 4 else c['idl']) for c in project_obs(o)['chains']] for o in ops]})
    return cases


def table_cases(rng, ctx, classes):
    """operator x partner type x operand position, and every elementary function, on one layout class each"""
    cases = []
    n = 0
    for cls in classes:
        for op in gen.BINARY:
            for partner in ('obs', 'int', 'float', 'ndarray'):
                for pos in ('left', 'right'):
                    n += 1
                    ops = _operands(rng, cls, 2 if partner == 'obs' else 1)
                    ops = [abs(o) if float(o.value) < 0 else o for o in ops]       # keep ** inside its domain
                    cvals = [int(rng.integers(2, 4)), float(np.round(rng.uniform(1.2, 2.4), 3))]
                    if partner == 'obs':
                        e = gen.node(op, gen.var(1), gen.var(2)) if pos == 'left' else gen.node(op, gen.var(2), gen.var(1))
                        if op == 'pow' and gen.safe(e, [float(o.value) for o in ops]) is None:
                            continue
                        cid = 'tab-%03d-%s-%s-%s-%s' % (n, cls, op, partner, pos)
                        cases.append(_case(cid, 'expr', 'step', e, ops, _call(lambda: gen.ev(e, ops, np))))
                    elif partner == 'ndarray':
                        arr = np.array(cvals[1:] + [float(cvals[0])])
                        pyop = {'add': lambda a, b: a + b, 'sub': lambda a, b: a - b, 'mul': lambda a, b: a * b,
                                'div': lambda a, b: a / b, 'pow': lambda a, b: a ** b}[op]
                        if op == 'pow':
                            continue      # Obs ** ndarray is not an elementwise overload in pyerrors (not claimed)
                        try:
                            out = pyop(ops[0], arr) if pos == 'left' else pyop(arr, ops[0])
                            outs = list(out) if isinstance(out, np.ndarray) else [out] * len(arr)
                        except Exception as ex:  # noqa: BLE001
                            outs = [ex] * len(arr)
                        for j, c in enumerate(arr):
                            ce = gen.const(float(c))
                            e = gen.node(op, gen.var(1), ce) if pos == 'left' else gen.node(op, ce, gen.var(1))
                            cid = 'tab-%03d-%s-%s-%s-%s-%d' % (n, cls, op, partner, pos, j)
                            res = project_exc(outs[j]) if isinstance(outs[j], Exception) else project_any(outs[j])
                            cases.append(_case(cid, 'expr', 'step', e, ops, res))
                    else:
                        c = cvals[0] if partner == 'int' else cvals[1]
                        ce = gen.const(c)
                        e = gen.node(op, gen.var(1), ce) if pos == 'left' else gen.node(op, ce, gen.var(1))
                        cid = 'tab-%03d-%s-%s-%s-%s' % (n, cls, op, partner, pos)
                        cases.append(_case(cid, 'expr', 'step', e, ops, _call(lambda: gen.ev(e, ops, np))))
        for fn in gen.UNARY:
            n += 1
            for _ in range(30):
                ops = _operands(rng, cls, 1)
                e = gen.node(fn, gen.var(1))
                if gen.safe(e, [float(ops[0].value)]) is not None:
                    break
            else:
                ops = [ops[0] * 0 + (1.7 if fn == 'arccosh' else 0.45)]
            cid = 'tab-%03d-%s-%s' % (n, cls, fn)
            cases.append(_case(cid, 'expr', 'step', e, ops, _call(lambda: gen.ev(e, ops, np))))
    for c in cases:
        ctx.nontrivial.add(c['id'].split('-', 2)[2])
    return cases


# ------------------------------------------------------------------------------------------------ complex
def _cev(e, leaves):
    op = e['op']
    if op in ('cvar', 'rvar'):
        return leaves[e['leaf']]
    if op == 'cconst':
        return e['py']
    if op == 'const':
        return e['py']
    a = _cev(e['a'][0], leaves)
    if op == 'neg':
        return -a
    if op == 'conj':
        return a.conjugate()
    b = _cev(e['a'][1], leaves)
    return {'add': lambda: a + b, 'sub': lambda: a - b, 'mul': lambda: a * b, 'div': lambda: a / b}[op]()


def complex_cases(rng, n, ctx, classes):
    """complex observables with complex / real observables and complex / real numbers, both operand orders"""
    cases = []
    i = 0
    while len(cases) < n:
        i += 1
        cls = classes[i % len(classes)]
        same = rng.random() < 0.85
        lays = gen.operand_layouts(rng, cls if not same else 'multi_replica' if rng.random() < 0.3 else 'same', 4)
        if same:
            lays = [lays[0]] * 4
        real_obs = [gen.make_obs(rng, lay, mean=float(np.round(rng.uniform(0.6, 2.0), 3)), sigma=0.03) for lay in lays]
        # a part whose central value is exactly zero still fluctuates (a purely real or purely imaginary mean says nothing about the fluctuations)
        # (operator x operand kinds x which part is centred at zero) rotate deterministically: 4 x 5 x 3 = 60 combinations, every one of
        # them within any 60 consecutive cases
        for q in ((), (1,), (3,))[i % 3]:
            real_obs[q] = real_obs[q] - real_obs[q].value
        # leaves: 0 = CObs(o1, o2), 1 = CObs(o3, o4) or real Obs o3, plus numbers
        leafs = []
        exprs = []
        lk = ['cc', 'cr', 'cnum', 'cnumr', 'rcnum'][i % 5]
        A = pe.CObs(real_obs[0], real_obs[1])
        eA = {'op': 'cvar', 're': 1, 'im': 2, 'leaf': 0}
        zc = complex(float(np.round(rng.uniform(0.5, 2), 2)), float(np.round(rng.uniform(0.5, 2), 2)) * (1 if rng.random() < 0.5 else -1))
        if i % 20 in (7, 17, 9, 14, 19):
            # a complex number is a complex number however small its parts are in absolute terms (with a complex and with a real observable, under - * /)
            zc = complex(float(np.round(rng.uniform(1, 5), 2)) * 1e-9, float(np.round(rng.uniform(1, 5), 2)) * 1e-9 * (1 if rng.random() < 0.5 else -1))
        zr = float(np.round(rng.uniform(0.5, 2), 2))
        if lk == 'cc':
            Bv, eB, ops = pe.CObs(real_obs[2], real_obs[3]), {'op': 'cvar', 're': 3, 'im': 4, 'leaf': 1}, real_obs
        elif lk == 'cr':
            Bv, eB, ops = real_obs[2], {'op': 'rvar', 'i': 3, 'leaf': 1}, real_obs[:3]
        elif lk == 'cnum':
            Bv, eB, ops = zc, {'op': 'cconst', 're': rat(zc.real), 'im': rat(zc.imag), 'py': zc}, real_obs[:2]
        elif lk == 'cnumr':
            Bv, eB, ops = zr, {'op': 'cconst', 're': rat(zr), 'im': '0', 'py': zr}, real_obs[:2]
        else:  # real observable with a complex number
            A, eA = real_obs[0], {'op': 'rvar', 'i': 1, 'leaf': 0}
            Bv, eB, ops = zc, {'op': 'cconst', 're': rat(zc.real), 'im': rat(zc.imag), 'py': zc}, real_obs[:1]
        tiny = i % 20 == 10                       # (lk = 'cc', op = 'mul' there)
        if tiny:
            # a real observable promoted to a complex one (imaginary part the plain number 0.0) times a complex observable whose imaginary part
            # is small in absolute terms (8e-11) - small is not zero
            real_obs[3] = (real_obs[3] + (0.0 if abs(real_obs[3].value) > 0.1 else 1.0))
            real_obs[3] = real_obs[3] * (8e-11 / abs(float(real_obs[3].value)))           # below the 1e-10 at which the library's is_zero() gives up
            A, eA = real_obs[0] + 0j, {'op': 'rvar', 'i': 1, 'leaf': 0}
            Bv, eB, ops = pe.CObs(real_obs[2], real_obs[3]), {'op': 'cvar', 're': 2, 'im': 3, 'leaf': 1}, [real_obs[0], real_obs[2], real_obs[3]]
        leaves = [A, Bv]
        op = ['add', 'sub', 'mul', 'div'][(i // 5) % 4]
        # the operand centred at zero is the right-hand one in the first round of 60, the left-hand one in the next, and so on
        zero_on = i % 3
        pos = str(rng.choice(['left', 'right'])) if zero_on == 0 else ['right', 'left'][((zero_on == 2) + (i // 60)) % 2]
        if tiny:
            pos = 'left'
        e = {'op': op, 'a': [eA, eB] if pos == 'left' else [eB, eA]}
        if rng.random() < 0.25 and lk != 'rcnum':
            e = {'op': str(rng.choice(['neg', 'conj'])), 'a': [e]}
        cid = 'cx-%04d-%s-%s-%s-%s' % (i, cls if not same else 'same', lk, op, pos)
        res = _call(lambda: _cev(e, leaves))
        cases.append({'id': cid, 'ev': 'cexpr', 'mode': 'step', 'expr': gen.strip(e), 'ops': [project_obs(o) for o in ops], 'res': res})
        ctx.nontrivial.add(('cx', lk, op, pos, same))
    return cases


# ------------------------------------------------------------------------------------------------ array mode
def array_cases(rng, n, ctx, classes):
    """vector-valued functions of a 2 x k array of observables through derived_observable with and without
    array_mode (the path the matrix operations use); one case per output entry"""
    cases = []
    i = 0
    while len(cases) < n:
        i += 1
        cls = classes[i % len(classes)]
        k2 = int(rng.integers(1, 3))
        k = 2 * k2
        ops = _operands(rng, cls, k, with_cov=rng.random() < 0.4)
        data = np.array(ops, dtype=object).reshape(2, k2, 1)      # array_mode contracts two axes per block: a list of matrices
        m = int(rng.integers(1, 4))
        M = np.round(rng.uniform(-2, 2, size=(m, k)), 2)
        kind = str(rng.choice(['lin', 'quad']))
        amode = bool(rng.random() < 0.6)

        def f(x, **kw):
            y = anp.array(M) @ anp.reshape(x, (k,))
            return y if kind == 'lin' else y * x[0, 0, 0]

        try:
            out = pe.derived_observable(f, data, array_mode=amode)
            outs = list(np.asarray(out).reshape(-1))
        except Exception as ex:  # noqa: BLE001
            outs = [ex] * m
        for j in range(m):
            e = None
            for c in range(k):
                term = gen.node('mul', gen.const(float(M[j, c])), gen.var(c + 1))
                e = term if e is None else gen.node('add', e, term)
            if kind == 'quad':
                e = gen.node('mul', e, gen.var(1))
            res = project_exc(outs[j]) if isinstance(outs[j], Exception) else project_any(outs[j])
            cid = 'arr-%04d-%s-%s-%s-%d' % (i, cls, kind, 'array' if amode else 'scalar', j)
            cases.append(_case(cid, 'expr', 'auto', e, ops, res))
        ctx.nontrivial.add(('arr', cls, kind, amode, m, k))
    return cases


def twin_cases(rng, n, ctx):
    """successive operations on irregular lists that agree in length, first and last configuration but differ in between
    (nothing computed for one pair may be reused for its twin)"""
    cases = []
    for i in range(n):
        L = int(rng.integers(6, 12))
        first, last = int(rng.integers(1, 5)), int(rng.integers(30, 40))

        def irregular():
            inner = sorted(rng.choice(np.arange(first + 1, last), size=L - 2, replace=False).tolist())
            return [first] + [int(x) for x in inner] + [last]
        def sumtwin(lst):
            """another list with the same length, first, last entry AND the same sum (two inner entries moved by +1 / -1)"""
            out = list(lst)
            for a in range(1, len(out) - 1):
                for b in range(len(out) - 2, a, -1):
                    if out[a] + 1 not in out and out[b] - 1 not in out and out[a] + 1 < out[b] - 1:
                        out[a], out[b] = out[a] + 1, out[b] - 1
                        return sorted(out)
            return out
        pairs = [(irregular(), irregular()) for _ in range(2)]
        pairs.append((sumtwin(pairs[1][0]), sumtwin(pairs[1][1])))
        for j, (ia, ib) in enumerate(pairs):
            a = gen.make_obs(rng, [('A|r1', ia)], mean=1.3, sigma=0.03)
            b = gen.make_obs(rng, [('A|r1', ib)], mean=0.8, sigma=0.03)
            e = gen.node('add', gen.var(1), gen.node('mul', gen.var(1), gen.var(2)))
            res = _call(lambda: gen.ev(e, [a, b], np))
            cases.append(_case('twin-%03d-%d' % (i, j), 'expr', 'step', e, [a, b], res))
            ctx.nontrivial.add(('twin', i, j))
    return cases


def run(ctx):
    rng = np.random.default_rng(ctx.seed)
    q = ctx.quick
    # (M) the design-level theorem the property relies on
    ctx.model('MC_Split', cfg='MC_Split_small.cfg' if q else 'MC_Split.cfg', timeout=1800)
    ctx.model('MC_Split', cfg='MC_Split_neg.cfg', expect_violation=True)   # non-vacuity: without the side condition the claim fails
    classes = gen.LAYOUT_CLASSES
    cases = []
    cases += expr_cases(rng, 160 if q else 1500, ctx, 'ex')
    cases += table_cases(rng, ctx, classes[:3] if q else classes)
    cases += complex_cases(rng, 60 if q else 500, ctx, classes)
    cases += array_cases(rng, 70 if q else 500, ctx, classes)
    cases += twin_cases(rng, 8 if q else 80, ctx)
    ctx.validate('DeriveTrace', cases)
