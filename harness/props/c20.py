"""C20 - constant tables and special-function derivatives are mathematically exact.

(R, exhaustive) Gen_Dirac: TLC enumerates all 125 + 625 index tuples and the 16 Grid tags plus unknown tags; each is
    evaluated by real pyerrors.dirac and judged by DiracTrace.tla (permutation sign / rejection; tag = stated product or
    commutator of the dumped base matrices; Clifford algebra, Hermiticity, gamma5 on the dumped arrays - exact
    Gaussian-rational arithmetic inside TLC).
(T) K_n applied to observables for n = 0..6 on a grid in (0.05, 20): value and propagated derivative against
    -(K_{n-1}+K_{n+1})/2 evaluated by the kernel's integral representation; re-exported special functions: propagated
    gradient against the Richardson-extrapolated central difference of the function's own scipy values.
"""
import json
import os
import shutil

import numpy as np
import scipy.special

import pyerrors as pe

from harness import gen, tlc
from harness.jsonsafe import rat, ratx
from harness.pe_project import project_obs, project_any, project_exc

RULE = ('cases = every index tuple of {0..4}^3 and {0..4}^4, every Grid tag and 5 unknown tags (exhaustive), K_n for n=0..6 on an x grid, '
        're-exported special functions on argument grids; non-trivial = tuples inside the domain with non-zero sign, and all function cases')
ASSUMPTIONS = ['K_n oracle: trapezoidal evaluation of the integral representation in double precision (Java), compared at 1e-9',
               're-exported functions: derivative oracle is a 3-level Richardson extrapolation of scipy\'s own values, compared at 1e-6']


def cmat(a):
    return [[{'re': rat(float(np.real(x))), 'im': rat(float(np.imag(x)))} for x in row] for row in np.asarray(a)]


def table_cases(ctx):
    d = tlc.scratch('verif.gen.')
    try:
        out = os.path.join(d, 'dirac.ndjson')
        r = tlc.run_tlc('Gen_Dirac', cfg='Gen_Dirac.cfg', workers=1, timeout=600, env={'OUT_FILE': out})
        if r['error'] or r['assumption_failed'] or not os.path.exists(out):
            raise tlc.MachineryError('Gen_Dirac failed: ' + r['out'][-2000:])
        ctx.model_runs.append({'module': 'Gen_Dirac', 'ok': True, 'wall_s': round(r['wall_s'], 1)})
        g = [cmat(m) for m in pe.dirac.gamma]
        g5 = cmat(pe.dirac.gamma5)
        cases = [{'id': 'matrices', 'ev': 'matrices', 'gamma': g, 'gamma5': g5, 'identity': cmat(pe.dirac.identity)}]
        with open(out) as f:
            for line in f:
                c = json.loads(line)
                if c['ev'] == 'eps':
                    t = c['t']
                    try:
                        v = pe.dirac.epsilon_tensor(*t) if len(t) == 3 else pe.dirac.epsilon_tensor_rank4(*t)
                        c['res'] = {'k': 'num', 'v': ratx(float(v))}
                    except Exception as e:  # noqa: BLE001
                        c['res'] = {'k': 'exc', 't': type(e).__name__}
                    if c['res']['k'] == 'num' and c['res']['v'] != '0':
                        ctx.nontrivial.add(tuple(t))
                else:
                    first = None
                    try:
                        first = pe.dirac.Grid_gamma(c['tag'])
                        c['res'] = {'k': 'matrix', 'm': cmat(first)}
                    except Exception as e:  # noqa: BLE001
                        c['res'] = {'k': 'exc', 't': type(e).__name__}
                    c['gamma'], c['gamma5'] = g, g5
                    ctx.nontrivial.add(c['tag'])
                    if first is not None:
                        # the table is a table: asking again gives the same matrix, and the one handed out before is not touched
                        c2 = dict(c)
                        c2['id'] = c['id'] + '-again'
                        try:
                            c2['res'] = {'k': 'matrix', 'm': cmat(pe.dirac.Grid_gamma(c['tag']))}
                        except Exception as e:  # noqa: BLE001
                            c2['res'] = {'k': 'exc', 't': type(e).__name__}
                        c3 = dict(c)
                        c3['id'] = c['id'] + '-first-after'
                        c3['res'] = {'k': 'matrix', 'm': cmat(first)}
                        cases.append(c2)
                        cases.append(c3)
                        # the matrix handed out belongs to the caller: scaling it in place does not change what the table says afterwards
                        try:
                            first *= 2.0
                            first += 1.0
                        except Exception:  # noqa: BLE001   (a read-only array is a fine answer as well)
                            pass
                        c4 = dict(c)
                        c4['id'] = c['id'] + '-after-the-caller-changed-its-copy'
                        try:
                            c4['res'] = {'k': 'matrix', 'm': cmat(pe.dirac.Grid_gamma(c['tag']))}
                        except Exception as e:  # noqa: BLE001
                            c4['res'] = {'k': 'exc', 't': type(e).__name__}
                        cases.append(c4)
                cases.append(c)
        ctx.exhaustive = True
        ctx.sample({'tuple': cases[1]['t'], 'result': cases[1]['res']})
        return cases
    finally:
        shutil.rmtree(d, ignore_errors=True)


def _x_obs(rng, x, cov=None):
    if (rng.random() < 0.3) if cov is None else cov:
        return pe.cov_Obs(float(x), (0.01 * x) ** 2, 'xcov')
    lay = gen.operand_layouts(rng, str(rng.choice(['same', 'multi_replica', 'gapped'])), 1)[0]
    o = gen.make_obs(rng, lay, mean=1.0, sigma=0.02)
    return o * float(x) / float(o.value)


def kn_cases(rng, ctx, xs):
    cases = []
    kept = []
    for n in range(0, 7):
        for x in xs:
            xo = _x_obs(rng, x)
            kept.append((n, x, xo))
            try:
                r = pe.derived_observable(lambda v, **kw: pe.special.kn(n, v[0]), [xo])
                res = project_any(r)
            except Exception as e:  # noqa: BLE001
                res = project_exc(e)
            e = {'op': 'kn', 'n': n, 'a': [{'op': 'var', 'i': 1}]}
            cases.append({'id': 'kn-%d-%.4g' % (n, x), 'ev': 'expr', 'mode': 'auto', 'expr': e, 'ops': [project_obs(xo)], 'res': res})
            ctx.nontrivial.add(('kn', n, float(x)))
        # elementwise on a vector of observables, next to another term of the same vector: component j of kn(n, x) + x
        xv = [_x_obs(rng, x) for x in xs[:3]]
        try:
            rv = pe.derived_observable(lambda v, **kw: pe.special.kn(n, v) + v, xv)
            outs = [project_any(o) for o in rv]
        except Exception as e:  # noqa: BLE001
            outs = [project_exc(e)] * len(xv)
        for j in range(len(xv)):
            ej = {'op': 'add', 'a': [{'op': 'kn', 'n': n, 'a': [{'op': 'var', 'i': j + 1}]}, {'op': 'var', 'i': j + 1}]}
            cases.append({'id': 'knv-%d-%d' % (n, j), 'ev': 'expr', 'mode': 'auto', 'expr': ej, 'ops': [project_obs(o) for o in xv], 'res': outs[j]})
    # history: a long session - several hundred other evaluations of K_n at other orders and arguments - and then the first requests once more, on
    # the very same observables: K_n(x) and its derivative are functions of n and x, whatever was evaluated in between
    for n in range(0, 9):
        for x in np.linspace(0.11, 9.7, 40):
            pe.special.kn(n, float(x))
    for x in np.linspace(0.2, 5.0, 12):
        xo = _x_obs(rng, float(x))
        for n in range(0, 7):
            pe.derived_observable(lambda v, **kw: pe.special.kn(n, v[0]), [xo])
    for n, x, xo in kept:
        try:
            res = project_any(pe.derived_observable(lambda v, **kw: pe.special.kn(n, v[0]), [xo]))
        except Exception as e:  # noqa: BLE001
            res = project_exc(e)
        cases.append({'id': 'kn-again-%d-%.4g' % (n, x), 'ev': 'expr', 'mode': 'auto', 'expr': {'op': 'kn', 'n': n, 'a': [{'op': 'var', 'i': 1}]},
                      'ops': [project_obs(xo)], 'res': res})
    return cases


SPECIAL = [
    ('j0', lambda s, x: s.j0(x), (0.2, 8.0)), ('y0', lambda s, x: s.y0(x), (0.3, 8.0)), ('j1', lambda s, x: s.j1(x), (0.2, 8.0)),
    ('y1', lambda s, x: s.y1(x), (0.3, 8.0)), ('jn2', lambda s, x: s.jn(2, x), (0.3, 8.0)), ('yn2', lambda s, x: s.yn(2, x), (0.5, 8.0)),
    ('i0', lambda s, x: s.i0(x), (0.1, 4.0)), ('i1', lambda s, x: s.i1(x), (0.1, 4.0)), ('iv1.5', lambda s, x: s.iv(1.5, x), (0.3, 4.0)),
    ('ive1.5', lambda s, x: s.ive(1.5, x), (0.3, 4.0)), ('beta_a', lambda s, x: s.beta(x, 1.7), (0.4, 4.0)), ('beta_b', lambda s, x: s.beta(2.2, x), (0.4, 4.0)),
    ('betainc_x', lambda s, x: s.betainc(1.5, 2.5, x), (0.1, 0.9)), ('betaln_a', lambda s, x: s.betaln(x, 1.3), (0.4, 4.0)),
    ('polygamma1', lambda s, x: s.polygamma(1, x), (0.4, 5.0)), ('psi', lambda s, x: s.psi(x), (0.4, 5.0)), ('digamma', lambda s, x: s.digamma(x), (0.4, 5.0)),
    ('gamma', lambda s, x: s.gamma(x), (0.4, 4.0)), ('gammaln', lambda s, x: s.gammaln(x), (0.4, 5.0)), ('gammainc_x', lambda s, x: s.gammainc(1.8, x), (0.2, 5.0)),
    ('gammaincc_x', lambda s, x: s.gammaincc(1.8, x), (0.2, 5.0)), ('rgamma', lambda s, x: s.rgamma(x), (0.4, 4.0)),
    ('multigammaln', lambda s, x: s.multigammaln(x, 2), (1.2, 5.0)),
    # every integer order near the boundary of the recurrences (J_{-1} = -J_1, Y_{-1} = -Y_1, I_{-1} = I_1)
    ('jn0', lambda s, x: s.jn(0, x), (0.3, 8.0)), ('jn1', lambda s, x: s.jn(1, x), (0.3, 8.0)), ('jn3', lambda s, x: s.jn(3, x), (0.3, 8.0)),
    ('yn0', lambda s, x: s.yn(0, x), (0.5, 8.0)), ('yn1', lambda s, x: s.yn(1, x), (0.5, 8.0)), ('yn3', lambda s, x: s.yn(3, x), (0.8, 8.0)),
    ('iv0', lambda s, x: s.iv(0, x), (0.1, 4.0)), ('iv1', lambda s, x: s.iv(1, x), (0.1, 4.0)), ('iv0.5', lambda s, x: s.iv(0.5, x), (0.3, 4.0)),
    ('iv3', lambda s, x: s.iv(3, x), (0.3, 4.0)), ('ive0', lambda s, x: s.ive(0, x), (0.1, 4.0)), ('ive1', lambda s, x: s.ive(1, x), (0.1, 4.0)),
    ('polygamma0', lambda s, x: s.polygamma(0, x), (0.4, 5.0)), ('polygamma2', lambda s, x: s.polygamma(2, x), (0.4, 5.0)),
    ('multigammaln1', lambda s, x: s.multigammaln(x, 1), (0.4, 5.0)), ('multigammaln3', lambda s, x: s.multigammaln(x, 3), (1.4, 5.0)),
    ('erf', lambda s, x: s.erf(x), (-2.0, 2.0)), ('erfc', lambda s, x: s.erfc(x), (-2.0, 2.0)), ('erfinv', lambda s, x: s.erfinv(x), (-0.8, 0.8)),
    ('erfcinv', lambda s, x: s.erfcinv(x), (0.2, 1.8)), ('logit', lambda s, x: s.logit(x), (0.1, 0.9)), ('expit', lambda s, x: s.expit(x), (-3.0, 3.0)),
]


def special_cases(rng, ctx, npts):
    cases = []
    for name, f, (lo, hi) in SPECIAL:
        for j, x in enumerate(np.linspace(lo, hi, npts + 2)[1:-1]):
            x = float(x)
            xo = _x_obs(rng, x, cov=(j % 3 == 2))          # two Monte-Carlo arguments, then one covariance input, in turn
            x = float(xo.value)
            h = 0.02 * max(1e-2, min(abs(x), hi - x, x - lo, 1.0))
            try:
                fv = [float(f(scipy.special, x + sgn * hh)) for hh in (h, h / 2, h / 4) for sgn in (-1, 1)]
                f0 = float(f(scipy.special, x))
            except Exception:  # noqa: BLE001
                continue
            try:
                r = pe.derived_observable(lambda v, **kw: f(pe.special, v[0]), [xo])
                if isinstance(r, np.ndarray) and r.size == 1:       # some scipy wrappers return a 0-d / 1-element array for a scalar
                    r = r.reshape(-1)[0]
                res = project_any(r)
            except Exception as e:  # noqa: BLE001
                res = project_exc(e)
            cases.append({'id': 'sp-%s-%.4g' % (name, x), 'ev': 'richardson', 'x': project_obs(xo), 'h': rat(h), 'f': [ratx(v) for v in fv],
                          'f0': ratx(f0), 'res': res})
            ctx.nontrivial.add(('sp', name, round(x, 6)))
    return cases


def run(ctx):
    rng = np.random.default_rng(ctx.seed)
    q = ctx.quick
    cases = table_cases(ctx)
    xs = [0.06, 0.3, 1.0, 2.5, 7.3, 19.5] if q else list(np.round(np.geomspace(0.051, 19.9, 40), 5))
    cases += kn_cases(rng, ctx, xs)
    cases += special_cases(rng, ctx, 3 if q else 20)
    ctx.sample({'kn_case': cases[-1]['id'] if cases else None})
    ctx.validate('DiracTrace', cases)
