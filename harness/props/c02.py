"""C02 - the Gamma-method error estimate equals Wolff's estimator on every chain layout.

(M) MC_Gamma: TLC enumerates configuration lists and small integer data words and checks on Gamma!AnalyseEns
    the facts the property states for every input: tau_int >= 1/2, squares >= 0, 1 <= W <= w_max-1,
    S = 0 => W = 0 and the naive variance, pair counts >= 1.
(T) real gamma_method calls on 1-3 ensembles x 1-3 replicas, every list class, white / autocorrelated /
    constant / alternating data, S / tau_exp / N_sigma as argument, dictionary or global, fft on and off,
    covariance inputs mixed in - each validated by GammaTrace.tla against the exact rational estimator.
"""
import numpy as np

import pyerrors as pe

from harness import gen
from harness.jsonsafe import rat
from harness.pe_project import project_obs, project_analysis, project_exc

RULE = ('cases = gamma_method calls on generated observables (ensembles x replicas x list class x data kind x length) with '
        'parameter values from {0, 1/2, 1, 2, 3.5, 6} x {0, 1, 5, 20} x {0, 1, 2} passed as argument / dictionary / global, fft on/off; '
        'non-trivial = at least 5 configurations with non-constant data')
ASSUMPTIONS = ['replicas of an ensemble lie on a grid with a common spacing (the stated domain); other layouts are skipped',
               'a case whose windowing criterion |g(W)| < 1e-9 or whose tail criterion is within 1e-8 of a tie is skipped, never judged',
               'squares of the reported errors are compared with exact rationals at 2e-9 relative']

S_VALUES = [0, 0.5, 1, 2, 2.0, 3.5, 6]
TEXP_VALUES = [0, 0, 0, 1, 5, 20, 2.5]
NSIG_VALUES = [0, 1, 1, 2, 1.5]


def ens_layout(rng, ename, nrep, nmin=5, nmax=60, bare=False):
    """replicas of one ensemble sharing a common spacing"""
    g = int(rng.choice([1, 1, 2, 3]))
    chains = []
    for r in range(nrep):
        n = int(rng.integers(nmin, nmax + 1))
        cls = str(rng.choice(['contig', 'strided', 'gapped', 'gapped', 'blocks'])) if nrep == 1 and rng.random() < 0.5 else str(rng.choice(['contig', 'strided', 'gapped', 'gapped']))
        first = int(rng.integers(1, 40))
        mult = int(rng.choice([1, 1, 2]))
        if cls == 'contig':
            idl = range(first, first + n * g, g)
        elif cls == 'strided':
            idl = range(first, first + n * g * mult, g * mult)
        elif cls == 'blocks':
            # two stretches with a hole so wide that whole ranges of lags below w_max are realised by no pair of configurations
            n1 = max(3, n // 2)
            hole = int(rng.integers(3, 7)) * n
            idl = [first + g * p for p in range(n1)] + [first + g * (n1 + hole + p) for p in range(n - n1)]
        else:
            m = n + int(rng.integers(1, n + 1))
            keep = sorted(rng.choice(np.arange(m), size=n, replace=False).tolist())
            lst = [first + g * mult * p for p in keep]
            d = np.diff(lst)
            idl = range(lst[0], lst[-1] + int(d[0]), int(d[0])) if len(set(d)) == 1 else lst
        name = ename if (bare and nrep == 1) else '%s|r%d' % (ename, r + 1)
        chains.append((name, idl))
    return chains


def make_observable(rng, nmax=60, force_texp_ok=False):
    nens = int(rng.choice([1, 1, 1, 2, 3]))
    parts = []
    for e in range(nens):
        ename = ['A', 'Bens', 'c_3'][e]
        nrep = int(rng.choice([1, 1, 2, 3]))
        lay = ens_layout(rng, ename, nrep, nmin=9 if force_texp_ok else 5, nmax=nmax, bare=rng.random() < 0.3)
        kind = str(rng.choice(['normal', 'normal', 'ar', 'ar', 'const', 'alternating', 'ints']))
        tau = float(rng.choice([0.5, 2, 5, 20])) if kind == 'ar' else 0.0
        samples = []
        for name, idl in lay:
            n = len(idl)
            if kind == 'ints':
                samples.append(rng.integers(-1, 2, n).astype(float) + (0.0 if rng.random() < 0.5 else 1.0))
            elif kind == 'const':
                samples.append(np.full(n, 1.5))
            else:
                samples.append(gen.chain_data(rng, n, mean=float(rng.uniform(-2, 2)), sigma=float(10 ** rng.uniform(-3, 1)), tau=tau,
                                              kind='alternating' if kind == 'alternating' else 'normal'))
        if kind in ('ints',) and all(np.all(s == s[0]) for s in samples):
            samples[0][0] += 1.0
        parts.append((pe.Obs(samples, [n for n, _ in lay], idl=[i for _, i in lay]), kind))
    o = parts[0][0]
    for p, _ in parts[1:]:
        o = o + float(np.round(rng.uniform(0.5, 2), 2)) * p
    if rng.random() < 0.2:
        dim = int(rng.integers(1, 4))
        a = rng.normal(size=(dim, dim))
        cov = (a @ a.T + 0.1 * np.eye(dim)) * 1e-2
        cov = (cov + cov.T) / 2
        cl = pe.cov_Obs([1.0] * dim, cov, 'sys')
        cl = [cl] if dim == 1 else cl
        for c in cl:
            o = o + float(np.round(rng.uniform(-1, 1), 2)) * c
        COV_BUFFERS[id(o)] = cov              # the caller's own array: reused (overwritten) by the caller before the analysis runs
    return o, [k for _, k in parts]


COV_BUFFERS = {}


def snapshot_params():
    return {'S': pe.Obs.S_global, 'tau_exp': pe.Obs.tau_exp_global, 'N_sigma': pe.Obs.N_sigma_global,
            'S_dict': dict(pe.Obs.S_dict), 'tau_exp_dict': dict(pe.Obs.tau_exp_dict), 'N_sigma_dict': dict(pe.Obs.N_sigma_dict)}


def restore_params(s):
    pe.Obs.S_global, pe.Obs.tau_exp_global, pe.Obs.N_sigma_global = s['S'], s['tau_exp'], s['N_sigma']
    pe.Obs.S_dict.clear()
    pe.Obs.S_dict.update(s['S_dict'])
    pe.Obs.tau_exp_dict.clear()
    pe.Obs.tau_exp_dict.update(s['tau_exp_dict'])
    pe.Obs.N_sigma_dict.clear()
    pe.Obs.N_sigma_dict.update(s['N_sigma_dict'])


def env_record():
    """the class-level parameter slots as the specification sees them"""
    return ({'S': rat(pe.Obs.S_global), 'tau_exp': rat(pe.Obs.tau_exp_global), 'N_sigma': rat(pe.Obs.N_sigma_global)},
            {'S': [{'name': k, 'v': rat(v)} for k, v in sorted(pe.Obs.S_dict.items())],
             'tau_exp': [{'name': k, 'v': rat(v)} for k, v in sorted(pe.Obs.tau_exp_dict.items())],
             'N_sigma': [{'name': k, 'v': rat(v)} for k, v in sorted(pe.Obs.N_sigma_dict.items())]})


def args_record(kw):
    return {k: ({'k': 'num', 'v': rat(kw[k])} if k in kw else {'k': 'none'}) for k in ('S', 'tau_exp', 'N_sigma')}


def gm_case(cid, o, kw):
    """run gamma_method(**kw) on o and record the case"""
    before = project_obs(o)
    buf = COV_BUFFERS.pop(id(o), None)
    if buf is not None:
        buf *= 2.5                            # J Sigma J^T is taken with the covariance the observable was built from
    glob, dct = env_record()
    try:
        with np.errstate(all='ignore'):
            o.gamma_method(**kw)
        res = {'k': 'ok', 'an': project_analysis(o), 'after': project_obs(o)}
    except Exception as e:  # noqa: BLE001
        res = project_exc(e)
    return {'id': cid, 'ev': 'gm', 'obs': before, 'args': args_record(kw), 'glob': glob, 'dict': dct, 'res': res,
            'fft': bool(kw.get('fft', True))}


def random_params(rng, o, kinds):
    """choose parameter values and the way they are given; returns kwargs (the class slots are set as a side effect)"""
    kw = {}
    texp_ok = o.N >= 9
    for name, values in (('S', S_VALUES), ('tau_exp', TEXP_VALUES), ('N_sigma', NSIG_VALUES)):
        v = values[int(rng.integers(0, len(values)))]
        how = str(rng.choice(['arg', 'dict', 'global', 'default']))
        if how == 'arg':
            kw[name] = v
        elif how == 'dict':
            for e in o.mc_names:
                if rng.random() < 0.7:
                    getattr(pe.Obs, name + '_dict')[e] = values[int(rng.integers(0, len(values)))]
            getattr(pe.Obs, name + '_dict')['unrelated'] = values[0]
        elif how == 'global':
            setattr(pe.Obs, name + '_global', v)
    if rng.random() < 0.5:
        kw['fft'] = bool(rng.random() < 0.5)
    return kw


def gm_cases(rng, n, ctx, tag='gm', nmax=60):
    cases = []
    saved = snapshot_params()
    try:
        for i in range(n):
            restore_params(saved)
            o, kinds = make_observable(rng, nmax=nmax if i % 10 else min(200, nmax * 3))
            kw = random_params(rng, o, kinds)
            cid = '%s-%04d-%s-N%d' % (tag, i, '+'.join(kinds), o.N)
            cases.append(gm_case(cid, o, kw))
            # history: right afterwards an observable on TWIN lists (same chains, lengths, first and last configurations, other holes) is analysed with
            # the same request - nothing computed for the first one may be reused for the second
            if not o.cov_names and len(o.mc_names) == 1 and any(isinstance(o.idl[c], list) for c in o.names):
                tw = {c: (gen.twin_list(o.idl[c]) if isinstance(o.idl[c], list) else o.idl[c]) for c in o.names}
                if all(v is not None for v in tw.values()) and any(list(tw[c]) != list(o.idl[c]) for c in o.names):
                    o2 = pe.Obs([gen.chain_data(rng, len(tw[c]), mean=1.0, sigma=0.1, tau=float(rng.choice([0, 2.0, 4.0]))) for c in o.names], list(o.names), idl=[tw[c] for c in o.names])
                    if all(type(o2.idl[c]) is type(o.idl[c]) for c in o.names):
                        cases.append(gm_case(cid + '-twin', o2, kw))
            ctx.nontrivial.add((tuple(kinds), o.N, tuple(sorted(kw.items())), len(o.names)))
            ctx.sample({'id': cid, 'chains': [(c, str(o.idl[c])[:60]) for c in o.names if c in o.idl], 'kwargs': {k: v for k, v in kw.items()},
                        'S_global': pe.Obs.S_global, 'S_dict': dict(pe.Obs.S_dict), 'tau_exp_global': pe.Obs.tau_exp_global})
    finally:
        restore_params(saved)
    return cases


def run(ctx):
    rng = np.random.default_rng(ctx.seed)
    q = ctx.quick
    ctx.model('MC_Gamma', cfg='MC_Gamma_small.cfg' if q else 'MC_Gamma.cfg', timeout=1800)
    cases = gm_cases(rng, 260 if q else 4000, ctx, nmax=50 if q else 80)
    ctx.validate('GammaTrace', cases)
