"""C15 - correlator derived quantities equal their defining formulas where defined.

(M) MC_Corr: on the specification, every derivative variant is undefined exactly where a referenced timeslice is
    (all masks), backward = shifted forward, second derivative = derivative of the derivative.
(R) Gen_Masks: for EVERY pattern of undefined timeslices (T = 4, 5 quick; 4..10 thorough) each variant of deriv,
    second_deriv, m_eff and plateau is computed by real pyerrors on positive and on sign-changing data;
    CorrTrace.tla recomputes the documented formula over the referenced timeslices (value and every fluctuation) and
    compares the set of defined timeslices; root variants are checked through the root equation and the
    inverse-function rule; a plateau fit against the weighted mean with weights 1/dvalue^2.
"""
import numpy as np

import pyerrors as pe

from harness.corrproj import NS, mk, pcorr, pres
from harness.jsonsafe import rat, ratx
from harness.props import c14

RULE = ('cases = TLC-enumerated undefined-timeslice patterns x {5 deriv, 4 second_deriv, 6 m_eff variants, plateau fit / average over '
        'ranges} x {positive, sign-changing data}; non-trivial = pattern with an undefined timeslice inside the correlator')
ASSUMPTIONS = ['root variants (cosh / periodic / sinh) are driven with data for which the root equation has a real solution',
               'the sinh variant copies the two middle timeslices from their predecessor (library convention mirrored)',
               'a variant whose result is undefined on every timeslice may raise']

VARIANTS = [('deriv', v) for v in ('symmetric', 'forward', 'backward', 'improved', 'log')] + \
           [('second_deriv', v) for v in ('symmetric', 'big_symmetric', 'improved', 'log')] + \
           [('m_eff', v) for v in ('log', 'logsym', 'arccosh')]


def _call(f):
    import contextlib
    import io
    try:
        with np.errstate(all='ignore'), contextlib.redirect_stdout(io.StringIO()):
            return f()
    except Exception as e:  # noqa: BLE001
        return e


def data_corr(rng, mask, kind):
    T = len(mask)
    content = []
    m0 = float(rng.uniform(0.15, 0.6))
    amp = float(rng.uniform(0.5, 3))
    for t in range(T):
        if mask[t]:
            content.append(None)
            continue
        if kind in ('positive', 'zeroat'):
            v = amp * np.exp(-m0 * t) * float(rng.uniform(0.9, 1.1)) + 0.05
        elif kind == 'cosh':
            v = amp * np.cosh(m0 * (t - T / 2)) * float(rng.uniform(0.995, 1.005))
        elif kind == 'sinh':
            v = amp * np.sinh(m0 * (t - T / 2)) * float(rng.uniform(0.995, 1.005))
            if abs(v) < 1e-9:
                v = 1e-3
        else:
            v = float(rng.uniform(0.2, 2.0)) * (1 if rng.random() < 0.6 else -1)
        content.append(mk(rng, float(v), rel=0.01))
    if kind == 'zeroat':
        # positive data with one timeslice centred at exactly zero (an antisymmetrised correlator at T/2): it still fluctuates
        defined = [t for t in range(T) if content[t] is not None]
        tz = defined[int(rng.integers(0, len(defined)))]
        content[tz] = content[tz] - float(content[tz].value)
    return pe.Corr(content)


def derived_cases(rng, m, ctx):
    cases = []
    T, mask = m['T'], m['mask']
    for kind in ('positive', 'sign', 'zeroat'):
        a = data_corr(rng, mask, kind)
        pa = pcorr(a)
        for what, variant in VARIANTS:
            r = _call(lambda: getattr(a, what)(variant))
            cases.append({'id': '%s-%s-%s-%s' % (m['id'], what, variant, kind), 'ev': 'derived', 'what': what, 'variant': variant,
                          'a': pa, 'n': NS, 'res': pres(r)})
            ctx.nontrivial.add((T, tuple(mask), what, variant, kind))
        cases.append({'id': '%s-derived-frame-%s' % (m['id'], kind), 'ev': 'frame', 'before': [pa], 'after': [pcorr(a)], 'first': [], 'second': []})
        # plateau
        a.gamma_method()
        lo = int(rng.integers(0, T))
        hi = int(rng.integers(lo, T))
        dv = [ratx(float(a.content[t][0].dvalue)) if a.content[t] is not None else '0' for t in range(T)]
        # a stored plateau range (set_prange) is what plateau() uses when called without a range - and only then
        stored = None
        if rng.random() < 0.6:
            plo = int(rng.integers(0, T))
            stored = [plo, int(rng.integers(plo, T))]
            a.set_prange(list(stored))
        given = [lo, hi]                   # the caller's own list, handed to both calls
        # history: the same list (and the stored range) served a DERIVED correlator first, one that is undefined on more timeslices - the range a
        # caller asks for is the range that is averaged, whatever other correlator was looked at through the same list before
        _call(lambda: a.deriv('symmetric').plateau(given, method='avg'))
        if stored:
            with np.errstate(all='ignore'):
                _call(lambda: np.log(a).plateau(method='avg'))
                _call(lambda: (1.0 * a).deriv('symmetric').plateau(method='avg'))
        for method in ('fit', 'avg'):
            r = _call(lambda: a.plateau(given, method=method))
            cases.append({'id': '%s-plateau-%s-%d-%d-%s%s' % (m['id'], method, lo, hi, kind, '-stored' if stored else ''), 'ev': 'derived', 'what': 'plateau',
                          'variant': method, 'method': method, 'lo': lo, 'hi': hi, 'dv': dv, 'a': pcorr(a), 'n': NS, 'res': pres(r)})
            if stored:
                r = _call(lambda: a.plateau(method=method))
                cases.append({'id': '%s-plateau-%s-prange-%d-%d-%s' % (m['id'], method, stored[0], stored[1], kind), 'ev': 'derived', 'what': 'plateau',
                              'variant': method, 'method': method, 'lo': stored[0], 'hi': stored[1], 'dv': dv, 'a': pcorr(a), 'n': NS, 'res': pres(r)})
    for kind, variants in (('cosh', ('cosh', 'periodic')), ('sinh', ('sinh',))):
        if T < 4:
            continue
        a = data_corr(rng, mask, kind)
        for variant in variants:
            pa_m = pcorr(a)
            r = _call(lambda: a.m_eff(variant, guess=0.3))
            cases.append({'id': '%s-m_eff-%s-frame' % (m['id'], variant), 'ev': 'frame', 'before': [pa_m], 'after': [pcorr(a)], 'first': [], 'second': []})
            cases.append({'id': '%s-m_eff-%s' % (m['id'], variant), 'ev': 'derived', 'what': 'm_eff', 'variant': variant, 'a': pcorr(a),
                          'n': NS, 'res': pres(r)})
            ctx.nontrivial.add((T, tuple(mask), 'm_eff', variant))
    return cases


def run(ctx):
    rng = np.random.default_rng(ctx.seed)
    q = ctx.quick
    ctx.model('MC_Corr', cfg='MC_Corr.cfg' if q else 'MC_Corr_deep.cfg', timeout=1800)
    ms = c14.masks(ctx, 'Gen_Masks_q6.cfg' if q else 'Gen_Masks_t10.cfg')
    cases = []
    for k, m in enumerate(ms):
        if not q and m['T'] >= 9 and k % 4:
            continue                    # T = 9, 10: every fourth pattern (511 + 1023 patterns)
        cases += derived_cases(rng, m, ctx)
    ctx.exhaustive = q is False and False
    ctx.sample({'pattern': ms[5], 'cases': [c['id'] for c in cases[:6]]})
    ctx.validate('CorrTrace', cases, timeout=3000)
