"""C10 - matrix operations on observable matrices satisfy their defining identities.

(M) MC_Mat: on the specification, for small integer slot matrices, the product is associative, the cofactor determinant
    is multiplicative and transposition reverses products (sanity of MatOps before it is used as the oracle).
(T) pe.linalg matmul (2-4 factors, real and complex), inv, cholesky, det, eigh, eig, eigv, pinv, svd, jack_matmul, einsum on
    well-conditioned 1x1..4x4 (rectangular for svd / pinv) matrices whose entries live on one or several ensembles with
    regular or irregular configuration lists and are mixed with plain numbers; MatTrace.tla checks the defining identity
    with the specification's own product - value and every fluctuation.
"""
import numpy as np

import pyerrors as pe

from harness import gen
from harness.frames import snap, frame_event
from harness.jsonsafe import rat, ratx

RULE = ('cases = (operation x shape 1..4 x real/complex x layout class x plain-number entries x number of factors); non-trivial = matrix of '
        'dimension >= 2 or entries on more than one ensemble')
ASSUMPTIONS = ['matrices are built with prescribed singular values in [0.5, 2] and eigenvalue gaps >= 0.25 (well-conditioned, non-degenerate)',
               'an entry may be known on a part of a chain only, and may lack whole replicas of an ensemble (its fluctuations are then projected with the up-weight ObsCore!DeriveChains states, which C01 checks on its own)',
               'identities compared at 1e-7 relative plus 1e-8 of the natural scale; jackknife products within 4*scale*dmax^2/(N-1)']


def layout_pool(rng):
    """the chains of a case: name -> idl"""
    cls = str(rng.choice(['one', 'irregular', 'two_ens', 'replicas']))
    if cls == 'one':
        return {'A|r1': gen.make_idl(rng, 'contig', int(rng.integers(8, 16)))}
    if cls == 'irregular':
        return {'A|r1': gen.make_idl(rng, str(rng.choice(['gapped', 'irregular', 'strided'])), int(rng.integers(8, 16)))}
    if cls == 'two_ens':
        return {'A|r1': gen.make_idl(rng, 'contig', int(rng.integers(8, 14))), 'B': gen.make_idl(rng, 'irregular', int(rng.integers(7, 12)))}
    return {'A|r1': gen.make_idl(rng, 'contig', int(rng.integers(8, 14))), 'A|r2': gen.make_idl(rng, 'strided', int(rng.integers(6, 10)))}


def ens_groups(pool):
    g = {}
    for n in pool:
        g.setdefault(n.split('|')[0], []).append(n)
    return list(g.values())


SPLIT = ['halves']
SUBLISTS = [False]          # switched on per matrix: one entry (any position) keeps the full lists, so that the union is the pool


def entry_obs(rng, pool, v, rel=0.03):
    groups = ens_groups(pool)
    k = int(rng.integers(1, len(groups) + 1))
    chosen = [groups[i] for i in sorted(rng.choice(len(groups), size=k, replace=False).tolist())]
    o = None
    for names in chosen:
        if len(names) > 1 and rng.random() < 0.4:
            # the entry lacks whole replicas of this ensemble
            names = [names[i] for i in sorted(rng.choice(len(names), size=int(rng.integers(1, len(names))), replace=False).tolist())]
        # an entry may be known on fewer configurations of a chain than its neighbours (first / second half, every other one, a random subset)
        idls = []
        for n in names:
            full = list(pool[n])
            if SUBLISTS[0] in ('A', 'B') and len(full) >= 10:
                # equally many, but different configurations: the two halves / every other configuration (of an even number of them)
                even = full[:2 * (len(full) // 2)]
                halves = (even[:len(even) // 2], even[len(even) // 2:]) if SPLIT[0] == 'halves' else (even[0::2], even[1::2])
                idls.append([int(c) for c in halves[0 if SUBLISTS[0] == 'A' else 1]])
            elif SUBLISTS[0] is True and len(full) >= 10 and rng.random() < 0.3:
                kind = str(rng.choice(['first', 'second', 'odd', 'even', 'random']))
                sub = full[:len(full) // 2] if kind == 'first' else full[len(full) // 2:] if kind == 'second' else full[1::2] if kind == 'odd' else full[0::2] \
                    if kind == 'even' else sorted(rng.choice(full, size=max(5, len(full) - 3), replace=False).tolist())
                idls.append([int(c) for c in sub] if len(sub) >= 5 else full)
            else:
                idls.append(pool[n])
        samples = [v / len(chosen) + rel * (abs(v) + 0.2) * rng.normal(size=len(il)) for il in idls]
        p = pe.Obs(samples, names, idl=idls)
        o = p if o is None else o + p
    return o + (v - o.value)


def flat(o, pool):
    """slot of a real entry on the common (chain, configuration) list"""
    if isinstance(o, (int, float, np.integer, np.floating)):
        return {'v': rat(float(o)), 'd': ['0'] * sum(len(pool[n]) for n in sorted(pool))}
    d = []
    # an entry that lacks whole replicas of an ensemble enters every result with its fluctuations up-weighted by
    # (ensemble size / size of the replicas it has) - ObsCore!DeriveChains, checked on its own by C01; the flat slot carries them so
    size = {}
    for n in pool:
        e = n.split('|')[0]
        size.setdefault(e, [0, 0])
        size[e][0] += len(pool[n])
        size[e][1] += len(pool[n]) if n in o.idl else 0
    for n in sorted(pool):
        if n in o.idl:
            full, mine = list(pool[n]), list(o.idl[n])
            if not set(mine) <= set(full):
                return {'v': 'nan', 'd': []}
            tot, own = size[n.split('|')[0]]
            # ... and an entry known on a part of a chain enters with zeros elsewhere and the weight |union| / |own| (same rule)
            w = tot / own * len(full) / len(mine)
            at = dict(zip(mine, o.deltas[n]))
            d += [ratx(float(at[c]) * w) if c in at else '0' for c in full]
        else:
            d += ['0'] * len(pool[n])
    extra = [n for n in o.names if n not in pool and n != '###dummy_covobs###']
    if extra:
        return {'v': 'nan', 'd': []}
    return {'v': ratx(float(o.value)), 'd': d}


def pm(M, pool):
    M = np.asarray(M, dtype=object)
    if M.ndim == 1:
        M = M.reshape(-1, 1)
    return [[flat(x, pool) for x in row] for row in M]


def pcm(M, pool):
    M = np.asarray(M, dtype=object)
    re = np.vectorize(lambda z: z.real if isinstance(z, (pe.CObs, complex)) else z, otypes=[object])(M)
    im = np.vectorize(lambda z: z.imag if isinstance(z, (pe.CObs, complex)) else 0.0, otypes=[object])(M)
    return {'re': pm(re, pool), 'im': pm(im, pool)}


def values_matrix(rng, m, n=None, kind='general'):
    """well-conditioned numeric matrix: prescribed singular values / eigenvalues"""
    n = n or m
    if kind == 'spd' or kind == 'sym':
        q, _ = np.linalg.qr(rng.normal(size=(m, m)))
        ev = np.cumsum(rng.uniform(0.3, 0.6, size=m)) + 0.4
        if kind == 'sym' and m > 1:
            ev[0] = -ev[0]
        return q @ np.diag(ev) @ q.T
    u, _ = np.linalg.qr(rng.normal(size=(m, m)))
    v, _ = np.linalg.qr(rng.normal(size=(n, n)))
    k = min(m, n)
    s = np.sort(rng.uniform(0.5, 2.0, size=k))[::-1]
    S = np.zeros((m, n))
    S[:k, :k] = np.diag(s)
    return u @ S @ v.T


def _numeric(A):
    def num(x):
        if isinstance(x, pe.CObs):
            return complex(float(x.real.value), float(x.imag.value))
        return complex(x.value) if isinstance(x, pe.Obs) else complex(x)
    return np.array([[num(x) for x in row] for row in A])


def sprinkle(rng, A, cplx):
    """replace one or two entries - the first one of the matrix half of the time - by a plain float, a plain Python int, (complex matrices) a plain
    complex number or a real observable; the matrix stays well-conditioned"""
    m = A.shape[0]
    for k in range(int(rng.integers(1, 3))):
        a, b = (0, 0) if k == 0 and rng.random() < 0.5 else (int(rng.integers(0, m)), int(rng.integers(0, m)))
        z = _numeric(A)[a, b]
        kind = str(rng.choice(['float', 'int', 'complex', 'realobs'] if cplx else ['float', 'int']))
        if kind == 'realobs':
            new = A[a, b].real if isinstance(A[a, b], pe.CObs) else A[a, b]
        elif kind == 'complex':
            new = complex(round(z.real, 2), round(z.imag, 2))
        elif kind == 'int':
            new = int(round(z.real)) or 1
        else:
            new = float(round(z.real, 2))
        B = A.copy()
        B[a, b] = new
        still = any(isinstance(x, pe.CObs if cplx else pe.Obs) for x in B.ravel())       # it stays a matrix of (complex) observables
        if still and np.linalg.cond(_numeric(B)) < 1e3:
            A[a, b] = new
    return A


def obs_matrix(rng, pool, vals, plain_frac=0.0, symmetric=False, common_lists=False, force_split=False):
    m, n = vals.shape
    M = np.empty((m, n), dtype=object)
    # (with whole replicas missing AND different configuration sets the result of a step-by-step product depends on the order of the
    #  steps - the side condition of C01 - so the two kinds of partial knowledge are not combined in one case)
    multi_rep = any(len(g) > 1 for g in ens_groups(pool))
    common_lists = common_lists or multi_rep
    sub = bool(rng.random() < 0.35) and m * n > 1 and not common_lists
    keep_full = (int(rng.integers(0, m)), int(rng.integers(0, n)))
    equal_split = (force_split or bool(rng.random() < 0.25)) and m * n > 1 and not common_lists and not symmetric and plain_frac == 0.0
    SPLIT[0] = str(rng.choice(['halves', 'alternate']))
    count = 0
    for i in range(m):
        for j in range(n):
            if symmetric and j < i:
                M[i, j] = M[j, i]
            elif rng.random() < plain_frac and (i, j) != keep_full:
                M[i, j] = float(vals[i, j])
            else:
                SUBLISTS[0] = ('A' if count % 2 == 0 else 'B') if equal_split else (sub and (i, j) != keep_full)
                count += 1
                M[i, j] = entry_obs(rng, pool, float(vals[i, j]))
                SUBLISTS[0] = False
    return M


def cobs_matrix(rng, pool, vr, vi):
    m, n = vr.shape
    M = np.empty((m, n), dtype=object)
    for i in range(m):
        for j in range(n):
            M[i, j] = pe.CObs(entry_obs(rng, pool, float(vr[i, j])), entry_obs(rng, pool, float(vi[i, j])))
    return M


def _call(f):
    try:
        with np.errstate(all='ignore'):
            return f()
    except Exception as e:  # noqa: BLE001
        return e


def cases_for(rng, n, ctx):
    cases = []
    ops = ['matmul', 'cmatmul', 'at', 'inv', 'cinv', 'cholesky', 'det', 'eigh', 'eig', 'eigv', 'pinv', 'svd', 'jack', 'einsum']
    for i in range(n):
        op = ops[i % len(ops)]
        pool = layout_pool(rng)
        m = int(rng.integers(1, 5))
        cid = 'mat-%04d-%s-%d' % (i, op, m)
        plain = float(rng.choice([0.0, 0.0, 0.3]))

        def framed(args, f, cid=cid):
            before = snap(args)
            out = _call(f)
            if i % 2 == 0:
                cases.append(frame_event(cid + '-frame', 'the matrices handed to a matrix operation are left as they were', before, args))
            return out
        if op in ('matmul', 'at'):
            nf = int(rng.integers(2, 5))
            dims = [int(rng.integers(1, 5)) for _ in range(nf + 1)] if op == 'at' else [m] * (nf + 1)   # linalg.matmul: square factors of one size
            mats = [obs_matrix(rng, pool, values_matrix(rng, dims[k], dims[k + 1]), plain_frac=plain if op == 'at' else 0.0, force_split=(op == 'matmul' and (i // len(ops)) % 2 == 1)) for k in range(nf)]
            if op == 'matmul':
                r = framed([mats], lambda: pe.linalg.matmul(*mats))
            else:
                def chain():
                    x = mats[0]
                    for y in mats[1:]:
                        x = x @ y
                    return x
                r = _call(chain)
            res = {'k': 'exc', 't': type(r).__name__} if isinstance(r, Exception) else {'k': 'ok', 'm': pm(r, pool)}
            cases.append({'id': cid + '-f%d' % nf, 'ev': 'matmul', 'complex': False, 'ops': [pm(x, pool) for x in mats], 'res': res})
        elif op == 'cmatmul':
            nf = int(rng.integers(2, 4))
            mats = [cobs_matrix(rng, pool, values_matrix(rng, m), values_matrix(rng, m)) for _ in range(nf)]
            mixed = int(i // len(ops)) % 3
            if mixed == 1:
                # a complex product may contain real factors, and its factors plain (real or complex) numbers - anywhere, the first entry included
                k = int(rng.integers(0, nf))
                mats[k] = obs_matrix(rng, pool, values_matrix(rng, m), plain_frac=0.3)
                if rng.random() < 0.5:
                    mats[k][0, 0] = float(np.round(rng.uniform(0.5, 1.5), 2))
            elif mixed == 2:
                k = int(rng.integers(0, nf))
                for _ in range(int(rng.integers(1, 3))):
                    a, b = (0, 0) if rng.random() < 0.5 else (int(rng.integers(0, m)), int(rng.integers(0, m)))
                    if m > 1 or nf > 1:
                        mats[k][a, b] = complex(float(np.round(rng.uniform(0.5, 1.5), 2)), float(np.round(rng.uniform(-1, 1), 2))) if rng.random() < 0.6 else 0.75
                if all(not isinstance(x[0, 0], pe.CObs) for x in mats):
                    mats[(k + 1) % nf] = cobs_matrix(rng, pool, values_matrix(rng, m), values_matrix(rng, m))
            r = framed([mats], lambda: pe.linalg.matmul(*mats))
            res = {'k': 'exc', 't': type(r).__name__} if isinstance(r, Exception) else {'k': 'ok', 'm': pcm(r, pool)}
            cases.append({'id': cid + ['', '-realfactor', '-plainentries'][mixed], 'ev': 'matmul', 'complex': True, 'ops': [pcm(x, pool) for x in mats], 'res': res})
        elif op == 'inv':
            mixed = (i // len(ops)) % 2 == 1 and (i // len(ops)) % 4 == 1
            A = obs_matrix(rng, pool, values_matrix(rng, m), plain_frac=1e-12 if mixed else 0.0, force_split=(i // len(ops)) % 2 == 0)
            if mixed:
                A = sprinkle(rng, A, False)            # plain numbers (floats and Python ints) anywhere, the first entry included
                cid += '-plainentries'
            r = framed([A], lambda: pe.linalg.inv(A))
            res = {'k': 'exc', 't': type(r).__name__} if isinstance(r, Exception) else {'k': 'ok', 'm': pm(r, pool)}
            cases.append({'id': cid, 'ev': 'inv', 'complex': False, 'a': pm(A, pool), 'res': res})
        elif op == 'cinv':
            m = min(m, 3)
            vr = values_matrix(rng, m)
            A = cobs_matrix(rng, pool, vr, 0.3 * values_matrix(rng, m))
            if (i // len(ops)) % 2 == 1:
                A = sprinkle(rng, A, True)             # a complex matrix may hold real observables and plain numbers - anywhere
                cid += '-mixedentries'
            r = framed([A], lambda: pe.linalg.inv(A))
            res = {'k': 'exc', 't': type(r).__name__} if isinstance(r, Exception) else {'k': 'ok', 'm': pcm(r, pool)}
            cases.append({'id': cid, 'ev': 'inv', 'complex': True, 'a': pcm(A, pool), 'res': res})
        elif op == 'cholesky':
            A = obs_matrix(rng, pool, values_matrix(rng, m, kind='spd'), symmetric=True)
            r = framed([A], lambda: pe.linalg.cholesky(A))
            res = {'k': 'exc', 't': type(r).__name__} if isinstance(r, Exception) else {'k': 'ok', 'm': pm(r, pool)}
            cases.append({'id': cid, 'ev': 'cholesky', 'a': pm(A, pool), 'res': res})
        elif op == 'det':
            A = obs_matrix(rng, pool, values_matrix(rng, m))
            if (i // len(ops)) % 2 == 0 and m >= 2:
                # an entry that fluctuates around a central value of exactly zero is not a structural zero: every second determinant has one
                # (the first position, in a fixed random order, that leaves the matrix well-conditioned)
                for a_, b_ in [divmod(int(q_), m) for q_ in rng.permutation(m * m)]:
                    vals_ = np.array([[float(x.value) if isinstance(x, pe.Obs) else float(x) for x in row] for row in A])
                    vals_[a_, b_] = 0.0
                    if isinstance(A[a_, b_], pe.Obs) and np.linalg.cond(vals_) < 1e3:
                        A[a_, b_] = A[a_, b_] - A[a_, b_].value
                        break
            r = framed([A], lambda: pe.linalg.det(A))
            res = {'k': 'exc', 't': type(r).__name__} if isinstance(r, Exception) else {'k': 'ok', 's': flat(r, pool)}
            cases.append({'id': cid, 'ev': 'det', 'a': pm(A, pool), 'res': res})
        elif op in ('eigh', 'eig', 'eigv'):
            A = obs_matrix(rng, pool, values_matrix(rng, m, kind='sym'), symmetric=True)
            if op == 'eigh':
                r = framed([A], lambda: pe.linalg.eigh(A))
                res = {'k': 'exc', 't': type(r).__name__} if isinstance(r, Exception) else {'k': 'ok', 'w': [flat(x, pool) for x in r[0]], 'v': pm(r[1], pool)}
            elif op == 'eig':
                r = framed([A], lambda: pe.linalg.eig(A))
                res = {'k': 'exc', 't': type(r).__name__} if isinstance(r, Exception) else {'k': 'ok', 'w': [flat(x, pool) for x in r]}
            else:
                r = framed([A], lambda: pe.linalg.eigv(A))
                res = {'k': 'exc', 't': type(r).__name__} if isinstance(r, Exception) else {'k': 'ok', 'v': pm(r, pool)}
            cases.append({'id': cid, 'ev': op, 'a': pm(A, pool), 'res': res})
        elif op in ('pinv', 'svd'):
            n2 = int(rng.integers(1, 5))
            A = obs_matrix(rng, pool, values_matrix(rng, m, n2))
            if (i // len(ops)) % 3 == 1 and m >= 2 and n2 >= 2:
                # structural zeros (plain numbers) that decouple the first row and column: singular vectors with components that are exactly zero
                B = A.copy()
                B[0, 1:] = 0.0
                B[1:, 0] = 0.0
                sv = np.linalg.svd(_numeric(B).real, compute_uv=False)
                if np.min(np.abs(np.diff(np.sort(sv)))) > 0.05 and np.min(sv) > 0.05:
                    A = B
                    cid += '-decoupled'
            if op == 'pinv':
                r = framed([A], lambda: pe.linalg.pinv(A))
                res = {'k': 'exc', 't': type(r).__name__} if isinstance(r, Exception) else {'k': 'ok', 'm': pm(r, pool)}
            else:
                r = framed([A], lambda: pe.linalg.svd(A))
                res = {'k': 'exc', 't': type(r).__name__} if isinstance(r, Exception) else \
                    {'k': 'ok', 'u': pm(r[0], pool), 's': [flat(x, pool) for x in r[1]], 'vh': pm(r[2], pool)}
            cases.append({'id': cid + 'x%d' % n2, 'ev': op, 'a': pm(A, pool), 'res': res})
        else:   # jackknife product / einsum: single chain only (documented restriction of export_jackknife)
            N = int(rng.integers(10, 60))
            pool = {'J|r1': gen.make_idl(rng, str(rng.choice(['contig', 'irregular'])), N)}
            nf = int(rng.integers(2, 4))
            mats = [obs_matrix(rng, pool, values_matrix(rng, m), common_lists=True) for _ in range(nf)]       # the jackknife products work on one common configuration list
            # a caller who exported an entry's jackknife samples before and went on working with that array has not touched the entry
            e00 = mats[0][0, 0]
            if isinstance(e00, pe.Obs) and len(e00.names) == 1 and rng.random() < 0.5:
                scr = _call(lambda: e00.export_jackknife())
                if not isinstance(scr, Exception):
                    scr *= 3.0
            if op == 'jack':
                r = framed([mats], lambda: pe.linalg.jack_matmul(*mats))
                what = 'jack_matmul'
            else:
                sub = {2: 'ij,jk->ik', 3: 'ij,jk,kl->il'}[nf]
                if (i // len(ops)) % 2 == 1:
                    # the same products with numpy's implicit output (the indices that occur once, in alphabetical order)
                    sub = sub.split('->')[0]
                r = framed([mats], lambda: pe.linalg.einsum(sub, *mats))
                what = 'einsum ' + sub
            res = {'k': 'exc', 't': type(r).__name__} if isinstance(r, Exception) else {'k': 'ok', 'm': pm(r, pool)}
            cases.append({'id': cid + '-f%d-N%d' % (nf, N), 'ev': 'jack', 'what': what, 'N': N, 'ops': [pm(x, pool) for x in mats], 'res': res})
            # history: the caller goes on working with the SAME array objects - the content of one of them is replaced in place (a matrix that is
            # updated in a loop) - and makes the same request again: the product is the product of what the arrays hold NOW
            if (i // len(ops)) % 2 == 0 and not isinstance(r, Exception):
                tgt = mats[(i // len(ops) // 2) % nf]
                newc = obs_matrix(rng, pool, values_matrix(rng, m), common_lists=True)
                for a_ in range(tgt.shape[0]):
                    for b_ in range(tgt.shape[1]):
                        tgt[a_, b_] = newc[a_, b_]
                r2 = _call(lambda: pe.linalg.jack_matmul(*mats)) if op == 'jack' else _call(lambda: pe.linalg.einsum(sub, *mats))
                res2 = {'k': 'exc', 't': type(r2).__name__} if isinstance(r2, Exception) else {'k': 'ok', 'm': pm(r2, pool)}
                cases.append({'id': cid + '-f%d-N%d-updated' % (nf, N), 'ev': 'jack', 'what': what + ' after an operand array was updated in place', 'N': N,
                              'ops': [pm(x, pool) for x in mats], 'res': res2})
        ctx.nontrivial.add((op, m, tuple(sorted(pool)), i))
        if len(ctx.samples) < 5:
            ctx.sample({'id': cid, 'operation': op, 'dimension': m, 'chains': {k: str(v)[:40] for k, v in pool.items()}})
    return cases


WHAT_JACK = 'jack_matmul / einsum decide real / complex / plain by the first entry of an operand: a complex times a real matrix of observables gives malformed observables (or raises in the other order)'


def jack_mixed_probe(ctx, rng):
    """a recorded finding, probed by the driver itself: the jackknife product of a complex and a real matrix of observables either agrees
    with the exact product, or shows the listed deviation (an observable whose central value is not a number / an exception)"""
    x = [pe.Obs([v + 0.05 * rng.normal(size=40)], ['J|r1']) for v in (1.1, 0.4, 0.7)]
    C = np.array([[pe.CObs(x[0], x[1])]], dtype=object)
    R = np.array([[x[2]]], dtype=object)
    for cid, f in (('jack-cobs-times-obs', lambda: pe.linalg.jack_matmul(C, R)), ('jack-obs-times-cobs', lambda: pe.linalg.jack_matmul(R, C))):
        try:
            z = f()[0, 0]
            re_ = z.real
            ok = isinstance(re_, pe.Obs) and isinstance(re_.value, (float, np.floating)) and abs(float(re_.value) - float((x[0] * x[2]).value)) < 1e-2
        except Exception:  # noqa: BLE001
            ok = False
        if not ok:
            ctx.known.append((cid, WHAT_JACK))
    ctx.cases += 2


def run(ctx):
    rng = np.random.default_rng(ctx.seed)
    ctx.model('MC_Mat', timeout=900)
    cases = cases_for(rng, 140 if ctx.quick else 1400, ctx)
    ctx.validate('MatTrace', cases)
    if ctx.only is None:
        jack_mixed_probe(ctx, rng)
