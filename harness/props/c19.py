"""C19 - printed value(error) strings and scalar views agree with value and error.

(R) Gen_Format: TLC enumerates the quantifier grid (27 error mantissas around every rounding boundary x 30 decades x
    7 value mantissas x 6 value/error magnitude ratios x significance 1..6 = 204 120 points; a fixed sub-grid in the
    quick tier); each point is formatted by real pyerrors and the CHARACTERS are read back by FormatTrace.tla in exact
    decimal arithmetic.
(T) flags, complex observables, observables without error, prior strings through least_squares, comparisons,
    float(), is_zero_within_error, Corr.plottable on random inputs.
"""
import json
import os
import shutil

import numpy as np

import pyerrors as pe

from harness import tlc
from harness.jsonsafe import rat, ratx

RULE = ('cases = TLC-enumerated (error mantissa, decade, value mantissa, magnitude ratio, significance) grid points formatted by the '
        'code, plus flag / complex / plain / prior / scalar-view cases; non-trivial = error mantissa within 1e-3 of a rounding boundary or a carry')
ASSUMPTIONS = ['half a unit of the last printed digit is taken inclusive; the error may miss it by 1e-9 relative (it is scaled in floating point before rounding)']


def _obs(value, dvalue):
    o = pe.cov_Obs(float(value), float(dvalue) ** 2, 'fmt')
    o.gamma_method()
    return o


def _fmt(o, spec):
    try:
        return format(o, spec)
    except Exception as e:  # noqa: BLE001
        return e


def grid_cases(ctx, cfg, stride):
    d = tlc.scratch('verif.gen.')
    try:
        out = os.path.join(d, 'fmt.ndjson')
        r = tlc.run_tlc('Gen_Format', cfg=cfg, workers=1, timeout=900, env={'OUT_FILE': out}, heap='4g')
        if r['error'] or not os.path.exists(out):
            raise tlc.MachineryError('Gen_Format failed: ' + r['out'][-2000:])
        ctx.model_runs.append({'module': 'Gen_Format', 'cfg': cfg, 'ok': True, 'wall_s': round(r['wall_s'], 1)})
        cases = []
        with open(out) as f:
            lines = f.readlines()
        ctx.extra['tlc_enumerated_grid_points'] = len(lines)
        for k, line in enumerate(lines):
            if k % stride:
                continue
            c = json.loads(line)
            dv = float('%se%d' % (c['m'], c['de']))
            v = float('%se%d' % (c['vm'], c['de'] + c['dr']))
            o = _obs(v, dv)
            s = _fmt(o, str(c['sig']))
            cid = 'g%s-%s-e%d-%s-r%d-s%d' % (c['id'][5:], c['m'], c['de'], c['vm'], c['dr'], c['sig'])
            if isinstance(s, Exception):
                cases.append({'id': cid, 'ev': 'raised', 't': type(s).__name__})
                continue
            cases.append({'id': cid, 'ev': 'fmt', 'value': rat(float(o.value)), 'dvalue': rat(float(o.dvalue)), 'sig': c['sig'], 's': s})
            if c['m'] not in ('7.3219', '1.4', '2.5'):
                ctx.nontrivial.add((c['m'], c['de'], c['sig']))
            if len(ctx.samples) < 5 and c['m'] in ('9.95', '9.995'):
                ctx.sample({'value': v, 'error': dv, 'significance': c['sig'], 'printed': s})
        return cases
    finally:
        shutil.rmtree(d, ignore_errors=True)


def misc_cases(rng, n, ctx):
    cases = []
    for i in range(n):
        dv = float(10 ** rng.uniform(-12, 12)) * float(rng.choice([1, 1, 0.995, 9.95]))
        v = float(rng.normal()) * float(10 ** rng.uniform(-12, 12))
        o = _obs(v, dv)
        sig = int(rng.integers(1, 7))
        plain = _fmt(o, str(sig))
        if isinstance(plain, Exception):
            cases.append({'id': 'm%04d' % i, 'ev': 'raised', 't': type(plain).__name__})
            continue
        cases.append({'id': 'm%04d-fmt' % i, 'ev': 'fmt', 'value': rat(float(o.value)), 'dvalue': rat(float(o.dvalue)), 'sig': sig, 's': plain})
        # str() and the empty specification use two significant digits
        cases.append({'id': 'm%04d-str' % i, 'ev': 'fmt', 'value': rat(float(o.value)), 'dvalue': rat(float(o.dvalue)), 'sig': 2, 's': str(o)})
        for flag in ('+', ' '):
            fl = _fmt(o, flag + str(sig))
            cases.append({'id': 'm%04d-flag%s' % (i, 'p' if flag == '+' else 's'), 'ev': 'flag', 'flag': flag, 'plain': plain,
                          'flagged': fl} if not isinstance(fl, Exception) else {'id': 'm%04d-flag' % i, 'ev': 'raised', 't': type(fl).__name__})
            # a flag alone keeps the default significance
            fl0 = _fmt(o, flag)
            cases.append({'id': 'm%04d-bare%s' % (i, 'p' if flag == '+' else 's'), 'ev': 'flag', 'flag': flag, 'plain': format(o, ''),
                          'flagged': fl0} if not isinstance(fl0, Exception) else {'id': 'm%04d-bareflag' % i, 'ev': 'raised', 't': type(fl0).__name__})
        # complex observable
        o2 = _obs(float(rng.normal()) * 10 ** rng.uniform(-3, 3), float(10 ** rng.uniform(-4, 2)))
        z = pe.CObs(o, o2)
        zs = _fmt(z, str(sig))
        if isinstance(zs, Exception):
            cases.append({'id': 'm%04d-cx' % i, 'ev': 'raised', 't': type(zs).__name__})
        else:
            cases.append({'id': 'm%04d-cx' % i, 'ev': 'cfmt', 's': zs, 're': format(o, str(sig)), 'im': format(o2, str(sig))})
            cases.append({'id': 'm%04d-cxstr' % i, 'ev': 'cfmt', 's': str(z), 're': str(o), 'im': str(o2)})
            # a flag acts on the leading character of the real part; the imaginary part always carries its sign
            for flag in ('+', ' ', '-'):
                for spec, resp, imsp in ((flag + str(sig), flag + str(sig), str(sig)), (flag, flag, '')):
                    zf = _fmt(z, spec)
                    cases.append({'id': 'm%04d-cxflag-%s' % (i, spec.replace(' ', 's')), 'ev': 'cfmt', 's': zf, 're': format(o, resp), 'im': format(o2, imsp)}
                                 if not isinstance(zf, Exception) else {'id': 'm%04d-cxflag' % i, 'ev': 'raised', 't': type(zf).__name__})
        # without error
        bare = pe.cov_Obs(v, 0.0, 'fmt0')
        cases.append({'id': 'm%04d-plain' % i, 'ev': 'plain', 'value': rat(float(bare.value)), 's': str(bare)})
        # scalar views
        x = float(v * rng.choice([1.0, 0.999, 1.001, -1.0])) if rng.random() < 0.7 else float(v)
        zw = []
        for sg in (1, 2, 3, 0.5):
            zw.append({'sigma': rat(sg), 'res': bool(o.is_zero_within_error(sg))})
        cases.append({'id': 'm%04d-views' % i, 'ev': 'views', 'value': rat(float(o.value)), 'dvalue': rat(float(o.dvalue)), 'x': rat(x),
                      'flt': rat(float(o)), 'lt': bool(o < x), 'le': bool(o <= x), 'gt': bool(o > x), 'ge': bool(o >= x), 'zw': zw,
                      'iszero': bool(o.is_zero())})
        ctx.nontrivial.add(('misc', i))
        if i % 5 == 0:
            # the same views far down the 30 decades: a value of 1e-11 that is ten standard errors away from zero
            t = pe.cov_Obs(float(rng.uniform(0.5, 5.0)) * 1e-11 * (1 if rng.random() < 0.5 else -1), (float(rng.uniform(0.5, 2.0)) * 1e-12) ** 2, 'tiny')
            t.gamma_method()
            xt = float(t.value) * float(rng.choice([0.999, 1.001, 1.0]))
            cases.append({'id': 'm%04d-views-tiny' % i, 'ev': 'views', 'value': rat(float(t.value)), 'dvalue': rat(float(t.dvalue)), 'x': rat(xt),
                          'flt': rat(float(t)), 'lt': bool(t < xt), 'le': bool(t <= xt), 'gt': bool(t > xt), 'ge': bool(t >= xt),
                          'zw': [{'sigma': rat(sg), 'res': bool(t.is_zero_within_error(sg))} for sg in (1, 3, 50)], 'iszero': bool(t.is_zero())})
    return cases


def prior_cases(rng, n, ctx):
    cases = []
    xs = np.arange(1, 6)
    ys = [pe.pseudo_Obs(1.0 + 0.5 * x, 0.05, 'P|r1', samples=30) for x in xs]
    [y.gamma_method() for y in ys]
    hand = ['1.0(5)', '0.5(5)', '13.02(45)', '13.0(4.5)', '1302(46)', '-0.0004(10)', '0.500(100)', '13020(4567)', '0.5(9.9)', '1.234(46)', '2(1)', '-3.10(25)',
            '0.5(2.0)', '0.55(7.00)', '9.96(10.0)', '1.0(1.0)', '0.50(3)', '0.300(15)', '2.00(25)', '0.00001(2)', '0.5(24.8)', '13(100.0)']
    for i in range(n):
        if i < len(hand):
            s0, s1 = hand[i], hand[(i + 1) % len(hand)]
        else:
            o = _obs(float(rng.normal()) * 10 ** rng.uniform(-2, 2), float(10 ** rng.uniform(-3, 1)))
            if i % 3 == 0:
                # errors larger than the value, close to a power of ten (printed with their own decimal point, possibly after a carry)
                v0 = float(np.round(rng.uniform(0.1, 9.9), 2))
                o = _obs(v0, float(rng.choice([0.996, 1.0, 2.0, 9.96, 10.0, 99.96, 7.0])) * float(rng.choice([1.0, 1.0, 0.1])))
            s0 = format(o, str(int(rng.integers(1, 5))))
            s1 = '0.5(5)'
        try:
            how = i % 2
            if how == 0:
                res = pe.fits.least_squares(xs, ys, lambda a, x: a[0] + a[1] * x, priors=[s0, s1], silent=True)
                pr = res.priors[0]
            else:
                res = pe.fits.least_squares(xs, ys, lambda a, x: a[0] + a[1] * x, priors={1: s0}, silent=True)
                pr = res.priors[1]
            pr.gamma_method()
            r = {'k': 'ok', 'v': ratx(float(pr.value)), 'e': ratx(float(pr.dvalue))}
        except Exception as e:  # noqa: BLE001
            r = {'k': 'exc', 't': type(e).__name__}
        cases.append({'id': 'prior-%03d' % i, 'ev': 'prior', 's': s0, 'res': r})
        ctx.nontrivial.add(('prior', s0))
    return cases


def plottable_cases(rng, n, ctx):
    cases = []
    for i in range(n):
        T = int(rng.integers(3, 12))
        content = []
        for t in range(T):
            content.append(None if rng.random() < 0.25 and t not in (0,) else pe.pseudo_Obs(float(rng.normal()), float(rng.uniform(0.01, 0.5)), 'C', samples=20))
        c = pe.Corr(content)
        c.gamma_method()
        xs, ysv, ye = c.plottable()
        defined = [t for t in range(T) if c.content[t] is not None]
        cases.append({'id': 'plot-%03d' % i, 'ev': 'plottable', 'xs': [int(x) for x in xs], 'ys': [ratx(float(v)) for v in ysv], 'yerrs': [ratx(float(v)) for v in ye],
                      'defined': defined, 'values': [rat(float(c.content[t][0].value)) for t in defined],
                      'dvalues': [rat(float(c.content[t][0].dvalue)) for t in defined]})
        # the view is of the errors the entries carry NOW: re-analyse them by another route (entry by entry, other parameters) and look again
        for t in defined:
            c.content[t][0].gamma_method(S=0 if t % 2 else 4.0)
        xs, ysv, ye = c.plottable()
        cases.append({'id': 'plot-%03d-again' % i, 'ev': 'plottable', 'xs': [int(x) for x in xs], 'ys': [ratx(float(v)) for v in ysv], 'yerrs': [ratx(float(v)) for v in ye],
                      'defined': defined, 'values': [rat(float(c.content[t][0].value)) for t in defined],
                      'dvalues': [rat(float(c.content[t][0].dvalue)) for t in defined]})
    return cases


def run(ctx):
    rng = np.random.default_rng(ctx.seed)
    q = ctx.quick
    cases = grid_cases(ctx, 'Gen_Format_small.cfg' if q else 'Gen_Format.cfg', 7 if q else 1)
    cases += misc_cases(rng, 150 if q else 2000, ctx)
    cases += prior_cases(rng, 60 if q else 400, ctx)
    cases += plottable_cases(rng, 10 if q else 100, ctx)
    ctx.validate('FormatTrace', cases)
