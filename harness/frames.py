"""Snapshots of the arguments of a public call, for frame conditions ("the call leaves what it was given as it was").

A snapshot is a JSON-safe value (see jsonsafe): observables by their projection, arrays / lists / tuples element-wise (reals as exact
rational text), dictionaries by sorted keys, everything else by type and text.  Two snapshots are compared for equality inside TLC
(`frame` events of the trace specifications): a call that scribbles on a list, an array or an observable it was handed is rejected."""
import json

import numpy as np

import pyerrors as pe

from .jsonsafe import rat
from .pe_project import project_obs


def snap(x, depth=0):
    if isinstance(x, pe.Obs):
        return {'k': 'obs', 'o': project_obs(x)}
    if isinstance(x, pe.CObs):
        return {'k': 'cobs', 're': snap(x.real, depth + 1), 'im': snap(x.imag, depth + 1)}
    if isinstance(x, pe.Corr):
        return {'k': 'corr', 'T': int(x.T), 'N': int(x.N), 'prange': [int(v) for v in x.prange] if x.prange else [], 'tag': str(x.tag),
                'content': [snap(None if it is None else list(np.asarray(it, dtype=object).reshape(-1)), depth + 1) for it in x.content]}
    if x is None:
        return {'k': 'none'}
    if isinstance(x, (bool, np.bool_)):
        return {'k': 'bool', 'v': bool(x)}
    if isinstance(x, (int, np.integer)):
        return {'k': 'int', 'v': rat(int(x))}
    if isinstance(x, (float, np.floating)):
        return {'k': 'float', 'v': rat(float(x)) if np.isfinite(x) else 'nan'}
    if isinstance(x, (complex, np.complexfloating)):
        return {'k': 'complex', 're': rat(float(x.real)), 'im': rat(float(x.imag))}
    if isinstance(x, str):
        return {'k': 'str', 'v': x}
    if isinstance(x, range):
        return {'k': 'range', 'v': [int(x.start), int(x.stop), int(x.step)]}
    if isinstance(x, np.ndarray):
        return {'k': 'ndarray', 'shape': [int(s) for s in x.shape], 'dtype': str(x.dtype), 'a': [snap(v, depth + 1) for v in x.reshape(-1)]}
    if isinstance(x, (list, tuple)):
        return {'k': type(x).__name__, 'a': [snap(v, depth + 1) for v in x]}
    if isinstance(x, dict):
        keys = sorted(x, key=lambda k: str(k))
        return {'k': 'dict', 'keys': [str(k) for k in keys], 'order': [str(k) for k in x], 'vals': [snap(x[k], depth + 1) for k in keys]}
    return {'k': 'other', 't': type(x).__name__}


def frame_event(cid, what, before, after_objs):
    """`before` = snap(...) taken before the call, after_objs = the same objects now.  The two snapshots travel as canonical JSON text:
    TLC compares two strings (equality of values of different shape is an evaluation error in TLC, of two strings never)."""
    return {'id': cid, 'ev': 'frame', 'what': what, 'before': json.dumps(before, sort_keys=True), 'after': json.dumps(snap(after_objs), sort_keys=True),
            'first': [], 'second': []}
