"""Running TLC with the numeric kernel on the classpath; parsing what it prints.

Everything a check learns from the specification comes through here:
  * model runs   (a MC_*.tla / *.cfg pair, exhaustive or -simulate)          -> states, transitions, invariant verdict
  * trace runs   (a *Trace.tla consuming an ndjson file of recorded cases)   -> REJECT / SKIP / KNOWN lines, DONE counters
"""
import concurrent.futures as cf
import json
import os
import re
import shutil
import subprocess
import sys
import tempfile
import time

VERIF = os.path.dirname(os.path.dirname(os.path.abspath(__file__)))
SPEC = os.path.join(VERIF, 'spec')
BUILD = os.path.join(VERIF, 'build')
JAVA_SRC = os.path.join(VERIF, 'java')
TLA_JAR = '/opt/veriftools/tla/tla2tools.jar'
DEPS_JAR = '/opt/veriftools/tla/CommunityModules-deps.jar'


class MachineryError(Exception):
    """The verification machinery itself failed (exit 2) - never a verdict about pyerrors."""


def ensure_build():
    srcs = []
    for root, _, files in os.walk(JAVA_SRC):
        srcs += [os.path.join(root, f) for f in files if f.endswith('.java')]
    stamp = os.path.join(BUILD, '.stamp')
    newest = max(os.path.getmtime(s) for s in srcs)
    if os.path.exists(stamp) and os.path.getmtime(stamp) >= newest:
        return
    os.makedirs(BUILD, exist_ok=True)
    r = subprocess.run(['javac', '-nowarn', '-cp', TLA_JAR, '-d', BUILD] + srcs, capture_output=True, text=True)
    if r.returncode != 0:
        raise MachineryError('javac failed:\n' + r.stdout + r.stderr)
    with open(stamp, 'w') as f:
        f.write(str(time.time()))


def scratch(prefix='verif.'):
    base = os.environ.get('VERIF_SCRATCH') or os.environ.get('TMPDIR') or '/tmp'
    return tempfile.mkdtemp(prefix=prefix, dir=base)


_STATS = re.compile(r'(\d+) states generated, (\d+) distinct states found')
_SIMSTATS = re.compile(r'The number of states generated: (\d+)')


def run_tlc(module, cfg=None, env=None, workers=1, timeout=600, extra=(), heap='2g', simulate=None, depth=None,
            seed=None, deadlock=False, cwd=SPEC):
    """Run TLC on spec/<module>.tla.  Returns a dict; raises MachineryError on parse/semantic errors."""
    ensure_build()
    meta = scratch('verif.tlcmeta.')
    cmd = ['timeout', str(int(timeout)), 'java', '-XX:+UseSerialGC' if workers == 1 else '-XX:+UseParallelGC', '-Xmx' + heap, '-Xss16m',
           '-cp', ':'.join([BUILD, TLA_JAR, DEPS_JAR]), 'tlc2.TLC',
           '-workers', str(workers), '-metadir', meta, '-noGenerateSpecTE']
    if cfg:
        cmd += ['-config', cfg]
    if not deadlock:
        cmd += ['-deadlock']          # -deadlock DISABLES deadlock checking
    if simulate:
        cmd += ['-simulate', simulate]
    if depth:
        cmd += ['-depth', str(depth)]
    if seed is not None:
        cmd += ['-seed', str(seed)]
    cmd += list(extra) + [module]
    e = dict(os.environ)
    e.pop('JAVA_TOOL_OPTIONS', None)
    if env:
        e.update({k: str(v) for k, v in env.items()})
    t0 = time.time()
    try:
        r = subprocess.run(cmd, cwd=cwd, env=e, capture_output=True, text=True)
    finally:
        shutil.rmtree(meta, ignore_errors=True)
    out = r.stdout + r.stderr
    res = {'cmd': ' '.join(cmd), 'rc': r.returncode, 'out': out, 'wall_s': time.time() - t0,
           'generated': 0, 'distinct': 0, 'timeout': r.returncode == 124}
    m = None
    for m in _STATS.finditer(out):
        pass
    if m:
        res['generated'], res['distinct'] = int(m.group(1)), int(m.group(2))
    else:
        m = _SIMSTATS.search(out)
        if m:
            res['generated'] = int(m.group(1))
    res['invariant_violated'] = bool(re.search(r'Invariant (\S+) is violated|Action property (\S+) is violated|Temporal properties were violated', out))
    m = re.search(r'Invariant (\S+) is violated', out) or re.search(r'Action property (\S+) is violated', out)
    res['violated_name'] = m.group(1) if m else None
    res['postcondition_failed'] = 'The postcondition' in out and 'violated' in out or 'Evaluating postcondition' in out and 'FALSE' in out
    res['assumption_failed'] = bool(re.search(r'Assumption .* is false', out))
    res['error'] = None
    if re.search(r'(Parsing or semantic analysis failed|\*\*\* Parse Error|Semantic errors|Unknown operator|Could not find module|Encountered ".*" at line)', out):
        res['error'] = 'parse'
    elif res['timeout']:
        res['error'] = 'timeout'
    elif re.search(r'Error: (TLC threw|Evaluating|In evaluation|The first argument|Attempted|An expression|TLC encountered|tlc2\.tool|The exception)', out) or 'java.lang.' in out and 'Exception' in out:
        if not res['invariant_violated']:
            res['error'] = 'eval'
    res['finished'] = 'Model checking completed' in out or 'Finished in' in out
    return res


def printed_tuples(out):
    """All <<...>> tuples printed by PrintT, parsed into python lists (TLC wraps long values over several lines:
    a tuple starts at a line beginning with << and ends where the brackets balance)."""
    res = []
    lines = out.splitlines()
    i = 0
    while i < len(lines):
        line = lines[i].strip()
        if line.startswith('<<'):
            buf = line
            j = i
            while not _balanced(buf) and j + 1 < len(lines) and j - i < 400:
                j += 1
                buf += ' ' + lines[j].strip()
            if _balanced(buf):
                try:
                    res.append(parse_tla_value(buf))
                    i = j + 1
                    continue
                except Exception:
                    pass
        i += 1
    return res


def _balanced(text):
    depth = 0
    instr = False
    k = 0
    n = len(text)
    while k < n:
        ch = text[k]
        if instr:
            if ch == '\\':
                k += 1
            elif ch == '"':
                instr = False
        elif ch == '"':
            instr = True
        elif text.startswith('<<', k):
            depth += 1
            k += 1
        elif text.startswith('>>', k):
            depth -= 1
            k += 1
        k += 1
    return depth == 0 and not instr


def parse_tla_value(text):
    """Parser for the subset of TLA+ values TLC prints: ints, strings, tuples, sets, records, functions (:>/@@), booleans."""
    pos = 0
    n = len(text)

    def ws():
        nonlocal pos
        while pos < n and text[pos] in ' \t\r\n':
            pos += 1

    def val():
        nonlocal pos
        ws()
        if text.startswith('<<', pos):
            pos += 2
            items = []
            ws()
            if text.startswith('>>', pos):
                pos += 2
                return items
            while True:
                items.append(val())
                ws()
                if text.startswith('>>', pos):
                    pos += 2
                    return items
                assert text[pos] == ',', (text[pos:pos + 20])
                pos += 1
        if text[pos] == '{':
            pos += 1
            items = []
            ws()
            if text[pos] == '}':
                pos += 1
                return {'set': items}
            while True:
                items.append(val())
                ws()
                if text[pos] == '}':
                    pos += 1
                    return {'set': items}
                assert text[pos] == ','
                pos += 1
        if text[pos] == '[':
            pos += 1
            rec = {}
            while True:
                ws()
                m = re.compile(r'([A-Za-z_][A-Za-z0-9_]*)\s*\|->').match(text, pos)
                assert m, text[pos:pos + 30]
                pos = m.end()
                rec[m.group(1)] = val()
                ws()
                if text[pos] == ']':
                    pos += 1
                    return rec
                assert text[pos] == ','
                pos += 1
        if text[pos] == '(':
            # function printed as (k :> v @@ k :> v)
            pos += 1
            fn = {}
            while True:
                k = val()
                ws()
                assert text.startswith(':>', pos)
                pos += 2
                v = val()
                fn[json.dumps(k) if not isinstance(k, (str, int)) else k] = v
                ws()
                if text[pos] == ')':
                    pos += 1
                    return fn
                assert text.startswith('@@', pos)
                pos += 2
        if text[pos] == '"':
            pos += 1
            buf = []
            while text[pos] != '"':
                if text[pos] == '\\':
                    pos += 1
                    c = text[pos]
                    buf.append({'n': '\n', 't': '\t', '"': '"', '\\': '\\'}.get(c, c))
                else:
                    buf.append(text[pos])
                pos += 1
            pos += 1
            return ''.join(buf)
        m = re.compile(r'-?\d+').match(text, pos)
        if m:
            pos = m.end()
            return int(m.group(0))
        m = re.compile(r'[A-Za-z_][A-Za-z0-9_]*').match(text, pos)
        if m:
            pos = m.end()
            w = m.group(0)
            return True if w == 'TRUE' else False if w == 'FALSE' else {'id': w}
        raise ValueError('cannot parse TLA+ value at: ' + text[pos:pos + 40])

    v = val()
    ws()
    if pos != n:
        raise ValueError('trailing text: ' + text[pos:pos + 40])
    return v


# ---------------------------------------------------------------------------------------------- trace validation
def _validate_shard(module, path, timeout, heap, extra_env, stateful=False, cfg=None):
    """Validate one ndjson file of cases with spec/<module>.tla.  A case on which the specification cannot be
    evaluated (TLC evaluation error) is reported as a rejection of that case and the remainder is still examined."""
    with open(path) as f:
        lines = [ln for ln in f.read().split('\n') if ln.strip()]
    total = len(lines)
    rejects, skips, known, infos = [], [], [], []
    consumed = 0
    generated = distinct = 0
    wall = 0.0
    offset = 0
    cur = path
    tmpfiles = []
    guard = 0
    while True:
        guard += 1
        env = {'TRACE_FILE': cur}
        env.update(extra_env or {})
        r = run_tlc(module, cfg=cfg or (module + '.cfg'), env=env, workers=1, timeout=timeout, heap=heap)
        wall += r['wall_s']
        generated += r['generated']
        distinct += r['distinct']
        done = None
        for t in printed_tuples(r['out']):
            if not t or not isinstance(t[0], str):
                continue
            if t[0] == 'REJECT':
                rejects.append(t[1:])
            elif t[0] == 'SKIP':
                skips.append(t[1:])
            elif t[0] == 'KNOWN':
                known.append(t[1:])
            elif t[0] == 'INFO':
                infos.append(t[1:])
            elif t[0] == 'DONE':
                done = t[1:]
        if r['error'] == 'parse':
            raise MachineryError('TLC could not parse %s:\n%s' % (module, r['out'][-3000:]))
        if r['error'] == 'timeout':
            raise MachineryError('TLC timed out on %s (%s)' % (module, cur))
        if done is not None and r['error'] is None:
            consumed += done[0]
            nrej_run = sum(1 for t in printed_tuples(r['out']) if t and t[0] == 'REJECT')
            nskip_run = sum(1 for t in printed_tuples(r['out']) if t and t[0] == 'SKIP')
            nknown_run = sum(1 for t in printed_tuples(r['out']) if t and t[0] == 'KNOWN')
            if (nrej_run, nskip_run, nknown_run) != (done[1], done[2], done[3]):
                raise MachineryError('verdict lines lost while parsing TLC output of %s: parsed %s, TLC counted %s' % (module, (nrej_run, nskip_run, nknown_run), done[1:]))
            break
        # evaluation error: find the case it happened on
        m = None
        for m in re.finditer(r'^/?\\?\s*l = (\d+)\s*$', r['out'], re.M):
            pass
        if m is None:
            raise MachineryError('TLC failed on %s without a position:\n%s' % (module, r['out'][-3000:]))
        if guard > 25:
            # the specification cannot be evaluated on case after case: enough rejections are on record, the rest is not examined
            with open(cur) as f:
                remaining = len([ln for ln in f.read().split('\n') if ln.strip()])
            rejects.append(['shard', 'specification could not be evaluated on 25 cases of this shard; %d further cases not examined' % remaining])
            consumed += remaining
            break
        lcur = int(m.group(1))                   # 1-based index (within cur) of the case being evaluated
        with open(cur) as f:
            curlines = [ln for ln in f.read().split('\n') if ln.strip()]
        bad = json.loads(curlines[lcur - 1])
        msg = re.search(r'Error: (.*?)(?:\n\n|\nError: The behavior)', r['out'], re.S)
        rejects.append([bad.get('id', '?'), 'spec-evaluation-failed: ' + (msg.group(1).strip()[:400] if msg else 'unknown')])
        consumed += lcur
        rest = curlines[lcur:]
        if stateful:
            # the remainder of this history cannot be judged without its state: resume at the next history
            k = 0
            while k < len(rest) and json.loads(rest[k]).get('ev') != 'reset':
                k += 1
            consumed += k
            rest = rest[k:]
        if not rest:
            break
        fd, cur = tempfile.mkstemp(prefix='rest.', suffix='.ndjson', dir=os.path.dirname(path))
        os.close(fd)
        tmpfiles.append(cur)
        with open(cur, 'w') as f:
            f.write('\n'.join(rest) + '\n')
    for t in tmpfiles:
        os.unlink(t)
    if consumed != total:
        raise MachineryError('%s consumed %d of %d cases of %s' % (module, consumed, total, path))
    return {'cases': total, 'rejects': rejects, 'skips': skips, 'known': known, 'infos': infos,
            'generated': generated, 'distinct': distinct, 'wall_s': wall}


def validate_cases(module, cases, shards=16, timeout=900, heap='2g', extra_env=None, keep_dir=None, group=None, cfg=None):
    """cases: list of dicts (already restricted to ints / strings / bools / lists / dicts, see jsonsafe).
    Splits over <= shards JVMs.  Returns merged result."""
    from .jsonsafe import dumps
    if not cases:
        return {'cases': 0, 'rejects': [], 'skips': [], 'known': [], 'infos': [], 'generated': 0, 'distinct': 0, 'wall_s': 0.0}
    d = keep_dir or scratch('verif.trace.')
    try:
        k = max(1, min(shards, len(cases)))
        paths = []
        if group:
            # histories stay whole and in order: distribute groups, not cases
            order, groups = [], {}
            for c in cases:
                g = c[group]
                if g not in groups:
                    groups[g] = []
                    order.append(g)
                groups[g].append(c)
            k = max(1, min(shards, len(order)))
            parts = [[c for g in order[i::k] for c in groups[g]] for i in range(k)]
        else:
            parts = [cases[i::k] for i in range(k)]
        for i in range(k):
            part = parts[i]
            p = os.path.join(d, '%s.%02d.ndjson' % (module, i))
            with open(p, 'w') as f:
                for c in part:
                    f.write(dumps(c) + '\n')
            paths.append(p)
        merged = {'cases': 0, 'rejects': [], 'skips': [], 'known': [], 'infos': [], 'generated': 0, 'distinct': 0, 'wall_s': 0.0}
        with cf.ThreadPoolExecutor(max_workers=k) as ex:
            futs = [ex.submit(_validate_shard, module, p, timeout, heap, extra_env, bool(group), cfg) for p in paths]
            for fu in futs:
                r = fu.result()
                for key in ('cases', 'generated', 'distinct'):
                    merged[key] += r[key]
                for key in ('rejects', 'skips', 'known', 'infos'):
                    merged[key] += r[key]
                merged['wall_s'] = max(merged['wall_s'], r['wall_s'])
        return merged
    finally:
        if keep_dir is None:
            shutil.rmtree(d, ignore_errors=True)


def model_check(module, cfg=None, workers=16, timeout=900, heap='8g', env=None, extra=()):
    r = run_tlc(module, cfg=cfg or module + '.cfg', workers=workers, timeout=timeout, heap=heap, env=env, extra=extra)
    if r['error'] in ('parse', 'timeout'):
        raise MachineryError('model run %s failed (%s):\n%s' % (module, r['error'], r['out'][-3000:]))
    if r['error'] == 'eval':
        raise MachineryError('model run %s: evaluation error:\n%s' % (module, r['out'][-3000:]))
    return r


if __name__ == '__main__':
    ensure_build()
    print('build ok')
