"""Orchestration: ./check <ID> [--tier quick|thorough] [--replay file] [--seed n]

Exit 0: property held on everything explored (KNOWN-FINDING lines possible); exit 1: VIOLATION line printed;
exit 2: the machinery failed (never a verdict).
"""
import argparse
import importlib
import json
import os
import sys
import time
import traceback

VERIF = os.path.dirname(os.path.dirname(os.path.abspath(__file__)))
REPO = os.environ.get('VERIF_REPO', '/repo')
# pyerrors is always imported from /repo's working tree
sys.path.insert(0, REPO)
sys.path.insert(0, VERIF)
os.environ.setdefault('MPLBACKEND', 'Agg')
os.environ.setdefault('PYTHONHASHSEED', '0')

from harness import tlc  # noqa: E402

LEVELS = {'C18': 'fault_enumeration'}


class Ctx:
    def __init__(self, pid, tier, seed, only=None):
        self.pid, self.tier, self.seed, self.only = pid, tier, seed, only
        self.quick = tier == 'quick'
        self.states = 0
        self.transitions = 0
        self.model_runs = []
        self.traces = 0
        self.cases = 0
        self.rejects = []        # (case id, clause)
        self.known = []          # (case id, what)
        self.skips = 0
        self.samples = []
        self.extra = {}
        self.case_index = {}     # id -> case (for replay files)
        self.exhaustive = False
        self.nontrivial = set()

    # -- model runs ---------------------------------------------------------------------------------------
    def model(self, module, cfg=None, workers=16, timeout=900, env=None, expect_violation=False, heap='8g'):
        if self.only is not None:
            return None          # replay of recorded cases: the model runs are not repeated
        timeout = max(timeout, 1800 if self.quick else 7200)
        r = tlc.model_check(module, cfg=cfg, workers=workers, timeout=timeout, env=env, heap=heap)
        self.states += r['distinct']
        self.transitions += r['generated']
        ok = not r['invariant_violated'] and not r['assumption_failed'] and r['rc'] == 0
        self.model_runs.append({'module': module, 'cfg': cfg or module + '.cfg', 'distinct': r['distinct'], 'generated': r['generated'],
                                'ok': ok, 'violated': r['violated_name'], 'wall_s': round(r['wall_s'], 1)})
        if not ok and not expect_violation:
            if r['invariant_violated']:
                self.rejects.append(('model:' + module, 'invariant ' + str(r['violated_name']) + ' violated in the specification'))
            else:
                raise tlc.MachineryError('model run %s failed rc=%s:\n%s' % (module, r['rc'], r['out'][-2500:]))
        return r

    # -- trace validation ---------------------------------------------------------------------------------
    def validate(self, module, cases, shards=16, timeout=1200, heap='2g', env=None, count_traces=True, group=None, cfg=None):
        if self.only is not None:
            if group:
                keep = {c[group] for c in cases if c['id'] in self.only or any(str(o).startswith(str(c['id'])) for o in self.only)}
                cases = [c for c in cases if c[group] in keep]
            else:
                cases = [c for c in cases if c['id'] in self.only or any(str(o).startswith(str(c['id'])) for o in self.only)]
        for c in cases:
            self.case_index[c['id']] = (module, c)
            # what was actually exercised: cases per event kind (and per action of the state-machine traces) - an event kind that
            # never occurs means the clause it carries was not exercised in this run
            kind = str(c.get('ev'))
            act = c.get('act')
            if isinstance(act, dict):
                kind += ':' + str(act.get('a'))
            elif isinstance(act, str):
                kind += ':' + act
            by = self.extra.setdefault('cases_by_event', {})
            by[module + '.' + kind] = by.get(module + '.' + kind, 0) + 1
        if not self.quick:
            timeout = max(timeout, 7200)          # the thorough tier may share the machine: a slow shard is not a verdict
        r = tlc.validate_cases(module, cases, shards=shards, timeout=timeout, heap=heap, extra_env=env, group=group, cfg=cfg)
        self.states += r['distinct']
        self.transitions += r['generated']
        self.cases += r['cases']
        if count_traces:
            self.traces += r['cases']
        self.skips += len(r['skips'])
        for t in r['rejects']:
            self.rejects.append((str(t[0]), str(t[1]) if len(t) > 1 else ''))
        for t in r['known']:
            self.known.append((str(t[0]), str(t[1]) if len(t) > 1 else ''))
        self.extra.setdefault('infos', [])
        self.extra['infos'] += r['infos'][:20]
        return r

    def sample(self, s):
        if len(self.samples) < 6:
            self.samples.append(s)


def load_known():
    p = os.path.join(VERIF, 'known_findings.json')
    if not os.path.exists(p):
        return []
    with open(p) as f:
        return json.load(f)['findings']


def main(argv=None):
    ap = argparse.ArgumentParser()
    ap.add_argument('pid')
    ap.add_argument('--tier', default=os.environ.get('VERIF_TIER', 'quick'), choices=['quick', 'thorough'])
    ap.add_argument('--seed', type=int, default=int(os.environ.get('VERIF_SEED', '20261001')))
    ap.add_argument('--replay')
    args = ap.parse_args(argv)
    pid = args.pid.upper()
    t0 = time.time()
    only = None
    seed, tier = args.seed, args.tier
    if args.replay:
        with open(args.replay) as f:
            rp = json.load(f)
        seed, tier, only = rp['seed'], rp['tier'], set(rp['case_ids'])
        if any(i.startswith('model:') for i in only):
            only = None
    ctx = Ctx(pid, tier, seed, only)
    try:
        tlc.ensure_build()
        mod = importlib.import_module('harness.props.' + pid.lower())
        mod.run(ctx)
    except tlc.MachineryError as e:
        print('MACHINERY-ERROR', pid, str(e)[:6000])
        return 2
    except Exception as e:  # noqa: BLE001
        traceback.print_exc()
        tb = traceback.extract_tb(e.__traceback__)
        inner = tb[-1] if tb else None
        from_impl = [fr for fr in tb if fr.filename.startswith(REPO + '/pyerrors')]
        if from_impl and (inner.filename.startswith(REPO + '/pyerrors') or '/site-packages/' in inner.filename):
            # a public call that succeeds on every input of this driver on a conforming tree raised inside pyerrors:
            # the implementation left the behaviour the specification describes
            where = '%s:%s in %s' % (os.path.basename(from_impl[-1].filename), from_impl[-1].lineno, from_impl[-1].name)
            ctx.rejects.append(('driver', 'pyerrors raised %s where the specification defines a result (%s)' % (type(e).__name__, where)))
            mod = importlib.import_module('harness.props.' + pid.lower())
        else:
            print('MACHINERY-ERROR', pid, 'unexpected exception in the harness')
            return 2

    known_file = [k for k in load_known() if k['property'] == pid and k.get('status', 'open') == 'open']
    listed = {k['what'] for k in known_file}
    hit = {}
    violations = list(ctx.rejects)
    for cid, what in ctx.known:
        if what in listed:
            hit.setdefault(what, []).append(cid)
        else:
            violations.append((cid, 'deviation not listed in known_findings.json: ' + what))
    for what, ids in sorted(hit.items()):
        print('KNOWN-FINDING: property=%s %s (%d cases, e.g. %s)' % (pid, what, len(ids), ids[0]))

    wall = time.time() - t0
    level = LEVELS.get(pid, 'model_checking')
    cov = {
        'states': int(ctx.states), 'transitions': int(ctx.transitions),
        'traces_validated_against_impl': int(ctx.traces),
        'evaluations': int(max(ctx.cases, 1)),
        'distinct_nontrivial': int(len(ctx.nontrivial)) if ctx.nontrivial else int(ctx.cases),
        'rule': getattr(mod, 'RULE', ''),
        'samples': ctx.samples or [{'note': 'no samples recorded'}],
        'model_runs': ctx.model_runs,
        'undecided': int(ctx.skips),
        'known_findings_hit': {k: len(v) for k, v in hit.items()},
        'exhaustive': bool(ctx.exhaustive),
    }
    cov.update(ctx.extra)
    ev = {'property_id': pid, 'tier': tier, 'seed': int(seed), 'level': level, 'coverage': cov,
          'assumptions': getattr(mod, 'ASSUMPTIONS', []), 'wall_s': round(wall, 2), 'violations': len(violations)}
    # checks of the specification beyond the listed properties (ids X..) keep their evidence apart from the per-property files
    extra = pid.startswith('X')
    evdir = os.path.join(VERIF, 'evidence', 'extra') if extra else os.path.join(VERIF, 'evidence')
    if os.path.realpath(REPO) != '/repo':
        # a run against a scratch copy / snapshot is not evidence about /repo: kept apart (not committed)
        evdir = os.path.join(VERIF, 'evidence', 'scratch')
    os.makedirs(evdir, exist_ok=True)
    if not args.replay:
        with open(os.path.join(evdir, pid + '.json'), 'w') as f:
            json.dump(ev, f, indent=1)
    if violations:
        rdir = os.path.join(VERIF, 'evidence', 'replays', pid)
        os.makedirs(rdir, exist_ok=True)
        path = os.path.join(rdir, 'seed%d-%s.json' % (seed, tier))
        ids = sorted({v[0].split('.re')[0].split('.im')[0] for v in violations})
        recorded = {}
        for i in ids[:10]:
            if i in ctx.case_index:
                recorded[i] = {'module': ctx.case_index[i][0], 'case': ctx.case_index[i][1]}
        with open(path, 'w') as f:
            json.dump({'property': pid, 'seed': seed, 'tier': tier, 'case_ids': ids, 'rejections': violations[:200],
                       'recorded_cases': recorded}, f, indent=1)
        for v in violations[:25]:
            print('REJECTED', pid, v[0], '::', v[1])
        print(('EXTRA-VIOLATION check=%s replay=%s' if extra else 'VIOLATION property=%s replay=%s') % (pid, path))
        return 1
    print('OK %s tier=%s seed=%d cases=%d states=%d skipped=%d wall=%.1fs' % (pid, tier, seed, ctx.cases, ctx.states, ctx.skips, wall))
    return 0


if __name__ == '__main__':
    sys.exit(main())
