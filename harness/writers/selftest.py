"""Self test of the writers:  /venv/bin/python -m harness.writers.selftest   (from /verif)

For every format: write a small synthetic set (2 replicas with replica numbers of
different digit count, 6-9 configurations each, first configuration and spacing
not 1, every stored number distinct), read it with the REAL pyerrors reader and
compare the per-configuration samples, configuration lists and replica names
with what was written (after the reduction the reader applies, re-computed here
independently).  Then decode the sample files shipped with pyerrors with the
tiny decoders of this package and check that re-encoding reproduces the bytes.

One line per format; exit status 1 if anything failed.
    --probes   additionally run the probes behind the "surprises" of FORMATS.md
    --keep     keep the temporary directory
"""

import contextlib
import io
import math
import os
import shutil
import sys
import tempfile
import traceback
import warnings

import numpy as np

sys.path.insert(0, '/repo')
import pyerrors as pe  # noqa: E402   (only the self test uses pyerrors)
import pyerrors.input.openQCD as oq  # noqa: E402
import pyerrors.input.sfcf as sfin  # noqa: E402
import pyerrors.input.hadrons as hin  # noqa: E402

from . import openqcd as w_oq  # noqa: E402
from . import sfcf as w_sf  # noqa: E402
from . import hadrons as w_hd  # noqa: E402
from .common import traj_to_idl  # noqa: E402

SAMPLES_OQ = '/repo/tests/data/openqcd_test'
SAMPLES_SF = '/repo/tests/data/sfcf_test'

# replica number -> (first config, spacing, number of configs)
REPS = {2: (12, 4, 7), 10: (96, 3, 9)}      # 96, 99, 102: digit count changes as well


def cfgs_of(k):
    first, step, n = REPS[k]
    return [first + i * step for i in range(n)]


def quiet(fn, *args, **kwargs):
    """Call a reader with its prints and warnings swallowed."""
    with contextlib.redirect_stdout(io.StringIO()), warnings.catch_warnings():
        warnings.simplefilter('ignore')
        return fn(*args, **kwargs)


def samples(obs, name):
    return np.asarray(obs.deltas[name]) + obs.r_values[name]


def check_obs(obs, expected, what):
    """expected: {replica_name: (list of config numbers, list of values)}"""
    if sorted(obs.names) != sorted(expected):
        raise AssertionError('%s: names %r != %r' % (what, obs.names, sorted(expected)))
    for name, (idl, vals) in expected.items():
        if list(obs.idl[name]) != list(idl):
            raise AssertionError('%s: idl[%s] %r != %r' % (what, name, list(obs.idl[name]), list(idl)))
        got = samples(obs, name)
        if len(got) != len(vals) or not np.allclose(got, vals, rtol=1e-12, atol=1e-13):
            raise AssertionError('%s: samples[%s] %r != %r' % (what, name, got, vals))


def reencode_check(sample_path, new_path):
    a = open(sample_path, 'rb').read()
    b = open(new_path, 'rb').read()
    if a != b:
        n = next((i for i in range(min(len(a), len(b))) if a[i] != b[i]), min(len(a), len(b)))
        raise AssertionError('re-encoding of %s differs at byte %d (lengths %d / %d)'
                             % (sample_path, n, len(a), len(b)))


def check_desc(desc):
    """The returned record boundaries must tile the file exactly."""
    for d in desc:
        size = os.path.getsize(d['path'])
        pos = d['header_len']
        for a, b, _ in d['records']:
            assert a == pos and b > a, (d['path'], a, b, pos)
            pos = b
        assert pos == size, (d['path'], pos, size)


# ----------------------------------------------------------------------------
# 1. rwms
# ----------------------------------------------------------------------------

def rw_x(k, cfg, irw, f, s):
    # small, distinct -ln(w) values (exp(-x) must not under/overflow)
    return 0.01 * k + 0.001 * cfg + 1e-5 * (100 * irw + 10 * f + s) - 0.5


def test_rwms(tmp, version):
    nfct, nsrc = ([1, 1], [3, 2]) if version == '1.4' else ([2, 1], [3, 2])
    nrw = len(nsrc)
    replicas = {}
    for k in REPS:
        replicas[k] = [(cfg, [[[rw_x(k, cfg, i, f, s) for s in range(nsrc[i])]
                               for f in range(nfct[i])] for i in range(nrw)],
                        {'sqn': [[[7.0 + rw_x(k, cfg, i, f, s) for s in range(nsrc[i])]
                                  for f in range(nfct[i])] for i in range(nrw)]})
                       for cfg in cfgs_of(k)]
    d = os.path.join(tmp, 'rwms_' + version)
    desc = w_oq.write_rwms(d, 'ens', replicas, version, nfct, nsrc, postfix='ms1')
    check_desc(desc)

    def expect(i, sl=slice(None)):
        exp = {}
        for k in REPS:
            vals = []
            for cfg, p, _ in replicas[k]:
                w = 1.0
                for f in range(nfct[i]):
                    w *= sum(math.exp(-x) for x in p[i][f]) / nsrc[i]
                vals.append(w)
            idl = traj_to_idl(cfgs_of(k), True)
            exp['ens|r%d' % k] = (idl[sl], vals[sl])
        return exp

    assert [x['rep_name'] for x in desc] == ['ens|r2', 'ens|r10']
    res = quiet(oq.read_rwms, d, 'ens', version=version, postfix='ms1')
    assert len(res) == nrw
    for i in range(nrw):
        check_obs(res[i], expect(i), 'rwms %s rw %d' % (version, i))
    # r_start / r_stop / r_step are given in mapped config numbers (1, 2, ...)
    res = quiet(oq.read_rwms, d, 'ens', version=version, postfix='ms1',
                r_start=[2, 1], r_stop=[7, 9], r_step=1)
    exp = expect(0)
    exp['ens|r2'] = (exp['ens|r2'][0][1:], exp['ens|r2'][1][1:])
    check_obs(res[0], exp, 'rwms %s r_start' % version)
    # explicit files + names, in reader order
    res = quiet(oq.read_rwms, d, '', version=version, files=['ensr2.ms1.dat', 'ensr10.ms1.dat'],
                names=['ens|r2', 'ens|r10'])
    check_obs(res[nrw - 1], expect(nrw - 1), 'rwms %s files' % version)
    return '2 replicas x %d rw factors, idl %s / %s' % (
        nrw, list(res[0].idl['ens|r2'])[:3], list(res[0].idl['ens|r10'])[:3])


def reencode_rwms(tmp):
    d = os.path.join(tmp, 're_rwms')
    dec = w_oq.decode_rwms(SAMPLES_OQ + '/sfqcdr1.rwms.dat', '1.6')
    w_oq.write_rwms(d, 'sfqcd', {1: dec['records']}, '1.6', dec['nfct'], dec['nsrc'], postfix='rwms')
    reencode_check(SAMPLES_OQ + '/sfqcdr1.rwms.dat', d + '/sfqcdr1.rwms.dat')
    dec = w_oq.decode_rwms(SAMPLES_OQ + '/openqcd2r1.ms1.dat', '2.0')
    w_oq.write_rwms(d, 'openqcd2', {1: dec['records']}, '2.0', dec['nfct'], dec['nsrc'])
    reencode_check(SAMPLES_OQ + '/openqcd2r1.ms1.dat', d + '/openqcd2r1.ms1.dat')
    return 'sfqcdr1.rwms.dat (1.6) and openqcd2r1.ms1.dat (2.0) byte-identical'


# ----------------------------------------------------------------------------
# 2a. ms.dat (openQCD flow)
# ----------------------------------------------------------------------------

def fl_v(k, cfg, obs, fl, t):
    return 0.1 * k + 0.001 * cfg + 1e-6 * (1000 * obs + 10 * fl + t)


def test_ms_openqcd(tmp):
    dn, nn, tmax, eps, L = 2, 5, 4, 0.02, 4
    replicas = {k: [(cfg, [[[fl_v(k, cfg, o, fl, t) for t in range(tmax)] for fl in range(nn + 1)]
                           for o in range(3)]) for cfg in cfgs_of(k)] for k in REPS}
    d = os.path.join(tmp, 'ms_openqcd')
    desc = w_oq.write_ms_openqcd(d, 'ens', replicas, dn, nn, tmax, eps)
    check_desc(desc)
    assert [x['rep_name'] for x in desc] == ['ens|r2', 'ens|r10']

    # read_qtop: flow index round((c L)^2 / 8 / eps / dn), sum over all timeslices of Qsl
    for idx in (0, 3, 5):
        c = math.sqrt(8 * idx * eps * dn) / L
        assert round((c * L) ** 2 / 8 / eps / dn) == idx
        exp = {}
        for k in REPS:
            vals = [sum(p[2][idx]) for _, p in replicas[k]]
            exp['ens|r%d' % k] = (traj_to_idl(cfgs_of(k), False), vals)
        q = quiet(oq.read_qtop, d, 'ens', c, version='openQCD', L=L)
        check_obs(q, exp, 'read_qtop openQCD idx %d' % idx)
        assert q.tag == {'T': tmax - 1, 'L': L}
    # integer charge / sector projection
    qs = quiet(oq.read_qtop_sector, d, 'ens', c, target=1, version='openQCD', L=L)
    exp1 = {n: (i, [1 if round(v) == 1 else 0 for v in vals]) for n, (i, vals) in exp.items()}
    check_obs(qs, exp1, 'read_qtop_sector')

    # energy density: mean over timeslices xmin .. tmax-xmin-1 of Ysl (Wsl with plaquette=True),
    # divided by L^3, one Obs per flow index n, key n*dn*eps.  Records are only used if
    # cfg % dtr_read == 0 (dtr_read = 1 here).
    xmin = 1
    for plaq in (False, True):
        E = quiet(oq._extract_flowed_energy_density, d, 'ens', 1, xmin, L, plaquette=plaq)
        assert sorted(E) == [n * dn * eps for n in range(nn + 1)]
        for n in range(nn + 1):
            exp = {}
            for k in REPS:
                vals = [np.mean(p[0 if plaq else 1][n][xmin:tmax - xmin]) / L ** 3
                        for _, p in replicas[k]]
                exp['ens|r%d' % k] = (traj_to_idl(cfgs_of(k), False), vals)
            check_obs(E[n * dn * eps], exp, 'energy density n=%d plaq=%s' % (n, plaq))
    return 'read_qtop, read_qtop_sector, _extract_flowed_energy_density (Ysl and Wsl)'


def reencode_ms_openqcd(tmp):
    d = os.path.join(tmp, 're_ms')
    dec = w_oq.decode_ms_openqcd(SAMPLES_OQ + '/openqcd2r1.ms.dat')
    w_oq.write_ms_openqcd(d, 'openqcd2', {1: dec['records']}, dec['dn'], dec['nn'], dec['tmax'], dec['eps'])
    reencode_check(SAMPLES_OQ + '/openqcd2r1.ms.dat', d + '/openqcd2r1.ms.dat')
    t0 = quiet(oq.extract_t0, d, '', dtr_read=3, xmin=0, spatial_extent=4,
               files=['openqcd2r1.ms.dat'], names=['openqcd2|r1'], fit_range=2)
    assert np.isclose(t0.value, 0.3816208266076627)
    return 'openqcd2r1.ms.dat byte-identical (extract_t0 reproduces the value of the pyerrors test)'


# ----------------------------------------------------------------------------
# 2b. gfms.dat (sfqcd flow)
# ----------------------------------------------------------------------------

def gf_v(k, cfg, j, fl, obs, t):
    return 0.1 * k + 0.001 * cfg + 1e-6 * (10000 * j + 1000 * fl + 10 * obs + t)


def test_gfms_sfqcd(tmp):
    ncs, tmax, L, tol, cmax = 4, 5, 4, 1e-7, 0.4
    out = []
    for zthfl in (2, 1):
        nfl = 2 if zthfl == 2 else 1
        replicas = {k: [(cfg, [[[[gf_v(k, cfg, j, fl, o, t) for t in range(tmax)] for o in range(8)]
                                for fl in range(nfl)] for j in range(ncs + 1)])
                        for cfg in cfgs_of(k)] for k in REPS}
        d = os.path.join(tmp, 'gfms_%d' % zthfl)
        desc = w_oq.write_gfms_sfqcd(d, 'ens', replicas, ncs, tmax, zthfl, L, tol, cmax)
        check_desc(desc)
        assert [x['rep_name'] for x in desc] == ['ens|r2', 'ens|r10']

        def expect(fn):
            return {'ens|r%d' % k: (traj_to_idl(cfgs_of(k), False), [fn(p) for _, p in replicas[k]])
                    for k in REPS}

        for c in (0.0, 0.1, 0.3, 0.4):
            j = round(c / (cmax / ncs))
            # Zeuthen_flow=True -> flow 0, False -> flow 1 (only present if zthfl == 2)
            q = quiet(oq.read_qtop, d, 'ens', c, version='sfqcd', Zeuthen_flow=True)
            check_obs(q, expect(lambda p: sum(p[j][0][0])), 'sfqcd qtop zeuthen c=%g' % c)
            assert q.tag == {'T': tmax - 1, 'L': L}
            if zthfl == 2:
                q = quiet(oq.read_qtop, d, 'ens', c, version='sfqcd')
                check_obs(q, expect(lambda p: sum(p[j][1][0])), 'sfqcd qtop wilson c=%g' % c)
        # gradient flow coupling: timeslice int(tmax/2) of observables 6 and 7 of flow 0
        j = round(0.3 / (cmax / ncs))
        t = (0.3 * L) ** 2 / 8
        norm = 0.012341170468270      # normdict[4] of read_gf_coupling
        g = quiet(oq.read_gf_coupling, d, 'ens', 0.3)
        check_obs(g, expect(lambda p: t * t * (5 / 3 * p[j][0][6][tmax // 2]
                                               - 1 / 12 * p[j][0][7][tmax // 2]) / norm),
                  'read_gf_coupling')
        out.append('zthfl=%d ok' % zthfl)
    return 'read_qtop (Zeuthen + Wilson), read_gf_coupling; ' + ', '.join(out)


def reencode_gfms(tmp):
    d = os.path.join(tmp, 're_gfms')
    dec = w_oq.decode_gfms_sfqcd(SAMPLES_OQ + '/sfqcdr1.gfms.dat')
    w_oq.write_gfms_sfqcd(d, 'sfqcd', {1: dec['records']}, dec['ncs'], dec['tmax'], dec['zthfl'],
                          dec['L'], dec['tol'], dec['cmax'])
    reencode_check(SAMPLES_OQ + '/sfqcdr1.gfms.dat', d + '/sfqcdr1.gfms.dat')
    return 'sfqcdr1.gfms.dat byte-identical'


# ----------------------------------------------------------------------------
# 3. ms5_xsf
# ----------------------------------------------------------------------------

def test_ms5_xsf(tmp):
    tmax = 6
    names = w_oq.MS5_BI + w_oq.MS5_BB

    def val(k, cfg, name, t, part):
        return 1000 * k + cfg + (100 * names.index(name) + 2 * t + part) / 10000

    replicas = {k: [(cfg, {n: [(val(k, cfg, n, t, 0), val(k, cfg, n, t, 1))
                               for t in range(tmax if n in w_oq.MS5_BI else 1)] for n in names})
                    for cfg in cfgs_of(k)] for k in REPS}
    d = os.path.join(tmp, 'ms5_xsf')
    desc = w_oq.write_ms5_xsf(d, 'ens', replicas, 'dd', tmax)
    check_desc(desc)
    assert [x['rep_name'] for x in desc] == ['ens|r2', 'ens|r10']
    for corr in ('gS', 'gA', 'lTt'):
        c = quiet(oq.read_ms5_xsf, d, 'ens', 'dd', corr)
        assert c.T == tmax
        for t in range(tmax):
            for part, o in ((0, c.content[t][0].real), (1, c.content[t][0].imag)):
                exp = {'ens|r%d' % k: (cfgs_of(k), [val(k, cfg, corr, t, part) for cfg in cfgs_of(k)])
                       for k in REPS}
                check_obs(o, exp, 'ms5_xsf %s t=%d part=%d' % (corr, t, part))
    for corr in w_oq.MS5_BB:
        c = quiet(oq.read_ms5_xsf, d, 'ens', 'dd', corr)
        for part, o in ((0, c.real), (1, c.imag)):
            exp = {'ens|r%d' % k: (cfgs_of(k), [val(k, cfg, corr, 0, part) for cfg in cfgs_of(k)])
                   for k in REPS}
            check_obs(o, exp, 'ms5_xsf %s part=%d' % (corr, part))
    # idl selection: per replica in the order of the (lexicographically) sorted files: r10, r2
    sel = [cfgs_of(10)[0:9:2] + [7777], cfgs_of(2)[:6]]
    c = quiet(oq.read_ms5_xsf, d, 'ens', 'dd', 'gP', idl=sel)
    exp = {'ens|r10': (sel[0][:-1], [val(10, cfg, 'gP', 2, 0) for cfg in sel[0][:-1]]),
           'ens|r2': (sel[1], [val(2, cfg, 'gP', 2, 0) for cfg in sel[1]])}
    check_obs(c.content[2][0].real, exp, 'ms5_xsf idl')
    return 'bi correlators gS gA lTt, bb g1 l1, real and imaginary parts, idl selection'


def reencode_ms5(tmp):
    d = os.path.join(tmp, 're_ms5')
    for k in (1, 2, 3):
        src = SAMPLES_OQ + '/ms5_xsf_T24L16r%d.ms5_xsf_dd.dat' % k
        dec = w_oq.decode_ms5_xsf(src)
        w_oq.write_ms5_xsf(d, 'ms5_xsf_T24L16', {k: dec['records']}, 'dd', dec['tmax'], dec['kappa'],
                           dec['csw'], dec['dF'], dec['zF'], dec['bnd'])
        reencode_check(src, d + '/ms5_xsf_T24L16r%d.ms5_xsf_dd.dat' % k)
    return 'ms5_xsf_T24L16r{1,2,3}.ms5_xsf_dd.dat byte-identical'


# ----------------------------------------------------------------------------
# 4. sfcf
# ----------------------------------------------------------------------------

SF_T = 5


def sf_specs():
    # order in the file: f_A (bi) wf 0, 1 ; f_1 (bb) wf/wf2 0..1 ; F_V0 (bib)
    specs = [w_sf.bi('f_A', wf=0), w_sf.bi('f_A', wf=1)]
    specs += [w_sf.bb('f_1', wf=a, wf2=b) for a in (0, 1) for b in (0, 1)]
    specs += [w_sf.bib('F_V0', wf=a, wf2=b) for a in (0, 1) for b in (0, 1)]
    return specs


def sf_val(k, cfg, ispec, t, part):
    return 1000 * k + cfg + (100 * ispec + 2 * t + part) / 10000


def sf_replicas():
    specs = sf_specs()
    reps = {}
    for k in REPS:
        reps['tst_r%d' % k] = [
            (cfg, {s: [(sf_val(k, cfg, i, t, 0), sf_val(k, cfg, i, t, 1))
                       for t in range(1 if s.corr_type == 'bb' else SF_T)]
                   for i, s in enumerate(specs)}) for cfg in cfgs_of(k)]
    return reps


def test_sfcf(tmp, version):
    layout, _ = w_sf.layout_of(version)
    specs = sf_specs()
    d = os.path.join(tmp, 'sfcf_' + version)
    desc = w_sf.write_sfcf(d, sf_replicas(), version)
    check_desc(desc)
    assert sorted(set(x['rep_name'] for x in desc)) == ['tst_|r10', 'tst_|r2']
    nread = 0
    for i, s in enumerate(specs):
        if layout == 'appended' and (s.wf, s.wf2 or 0) != (0, 0):
            continue        # appended layout: only the first block of a file can be read
        T = 1 if s.corr_type == 'bb' else SF_T
        for im in (False, True):
            res = quiet(sfin.read_sfcf, d, 'tst', s.name, quarks=s.quarks, corr_type=s.corr_type,
                        noffset=s.offset, wf=s.wf, wf2=s.wf2 or 0, version=version, im=im, silent=True)
            assert len(res) == T, (len(res), T)
            for t in range(T):
                exp = {'tst_|r%d' % k: (cfgs_of(k), [sf_val(k, cfg, i, t, int(im)) for cfg in cfgs_of(k)])
                       for k in REPS}
                check_obs(res[t], exp, 'sfcf %s %s t=%d im=%s' % (version, s, t, im))
            nread += 1
    # all three names in one call
    multi = quiet(sfin.read_sfcf_multi, d, 'tst', ['f_A', 'f_1', 'F_V0'], quarks_list=['lquark lquark'],
                  corr_type_list=['bi', 'bb', 'bib'], noffset_list=[0], wf_list=[0], wf2_list=[0],
                  version=version, silent=True, keyed_out=True)
    for name, i in (('f_A', 0), ('f_1', 2), ('F_V0', 6)):
        o = multi[name + '/lquark lquark/0/0/0'][0]
        exp = {'tst_|r%d' % k: (cfgs_of(k), [sf_val(k, cfg, i, 0, 0) for cfg in cfgs_of(k)]) for k in REPS}
        check_obs(o, exp, 'sfcf multi %s %s' % (version, name))
    return '%s layout, %d (correlator, part) combinations + read_sfcf_multi' % (layout, nread)


def reencode_sfcf(tmp):
    d = os.path.join(tmp, 're_sfcf')
    n = 0
    # separate: one run per file
    for name in ('f_A', 'f_1', 'F_V0'):
        src = SAMPLES_SF + '/data_o/test_r0/cfg1/' + name
        run, = w_sf.decode_sfcf_text(src)
        w_sf.write_sfcf(d + '/o', {'test_r0': [(1, dict(run['blocks']))]}, '2.0', header=run['header'])
        reencode_check(src, d + '/o/test_r0/cfg1/' + name)
        n += 1
    # compact
    src = SAMPLES_SF + '/data_c/data_c_r0/data_c_r0_n1'
    run, = w_sf.decode_sfcf_text(src)
    w_sf.write_sfcf(d + '/c', {'data_c_r0': [(1, dict(run['blocks']))]}, '2.0c', header=run['header'])
    reencode_check(src, d + '/c/data_c_r0/data_c_r0_n1')
    n += 1
    # appended: the header differs from run to run (date, gauge_name); take everything
    # except gauge_name / date from the first run and template those two
    for name in ('f_A', 'f_1', 'F_V0'):
        src = SAMPLES_SF + '/data_a/data_a_r0.' + name
        runs = w_sf.decode_sfcf_text(src)
        dates = {}
        recs = []
        for r in runs:
            hd = dict(r['header'])
            cfg = int(hd['gauge_name'].split('n')[-1])
            dates[cfg] = hd['date']
            recs.append((cfg, dict(r['blocks'])))
        header = [(k, '/{rep}_{sep}{cfg}' if k == 'gauge_name' else v) for k, v in runs[0]['header']]
        if len(set(dates.values())) > 1:
            # dates differ per run: write run by run and concatenate
            text = b''
            for cfg, corrs in recs:
                hdr = [(k, dates[cfg] if k == 'date' else v) for k, v in header]
                w_sf.write_sfcf(d + '/a_%d' % cfg, {'data_a_r0': [(cfg, corrs)]}, '2.0a', header=hdr)
                text += open(d + '/a_%d/data_a_r0.%s' % (cfg, name), 'rb').read()
            os.makedirs(d + '/a', exist_ok=True)
            open(d + '/a/data_a_r0.' + name, 'wb').write(text)
        else:
            w_sf.write_sfcf(d + '/a', {'data_a_r0': recs}, '2.0a', header=header)
        reencode_check(src, d + '/a/data_a_r0.' + name)
        n += 1
    return '%d sample files (data_o x3, data_c x1, data_a x3) byte-identical' % n


# ----------------------------------------------------------------------------
# 5. hadrons
# ----------------------------------------------------------------------------

def test_hadrons(tmp):
    T = 8
    d = os.path.join(tmp, 'hadrons')

    def val(k, cfg, m, t, part):
        return 1000 * k + cfg + (100 * m + 2 * t + part) / 10000

    for k in REPS:
        stem = 'mes_s%d' % k
        cfgs = cfgs_of(k)
        data0 = {cfg: [complex(val(k, cfg, 0, t, 0), val(k, cfg, 0, t, 1)) for t in range(T)] for cfg in cfgs}
        data1 = {cfg: [complex(val(k, cfg, 1, t, 0), val(k, cfg, 1, t, 1)) for t in range(T)] for cfg in cfgs}
        desc = w_hd.write_meson_hd5(d, stem, data0, meson='meson_0', gamma_snk='Gamma5', gamma_src='Gamma5',
                                    extra_mesons={'meson_1': ('GammaT', 'Gamma5', data1)})
        check_desc(desc)
        ens = 'ens%d' % k
        for m, kw in ((0, dict(meson='meson_0')), (1, dict(meson='meson_1')),
                      (1, dict(gammas=('GammaT', 'Gamma5'))), (0, dict(gammas=('Gamma5', 'Gamma5')))):
            corr = quiet(hin.read_meson_hd5, d, stem, ens, **kw)
            assert corr.T == T
            for t in range(T):
                check_obs(corr.content[t][0], {ens: (cfgs, [val(k, cfg, m, t, 0) for cfg in cfgs])},
                          'read_meson_hd5 %r t=%d' % (kw, t))
        for part, p in (('imag', 1), ('real', 0)):
            corr = quiet(hin.read_hd5, d + '/' + stem, ens, 'meson', attrs=1, part=part)
            check_obs(corr.content[3][0], {ens: (cfgs, [val(k, cfg, 1, 3, p) for cfg in cfgs])}, 'read_hd5 ' + part)
        corr = quiet(hin.read_hd5, d + '/' + stem, ens, 'meson', attrs={'gamma_snk': 'GammaT'}, part='complex')
        check_obs(corr.content[5][0].imag, {ens: (cfgs, [val(k, cfg, 1, 5, 1) for cfg in cfgs])}, 'read_hd5 complex')
        # idl selection
        for sel in (range(cfgs[1], cfgs[-1] + 1, REPS[k][1]), cfgs[:2] + cfgs[3:]):
            corr = quiet(hin.read_meson_hd5, d, stem, ens, idl=sel)
            check_obs(corr.content[0][0], {ens: (list(sel), [val(k, cfg, 0, 0, 0) for cfg in sel])}, 'hd5 idl')
    return 'read_meson_hd5 (label and gammas), read_hd5 (real / imag / complex), idl selection'


# ----------------------------------------------------------------------------
# probes behind the surprises listed in FORMATS.md (informational, never fail the run)
# ----------------------------------------------------------------------------

def outcome(fn, *a, **kw):
    try:
        r = quiet(fn, *a, **kw)
        return 'ok', r
    except Exception as e:    # noqa: BLE001
        return '%s: %s' % (type(e).__name__, str(e)[:110].replace('\n', ' ')), None


def probes(tmp):
    lines = []
    nfct, nsrc = [1], [2]

    def rw(k, cfgs):
        return {k: [(c, [[[rw_x(k, c, 0, 0, s) for s in range(2)]]]) for c in cfgs]}

    # P1 rwms: prefix containing 'r' -> name cut inside the prefix
    d = tmp + '/p1'
    w_oq.write_rwms(d, 'proj', {**rw(1, range(1, 7)), **rw(2, range(1, 7))}, '1.6', nfct, nsrc)
    st, r = outcome(oq.read_rwms, d, 'proj', version='1.6')
    lines.append("P1 read_rwms prefix 'proj': %s names=%s" % (st, r[0].names if r else None))
    # P2 rwms: files=[r2, r1] -> names sorted but data not; explicit names are re-sorted too
    d = tmp + '/p2'
    w_oq.write_rwms(d, 'ens', {**rw(1, range(1, 7)), **rw(2, range(1, 7))}, '1.6', nfct, nsrc)
    w1 = np.mean(np.exp(-np.array([rw_x(1, 1, 0, 0, s) for s in range(2)])))
    w2 = np.mean(np.exp(-np.array([rw_x(2, 1, 0, 0, s) for s in range(2)])))

    def owner(o, name):
        first = samples(o, name)[0]
        return 1 if np.isclose(first, w1) else 2 if np.isclose(first, w2) else '?'

    st, r = outcome(oq.read_rwms, d, '', version='1.6', files=['ensr2.ms1.dat', 'ensr1.ms1.dat'])
    if r:
        lines.append("P2 read_rwms files=[r2,r1]: name ens|r1 carries the data of file r%s" % owner(r[0], 'ens|r1'))
    st, r = outcome(oq.read_rwms, d, 'ens', version='1.6', names=['A|r7', 'A|r3'])
    if r:
        lines.append("P2 read_rwms names=['A|r7','A|r3'] (meant for files r1, r2): A|r7 carries the data of file r%s"
                     % owner(r[0], 'A|r7'))
    # P3 rwms vs flow: first config 5, spacing 1
    d = tmp + '/p3'
    w_oq.write_rwms(d, 'ens', rw(1, range(5, 12)), '1.6', nfct, nsrc)
    pl = [[[0.1] * 2] * 2] * 3
    w_oq.write_ms_openqcd(d, 'ens', {1: [(c, pl) for c in range(5, 12)]}, 1, 1, 2, 0.01)
    st1, r1 = outcome(oq.read_rwms, d, 'ens', version='1.6', postfix='ms1')
    st2, r2 = outcome(oq.read_qtop, d, 'ens', 0.0, version='openQCD', L=4)
    lines.append("P3 stored configs 5..11 spacing 1: read_rwms idl %s, read_qtop idl %s"
                 % (list(r1[0].idl['ens|r1'])[:2] if r1 else st1, list(r2.idl['ens|r1'])[:2] if r2 else st2))
    # P4 rwms: a single record
    d = tmp + '/p4'
    w_oq.write_rwms(d, 'ens', rw(1, [4]), '1.6', nfct, nsrc)
    lines.append("P4 read_rwms file with one record: %s" % outcome(oq.read_rwms, d, 'ens', version='1.6')[0])
    # P5 rwms: irregular spacing / unsorted
    d = tmp + '/p5'
    w_oq.write_rwms(d, 'ens', rw(1, [1, 2, 3, 5, 6, 7]), '1.6', nfct, nsrc)
    lines.append("P5 read_rwms configs 1,2,3,5,6,7: %s" % outcome(oq.read_rwms, d, 'ens', version='1.6')[0])
    # P6 rwms 2.0 with size-16 arrays cannot be read ('%d%s' % (m, 'dd'))
    # P7 flow: dtr_cnfg = 2
    d = tmp + '/p7'
    w_oq.write_ms_openqcd(d, 'ens', {1: [(c, pl) for c in range(1, 13)]}, 1, 1, 2, 0.01)
    st, r = outcome(oq.read_qtop, d, 'ens', 0.0, dtr_cnfg=2, version='openQCD', L=4)
    lines.append("P7 read_qtop dtr_cnfg=2 on 12 records numbered 1..12: %s" % st)
    w_oq.write_ms_openqcd(d + 'b', 'ens', {1: [(c, pl) for c in range(2, 14)]}, 1, 1, 2, 0.01)
    st, r = outcome(oq.read_qtop, d + 'b', 'ens', 0.0, dtr_cnfg=2, version='openQCD', L=4)
    lines.append("P7 read_qtop dtr_cnfg=2 on 12 records numbered 2..13: %s%s"
                 % (st, (' idl ' + str(list(r.idl['ens|r1']))) if r else ''))
    # P8 sfqcd Wilson flow with zthfl != 2
    d = tmp + '/p8'
    pg = [[[[0.1] * 3] * 8]] * 3
    w_oq.write_gfms_sfqcd(d, 'ens', {1: [(c, pg) for c in range(1, 8)]}, 2, 3, 1, 4, 1e-7, 0.4)
    lines.append("P8 read_qtop sfqcd zthfl=1 Zeuthen_flow=False: %s"
                 % outcome(oq.read_qtop, d, 'ens', 0.2, version='sfqcd')[0])
    lines.append("P8 read_qtop sfqcd zthfl=1 Zeuthen_flow=True: %s"
                 % outcome(oq.read_qtop, d, 'ens', 0.2, version='sfqcd', Zeuthen_flow=True)[0])
    # P9 energy density: dtr_read filter vs configlist
    d = tmp + '/p9'
    w_oq.write_ms_openqcd(d, 'ens', {1: [(c, pl) for c in range(2, 42, 2)]}, 1, 1, 2, 0.01)
    lines.append("P9 energy density configs 2,4,..,40 dtr_read=4 (every second record dropped): %s"
                 % outcome(oq._extract_flowed_energy_density, d, 'ens', 4, 0, 4)[0])
    # P10 truncated last record
    d = tmp + '/p10'
    desc = w_oq.write_ms_openqcd(d, 'ens', {1: [(c, [[[0.1 * c] * 2] * 2] * 3) for c in range(1, 8)]}, 1, 1, 2, 0.01)
    a, b, _ = desc[0]['records'][-1]
    for cut, label in ((a + 4, 'after the config number'), (b - 8, '8 bytes before the end'), (a + 2, 'inside the config number')):
        data = open(desc[0]['path'], 'rb').read()[:cut]
        os.makedirs(d + '/cut', exist_ok=True)
        open(d + '/cut/ensr1.ms.dat', 'wb').write(data)
        st, r = outcome(oq.read_qtop, d + '/cut', 'ens', 0.0, version='openQCD', L=4)
        lines.append("P10 ms.dat last record cut %s: %s%s" % (label, st, (' idl ' + str(list(r.idl['ens|r1']))) if r else ''))
    # P17 tails of the last record that are read but never unpacked
    for plaq in (False, True):
        for cut, label in ((b - 8, '8 bytes before the end (inside Qsl)'), (a + 4 + 32 + 8, 'inside Ysl')):
            open(d + '/cut/ensr1.ms.dat', 'wb').write(open(desc[0]['path'], 'rb').read()[:cut])
            st, r = outcome(oq._extract_flowed_energy_density, d + '/cut', 'ens', 1, 0, 4, plaquette=plaq)
            lines.append("P17 energy density plaquette=%s, last record cut %s: %s%s"
                         % (plaq, label, st, (' idl ' + str(list(r[0.0].idl['ens|r1']))) if r else ''))
    d = tmp + '/p17'
    pg2 = [[[[0.1] * 3] * 8] * 2] * 3
    desc = w_oq.write_gfms_sfqcd(d, 'ens', {1: [(c, pg2) for c in range(1, 8)]}, 2, 3, 2, 4, 1e-7, 0.4)
    a, b, _ = desc[0]['records'][-1]
    os.makedirs(d + '/cut', exist_ok=True)
    blk = 8 * 3
    for zf, nacc in ((True, 15), (False, 7)):
        for cut in (b - nacc * blk, b - nacc * blk - 1):
            open(d + '/cut/ensr1.gfms.dat', 'wb').write(open(desc[0]['path'], 'rb').read()[:cut])
            st, r = outcome(oq.read_qtop, d + '/cut', 'ens', 0.2, version='sfqcd', Zeuthen_flow=zf)
            lines.append("P17 gfms Zeuthen_flow=%s, last record cut %d bytes before its end: %s%s"
                         % (zf, b - cut, st, (' idl ' + str(list(r.idl['ens|r1']))) if r else ''))
    # P11 ms5_xsf prefix with 'r'
    d = tmp + '/p11'
    pay = {}
    w_oq.write_ms5_xsf(d, 'trial', {1: [(c, pay) for c in range(1, 7)], 2: [(c, pay) for c in range(1, 7)]}, 'dd', 2)
    st, r = outcome(oq.read_ms5_xsf, d, 'trial', 'dd', 'gA')
    lines.append("P11 read_ms5_xsf prefix 'trial': %s names=%s" % (st, r.content[0][0].real.names if r else None))
    # P12 sfcf appended: second block / single run / ens_name
    d = tmp + '/p12'
    w_sf.write_sfcf(d, sf_replicas(), '2.0a')
    lines.append("P12 sfcf appended wf=1 (second block of the file): %s"
                 % outcome(sfin.read_sfcf, d, 'tst', 'f_A', quarks='lquark lquark', wf=1, version='2.0a', silent=True)[0])
    st, r = outcome(sfin.read_sfcf, d, 'tst', 'f_A', quarks='lquark lquark', version='2.0a', silent=True, ens_name='E')
    lines.append("P12 sfcf appended ens_name='E': %s names=%s" % (st, r[0].names if r else None))
    d = tmp + '/p12b'
    one = {k: v[:1] for k, v in sf_replicas().items()}
    w_sf.write_sfcf(d, one, '2.0a')
    lines.append("P12 sfcf appended file with a single [run]: %s"
                 % outcome(sfin.read_sfcf, d, 'tst', 'f_A', quarks='lquark lquark', version='2.0a', silent=True)[0])
    # P13 sfcf: prefix containing 'r'
    d = tmp + '/p13'
    reps = {k.replace('tst', 'prod'): v for k, v in sf_replicas().items()}
    w_sf.write_sfcf(d, reps, '2.0c')
    st, r = outcome(sfin.read_sfcf, d, 'prod', 'f_A', quarks='lquark lquark', version='2.0c', silent=True)
    lines.append("P13 sfcf compact prefix 'prod': %s names=%s" % (st, r[0].names if r else None))
    # P14 sfcf: check_configs
    d = tmp + '/sfcf_2.0c'
    if os.path.isdir(d):
        st, r = outcome(sfin.read_sfcf, d, 'tst', 'f_A', quarks='lquark lquark', version='2.0c', silent=True,
                        check_configs=[[1, 2, 3], [4, 5, 6]])
        lines.append("P14 sfcf check_configs=[[1,2,3],[4,5,6]] (none of them present): %s" % st)
    # P15 sfcf compact: last data line of the last correlator cut mid-number
    d = tmp + '/p15'
    desc = w_sf.write_sfcf(d, {'tst_r1': [(c, {w_sf.bi('f_A'): [(1.25 + c, 2500.0)] * 3}) for c in range(1, 7)]}, '2.0c')
    path = desc[-1]['path']
    text = open(path).read()
    open(path, 'w').write(text[:-12] + '\n\n')       # "...00000e+03\n\n" -> exponent lost
    st, r = outcome(sfin.read_sfcf, d, 'tst', 'f_A', quarks='lquark lquark', version='2.0c', silent=True, im=True)
    lines.append("P15 sfcf compact, last number of the last file cut to %r and file closed with a blank line: %s value=%s (written 2500.0)"
                 % (text[:-12].split()[-1], st, samples(r[2], 'tst_|r1')[-1] if r else None))
    open(path, 'w').write(text[:-1])                   # final blank line missing
    st, r = outcome(sfin.read_sfcf, d, 'tst', 'f_A', quarks='lquark lquark', version='2.0c', silent=True)
    lines.append("P15 sfcf compact, last file without its final blank line: %s" % st)
    first = desc[0]['path']
    t0 = open(first).read()
    open(first, 'w').write(t0[:-1])
    st, r = outcome(sfin.read_sfcf, d, 'tst', 'f_A', quarks='lquark lquark', version='2.0c', silent=True)
    lines.append("P15 sfcf compact, FIRST file without its final blank line: %s" % st)
    # P18 sfcf: block positions are taken from the first file of the first replica only
    for version in ('2.0', '2.0c'):
        d = tmp + '/p18_' + version
        s0, s1 = w_sf.bi('f_A', wf=0), w_sf.bi('f_A', wf=1)
        reps = {'tst_r1': [(c, {s0: [(10.0 + c, 0.0)] * 3, s1: [(20.0 + c, 0.0)] * 3}) for c in range(1, 7)],
                'tst_r2': [(c, {s1: [(20.0 + c, 0.0)] * 3, s0: [(10.0 + c, 0.0)] * 3}) for c in range(1, 7)]}
        w_sf.write_sfcf(d, reps, version)
        st, r = outcome(sfin.read_sfcf, d, 'tst', 'f_A', quarks='lquark lquark', wf=0, version=version, silent=True)
        lines.append("P18 sfcf %s, replica r2 stores the wf=1 block before the wf=0 block, read wf=0: %s r1[0]=%s r2[0]=%s"
                     % (version, st, samples(r[0], 'tst_|r1')[0] if r else None, samples(r[0], 'tst_|r2')[0] if r else None))
    # P19 plain truncation (no repair) of the last file / last run, 14 bytes before the end:
    #     "... +2.5000000000000000e+03\n\n"  ->  "... +2.50000000000"
    for version in ('2.0', '2.0c', '2.0a'):
        d = tmp + '/p19_' + version
        desc = w_sf.write_sfcf(d, {'tst_r1': [(c, {w_sf.bi('f_A'): [(1.25 + c, 2500.0)] * 3})
                                              for c in range(1, 7)]}, version)
        path = desc[-1]['path']
        data = open(path, 'rb').read()
        open(path, 'wb').write(data[:-14])
        st, r = outcome(sfin.read_sfcf, d, 'tst', 'f_A', quarks='lquark lquark', version=version, silent=True, im=True)
        lines.append("P19 sfcf %s, last file cut 14 bytes before its end (inside the last number): %s%s"
                     % (version, st, (' value=%s (written 2500.0)' % samples(r[2], 'tst_|r1')[-1]) if r else ''))
    # P16 hadrons single configuration
    d = tmp + '/p16'
    w_hd.write_meson_hd5(d, 'one', {7: [1.0, 2.0]})
    lines.append("P16 read_meson_hd5 with a single file: %s" % outcome(hin.read_meson_hd5, d, 'one', 'e')[0])
    return lines


# ----------------------------------------------------------------------------

def main(argv):
    tmp = tempfile.mkdtemp(prefix='wr_selftest_')
    tests = [('rwms 1.4', test_rwms, ('1.4',)), ('rwms 1.6', test_rwms, ('1.6',)),
             ('rwms 2.0', test_rwms, ('2.0',)), ('rwms re-encode', reencode_rwms, ()),
             ('ms.dat openQCD', test_ms_openqcd, ()), ('ms.dat re-encode', reencode_ms_openqcd, ()),
             ('gfms.dat sfqcd', test_gfms_sfqcd, ()), ('gfms.dat re-encode', reencode_gfms, ()),
             ('ms5_xsf', test_ms5_xsf, ()), ('ms5_xsf re-encode', reencode_ms5, ())]
    for v in ('1.0', '2.0', '1.0c', '2.0c', '1.0a', '2.0a'):
        tests.append(('sfcf ' + v, test_sfcf, (v,)))
    tests += [('sfcf re-encode', reencode_sfcf, ()), ('hadrons meson hd5', test_hadrons, ())]
    failed = 0
    for label, fn, args in tests:
        try:
            msg = fn(tmp, *args)
            print('PASS  %-20s %s' % (label, msg))
        except Exception as e:    # noqa: BLE001
            failed += 1
            print('FAIL  %-20s %s: %s' % (label, type(e).__name__, str(e)[:300]))
            if '--trace' in argv:
                traceback.print_exc()
    if '--probes' in argv:
        for line in probes(tmp):
            print('NOTE  ' + line)
    if '--keep' in argv:
        print('kept', tmp)
    else:
        shutil.rmtree(tmp, ignore_errors=True)
    return 1 if failed else 0


if __name__ == '__main__':
    sys.exit(main(sys.argv[1:]))
