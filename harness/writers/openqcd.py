"""Writers (and tiny decoders) for the binary openQCD / sfqcd measurement files
that pyerrors.input.openQCD reads.  Layouts are documented in FORMATS.md.

All numbers are written little endian ('<'): the readers mix explicit '<iii'
with native 'i' / 'd', which agree on the little-endian machines they are used
on.  ints are 4 bytes, doubles 8 bytes, no padding anywhere.

`replicas` arguments are dicts  {replica_index(int): [record, ...]}  where a
record is a tuple  (config_number, payload)  or  (config_number, payload, extras).
The replica index k becomes the file name  <prefix>r<k>.<postfix>.dat .
Records are written in list order; nothing is sorted or checked here, so
irregular / unsorted / duplicate config numbers can be produced on purpose.
"""

import os
import struct

from .common import ensure_dir, file_desc, split_first


# --------------------------------------------------------------------------
# replica names as the readers derive them from a file name
# --------------------------------------------------------------------------

def rep_name_rwms(filename):
    """read_rwms (names=None): strip '.dat', then '.rwms', then '.ms1' from the
    end (each only if present, in this order), cut at the first 'r'."""
    entry = filename
    for suffix in (".dat", ".rwms", ".ms1"):
        if entry.endswith(suffix):
            entry = entry[:-len(suffix)]
    return split_first(entry, 'r')


def rep_name_flow(filename, postfix):
    """_read_flow_obs (names not given): drop len(postfix) characters from the
    end of the file name (postfix as passed / defaulted: 'ms' or 'gfms', i.e.
    NOT including '.dat'), cut at the first 'r', keep the part after the cut
    only up to the first '.'."""
    truncated = filename[:-len(postfix)]
    idx = truncated.index('r')
    return truncated[:idx] + '|' + truncated[idx:].split('.')[0]


def rep_name_energy_density(filename):
    """_extract_flowed_energy_density: part before the first '.', cut at first 'r'."""
    return split_first(filename.split('.')[0], 'r')


def rep_name_ms5_xsf(filename, sep='r'):
    """read_ms5_xsf: drop the last two dot components, then
    se.split(sep)[0] + '|r' + se.split(sep)[1]  (split at EVERY sep)."""
    parts = filename.split('.')
    se = parts[0]
    for s in parts[1:-2]:
        se += '.' + s
    return se.split(sep)[0] + '|r' + se.split(sep)[1]


def _norm_record(rec):
    if len(rec) == 2:
        return rec[0], rec[1], {}
    return rec[0], rec[1], (rec[2] or {})


def _write_file(path, header, record_blobs):
    """Write header + records, return (header_len, [(start, end, cfg), ...])."""
    records = []
    pos = len(header)
    with open(path, 'wb') as fp:
        fp.write(header)
        for cfg, blob in record_blobs:
            fp.write(blob)
            records.append((pos, pos + len(blob), cfg))
            pos += len(blob)
    return len(header), records


# --------------------------------------------------------------------------
# 1. reweighting factors  <prefix>r<k>.ms1.dat   (read_rwms)
# --------------------------------------------------------------------------

def _as_list(x):
    return list(x) if isinstance(x, (list, tuple)) else [x]


def rwms_header(version, nfct, nsrc):
    """Header bytes for nrw = len(nfct) reweighting factors."""
    nrw = len(nsrc)
    if version == '1.4':
        # int nrw ; int nsrc[nrw]            (nfct is implicitly 1)
        if any(f != 1 for f in nfct):
            raise ValueError("version 1.4 files have nfct == 1")
        return struct.pack('<i', nrw) + struct.pack('<%di' % nrw, *nsrc)
    if version == '1.6':
        # int nrw ; int nfct[nrw] ; int nsrc[nrw]
        return (struct.pack('<i', nrw) + struct.pack('<%di' % nrw, *nfct)
                + struct.pack('<%di' % nrw, *nsrc))
    if version == '2.0':
        # int 2*nrw ; int nfct[nrw] ; int nsrc[nrw] ; int 0
        return (struct.pack('<i', 2 * nrw) + struct.pack('<%di' % nrw, *nfct)
                + struct.pack('<%di' % nrw, *nsrc) + struct.pack('<i', 0))
    raise ValueError("unknown version " + repr(version))


def _array2_openqcd2(rows_hi, rows_lo):
    """openQCD-2.0 'array' object holding nfct x nsrc quadruple-precision numbers:
    int d=2 ; int n[2] = (nfct, 2*nsrc) ; int size=8 ; doubles (hi, lo) pairs,
    factor-major.  The reader keeps every second double (the hi parts)."""
    nf = len(rows_hi)
    ns = len(rows_hi[0])
    out = struct.pack('<i', 2) + struct.pack('<2i', nf, 2 * ns) + struct.pack('<i', 8)
    for f in range(nf):
        for s in range(ns):
            out += struct.pack('<2d', rows_hi[f][s], rows_lo[f][s])
    return out


def _zeros_like(p):
    return [[0.0 for _ in row] for row in p]


def rwms_record(version, cfg, payload, extras, nfct, nsrc):
    """One record.  payload[irw][factor][source] = -ln(w) values.
    extras (optional): 'sqn' (same shape, the square norms the reader skips),
    and for 2.0 'lnr_lo', 'sqn_lo' (low parts of the quadruple numbers)."""
    nrw = len(nsrc)
    sqn = extras.get('sqn') or [_zeros_like(payload[i]) for i in range(nrw)]
    blob = struct.pack('<i', cfg)
    for i in range(nrw):
        if len(payload[i]) != nfct[i] or any(len(r) != nsrc[i] for r in payload[i]):
            raise ValueError("payload shape does not match nfct / nsrc")
        if version in ('1.4', '1.6'):
            # per factor: nsrc doubles sqn (skipped by the reader), nsrc doubles lnr
            for f in range(nfct[i]):
                blob += struct.pack('<%dd' % nsrc[i], *sqn[i][f])
                blob += struct.pack('<%dd' % nsrc[i], *payload[i][f])
        else:
            sqn_lo = extras.get('sqn_lo') or [_zeros_like(payload[j]) for j in range(nrw)]
            lnr_lo = extras.get('lnr_lo') or [_zeros_like(payload[j]) for j in range(nrw)]
            blob += _array2_openqcd2(sqn[i], sqn_lo[i])      # first array: skipped
            blob += _array2_openqcd2(payload[i], lnr_lo[i])  # second array: used
    return blob


def write_rwms(directory, prefix, replicas, version, nfct, nsrc, postfix='ms1'):
    """Write <directory>/<prefix>r<k>.<postfix>.dat for every replica k.

    nfct, nsrc : int (one reweighting factor, payload[factor][source]) or lists
                 of ints (nrw = len(nsrc) factors, payload[irw][factor][source]).
    The reader turns each record into  prod_factor mean_source exp(-x).
    """
    single = not isinstance(nsrc, (list, tuple))
    nfct = _as_list(nfct)
    nsrc = _as_list(nsrc)
    directory = ensure_dir(directory)
    header = rwms_header(version, nfct, nsrc)
    out = []
    for k in replicas:
        fname = '%sr%d.%s.dat' % (prefix, k, postfix)
        blobs = []
        for rec in replicas[k]:
            cfg, payload, extras = _norm_record(rec)
            if single:
                payload = [payload]
                extras = {key: [val] for key, val in extras.items()}
            blobs.append((cfg, rwms_record(version, cfg, payload, extras, nfct, nsrc)))
        path = os.path.join(directory, fname)
        hl, records = _write_file(path, header, blobs)
        out.append(file_desc(path, hl, records, replica=k, rep_name=rep_name_rwms(fname)))
    return out


def decode_rwms(path, version):
    """Tiny decoder (own code, used for the re-encoding check).
    Returns {'nfct', 'nsrc', 'records': [(cfg, payload, extras)]} with
    payload[irw][factor][source]."""
    b = open(path, 'rb').read()
    pos = 0

    def ints(n):
        nonlocal pos
        v = struct.unpack_from('<%di' % n, b, pos)
        pos += 4 * n
        return list(v)

    def dbls(n):
        nonlocal pos
        v = struct.unpack_from('<%dd' % n, b, pos)
        pos += 8 * n
        return list(v)

    nrw = ints(1)[0]
    if version == '2.0':
        nrw //= 2
    nfct = ints(nrw) if version in ('1.6', '2.0') else [1] * nrw
    nsrc = ints(nrw)
    if version == '2.0':
        assert ints(1) == [0]
    records = []
    while pos < len(b):
        cfg = ints(1)[0]
        lnr, sqn, lnr_lo, sqn_lo = [], [], [], []
        for i in range(nrw):
            if version == '2.0':
                arrs = []
                for _ in range(2):
                    d = ints(1)[0]
                    n = ints(d)
                    size = ints(1)[0]
                    assert d == 2 and size == 8 and n == [nfct[i], 2 * nsrc[i]]
                    flat = dbls(n[0] * n[1])
                    hi = [[flat[f * n[1] + 2 * s] for s in range(nsrc[i])] for f in range(nfct[i])]
                    lo = [[flat[f * n[1] + 2 * s + 1] for s in range(nsrc[i])] for f in range(nfct[i])]
                    arrs.append((hi, lo))
                sqn.append(arrs[0][0])
                sqn_lo.append(arrs[0][1])
                lnr.append(arrs[1][0])
                lnr_lo.append(arrs[1][1])
            else:
                s_i, l_i = [], []
                for f in range(nfct[i]):
                    s_i.append(dbls(nsrc[i]))
                    l_i.append(dbls(nsrc[i]))
                sqn.append(s_i)
                lnr.append(l_i)
        extras = {'sqn': sqn}
        if version == '2.0':
            extras['sqn_lo'] = sqn_lo
            extras['lnr_lo'] = lnr_lo
        records.append((cfg, lnr, extras))
    return {'nfct': nfct, 'nsrc': nsrc, 'records': records}


# --------------------------------------------------------------------------
# 2a. openQCD gradient flow  <prefix>r<k>.ms.dat
#     (_read_flow_obs version="openQCD", _extract_flowed_energy_density)
# --------------------------------------------------------------------------

def write_ms_openqcd(directory, prefix, replicas, dn, nn, tmax, eps, postfix='ms'):
    """header: int dn, nn, tmax ; double eps
    record: int nc ; Wsl[(nn+1)*tmax] ; Ysl[(nn+1)*tmax] ; Qsl[(nn+1)*tmax] doubles,
            each stored flow-index major:  index = flow_index * tmax + timeslice.
    payload[obs(0=Wsl,1=Ysl,2=Qsl)][flow_index 0..nn][timeslice 0..tmax-1]."""
    directory = ensure_dir(directory)
    header = struct.pack('<3i', dn, nn, tmax) + struct.pack('<d', eps)
    out = []
    for k in replicas:
        fname = '%sr%d.%s.dat' % (prefix, k, postfix)
        blobs = []
        for rec in replicas[k]:
            cfg, payload, _ = _norm_record(rec)
            blob = struct.pack('<i', cfg)
            for obs in range(3):
                if len(payload[obs]) != nn + 1:
                    raise ValueError("payload needs nn + 1 flow indices")
                for fl in range(nn + 1):
                    if len(payload[obs][fl]) != tmax:
                        raise ValueError("payload needs tmax timeslices")
                    blob += struct.pack('<%dd' % tmax, *payload[obs][fl])
            blobs.append((cfg, blob))
        path = os.path.join(directory, fname)
        hl, records = _write_file(path, header, blobs)
        out.append(file_desc(path, hl, records, replica=k,
                             rep_name=rep_name_flow(fname, postfix),
                             rep_name_energy_density=rep_name_energy_density(fname)))
    return out


def decode_ms_openqcd(path):
    b = open(path, 'rb').read()
    dn, nn, tmax = struct.unpack_from('<3i', b, 0)
    eps, = struct.unpack_from('<d', b, 12)
    pos = 20
    n = (nn + 1) * tmax
    records = []
    while pos < len(b):
        cfg, = struct.unpack_from('<i', b, pos)
        pos += 4
        payload = []
        for obs in range(3):
            flat = struct.unpack_from('<%dd' % n, b, pos)
            pos += 8 * n
            payload.append([list(flat[fl * tmax:(fl + 1) * tmax]) for fl in range(nn + 1)])
        records.append((cfg, payload))
    return {'dn': dn, 'nn': nn, 'tmax': tmax, 'eps': eps, 'records': records}


# --------------------------------------------------------------------------
# 2b. sfqcd gradient flow  <prefix>r<k>.gfms.dat   (_read_flow_obs version="sfqcd")
# --------------------------------------------------------------------------

def write_gfms_sfqcd(directory, prefix, replicas, ncs, tmax, zthfl, L, tol, cmax, postfix='gfms'):
    """header: int zthfl, ncs, tmax ; int L1, L2, L3 ; double tol, cmax      (40 bytes)
    record: int traj ; for c-index 0..ncs : for flow 0..nfl-1 : for obs 0..7 :
                tmax doubles
    nfl = 2 if zthfl == 2 else 1.  Flow 0 is what the reader calls the Zeuthen
    flow (Zeuthen_flow=True, observable index obspos), flow 1 the Wilson flow
    (index obspos + 8).  obs 0 = Qtop, 6 = plaquette E, 7 = 2x1 E (read_gf_coupling).
    payload[c_index][flow][obs][timeslice].   L: int or 3-tuple."""
    directory = ensure_dir(directory)
    nfl = 2 if zthfl == 2 else 1
    Ls = tuple(L) if isinstance(L, (list, tuple)) else (L, L, L)
    header = (struct.pack('<3i', zthfl, ncs, tmax) + struct.pack('<3i', *Ls)
              + struct.pack('<2d', tol, cmax))
    out = []
    for k in replicas:
        fname = '%sr%d.%s.dat' % (prefix, k, postfix)
        blobs = []
        for rec in replicas[k]:
            cfg, payload, _ = _norm_record(rec)
            blob = struct.pack('<i', cfg)
            if len(payload) != ncs + 1:
                raise ValueError("payload needs ncs + 1 c-indices")
            for j in range(ncs + 1):
                if len(payload[j]) != nfl:
                    raise ValueError("payload needs %d flows" % nfl)
                for fl in range(nfl):
                    for obs in range(8):
                        blob += struct.pack('<%dd' % tmax, *payload[j][fl][obs])
            blobs.append((cfg, blob))
        path = os.path.join(directory, fname)
        hl, records = _write_file(path, header, blobs)
        out.append(file_desc(path, hl, records, replica=k, rep_name=rep_name_flow(fname, postfix)))
    return out


def decode_gfms_sfqcd(path):
    b = open(path, 'rb').read()
    zthfl, ncs, tmax, l1, l2, l3 = struct.unpack_from('<6i', b, 0)
    tol, cmax = struct.unpack_from('<2d', b, 24)
    nfl = 2 if zthfl == 2 else 1
    pos = 40
    records = []
    while pos < len(b):
        cfg, = struct.unpack_from('<i', b, pos)
        pos += 4
        payload = []
        for j in range(ncs + 1):
            pj = []
            for fl in range(nfl):
                pf = []
                for obs in range(8):
                    pf.append(list(struct.unpack_from('<%dd' % tmax, b, pos)))
                    pos += 8 * tmax
                pj.append(pf)
            payload.append(pj)
        records.append((cfg, payload))
    return {'zthfl': zthfl, 'ncs': ncs, 'tmax': tmax, 'L': (l1, l2, l3), 'tol': tol,
            'cmax': cmax, 'records': records}


# --------------------------------------------------------------------------
# 3. ms5_xsf  <prefix>r<k>.ms5_xsf_<qc>.dat   (read_ms5_xsf)
# --------------------------------------------------------------------------

MS5_BI = ["gS", "gP", "gA", "gV", "gVt", "lA", "lV", "lVt", "lT", "lTt"]   # tmax complex each
MS5_BB = ["g1", "l1"]                                                     # one complex each


def write_ms5_xsf(directory, prefix, replicas, qc, tmax, kappa=0.125, csw=1.0, dF=0.5, zF=1.0,
                  bnd=0, sep='r'):
    """header: double kappa, csw, dF, zF ; int tmax, bnd                    (40 bytes)
    record: int cfg ; for each of the 10 names in MS5_BI: tmax x (re, im) doubles ;
            for each of the 2 names in MS5_BB: (re, im)        (4 + 160*tmax + 32 bytes)
    payload: dict {corr_name: [(re, im), ...]} ; names left out are written as zeros.
    File name <prefix><sep><k>.ms5_xsf_<qc>.dat  (sep is 'r' unless changed)."""
    directory = ensure_dir(directory)
    header = struct.pack('<4d', kappa, csw, dF, zF) + struct.pack('<2i', tmax, bnd)
    out = []
    for k in replicas:
        fname = '%s%s%d.ms5_xsf_%s.dat' % (prefix, sep, k, qc)
        blobs = []
        for rec in replicas[k]:
            cfg, payload, _ = _norm_record(rec)
            blob = struct.pack('<i', cfg)
            for name in MS5_BI:
                rows = payload.get(name, [(0.0, 0.0)] * tmax)
                if len(rows) != tmax:
                    raise ValueError("need tmax values for " + name)
                for re_, im_ in rows:
                    blob += struct.pack('<2d', re_, im_)
            for name in MS5_BB:
                rows = payload.get(name, [(0.0, 0.0)])
                if len(rows) != 1:
                    raise ValueError("need one value for " + name)
                blob += struct.pack('<2d', rows[0][0], rows[0][1])
            blobs.append((cfg, blob))
        path = os.path.join(directory, fname)
        hl, records = _write_file(path, header, blobs)
        out.append(file_desc(path, hl, records, replica=k,
                             rep_name=rep_name_ms5_xsf(fname, sep) if sep else prefix))
    return out


def decode_ms5_xsf(path):
    b = open(path, 'rb').read()
    kappa, csw, dF, zF = struct.unpack_from('<4d', b, 0)
    tmax, bnd = struct.unpack_from('<2i', b, 32)
    pos = 40
    records = []
    while pos < len(b):
        cfg, = struct.unpack_from('<i', b, pos)
        pos += 4
        payload = {}
        for name in MS5_BI + MS5_BB:
            n = tmax if name in MS5_BI else 1
            flat = struct.unpack_from('<%dd' % (2 * n), b, pos)
            pos += 16 * n
            payload[name] = [(flat[2 * t], flat[2 * t + 1]) for t in range(n)]
        records.append((cfg, payload))
    return {'kappa': kappa, 'csw': csw, 'dF': dF, 'zF': zF, 'tmax': tmax, 'bnd': bnd,
            'records': records}


# --------------------------------------------------------------------------
# 4. pbp files  <prefix>r<k>.pbp.dat   (pyerrors.input.misc.read_pbp)
#    header: int nrw ; int nfct[nrw] ; int nsrc[nrw]
#    record: int nc ; for every irw, for every factor: two blocks of nsrc[irw] doubles, the reader averages the SECOND one
# --------------------------------------------------------------------------

def write_pbp(directory, prefix, replicas, nfct, nsrc, postfix='pbp'):
    """payload[irw][factor] = (first block, second block), each nsrc[irw] numbers"""
    directory = ensure_dir(directory)
    nrw = len(nfct)
    header = struct.pack('<i', nrw) + struct.pack('<%di' % nrw, *nfct) + struct.pack('<%di' % nrw, *nsrc)
    out = []
    for k in replicas:
        fname = '%sr%d.%s.dat' % (prefix, k, postfix)
        blobs = []
        for rec in replicas[k]:
            cfg, payload, _ = _norm_record(rec)
            blob = struct.pack('<i', cfg)
            for a in range(nrw):
                for f in range(nfct[a]):
                    for block in payload[a][f]:
                        blob += struct.pack('<%dd' % nsrc[a], *block)
            blobs.append((cfg, blob))
        path = os.path.join(directory, fname)
        hl, records = _write_file(path, header, blobs)
        out.append(file_desc(path, hl, records, replica=k, rep_name=rep_name_rwms(fname)))
    return out
