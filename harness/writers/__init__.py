"""Independent encoders ("writers") for the measurement file formats pyerrors reads.

Every writer in this package is written from the byte / text layout as the
pyerrors reader parses it (see FORMATS.md) and uses only `struct`, plain text,
numpy and h5py.  Nothing in here imports pyerrors (only selftest.py does, to
read the synthetic files back with the real readers).

Common return value of every writer: a list with one dict per written file

    {'path':       absolute path of the file,
     'header_len': number of bytes before the first record,
     'records':    [(start_byte, end_byte, config_number), ...],   # end exclusive
     'replica':    the key of the `replicas` argument the file belongs to,
     'rep_name':   the replica name the pyerrors reader derives from the file name
                   (None where the reader takes the name from an argument)}

Modules
    openqcd  - ms1 (rwms 1.4 / 1.6 / 2.0), ms.dat, gfms.dat (sfqcd), ms5_xsf
    sfcf     - separate / compact / appended text layouts
    hadrons  - meson hdf5
    selftest - write -> read with the real readers -> compare
"""
