"""Writers (and a tiny decoder) for the sfcf text output that
pyerrors.input.sfcf.read_sfcf / read_sfcf_multi read.  See FORMATS.md.

Text of one run (= one configuration):

    [run]
    <blank>
    version     2.1              header lines: key padded to 12 columns + value
    date        ...
    ...
    gauge_name  /<rep>_n<cfg>    (appended layout: the config number is parsed from
    ...                           the text after the last cfg_separator of this line)
    data_name   ...
    <blank>
    [correlator]                 one block per correlator
    <blank>
    name      f_A                key padded to 10 columns + value
    quarks    lquark lquark
    offset    0
    wf        0
    wf_2      0                  only for 'bb' and 'bib'
    corr_t                       'corr' for 'bb'
      1 +6.5471188727972304e+01 -6.1214214711790100e-12      "%3d %+.16e %+.16e"  (bi, bib)
    +3.5119415254545021e+02 +6.7620978057264750e-15          "%+.16e %+.16e"      (bb, one line)
    <blank>                      every block ends with one blank line (the reader needs it)

Layouts
    separate : <dir>/<rep>/cfg<N>/<name>        one run per file, only blocks of <name>
    compact  : <dir>/<rep>/<rep>_n<N>           one run per file, all blocks
    appended : <dir>/<rep>.<name>               all runs of the replica, only blocks of <name>

`replicas` = {replica_stem(str, e.g. 'tst_r2'): [(config_number, {spec: rows}), ...]}
with spec = CorrSpec(name, quarks, offset, wf, wf2, corr_type) (or a plain tuple in
that order) and rows = T x (real, imag) floats (T = 1 for 'bb').  Blocks are
written in dict order.  The sfcf versions '1.0' and '2.0' are parsed by the very
same reader code; the version only sets the default 'version' header line.
"""

import os
from collections import namedtuple

from .common import ensure_dir, file_desc, split_first

CorrSpec = namedtuple('CorrSpec', 'name quarks offset wf wf2 corr_type')


def bi(name, quarks='lquark lquark', offset=0, wf=0):
    return CorrSpec(name, quarks, offset, wf, None, 'bi')


def bb(name, quarks='lquark lquark', offset=0, wf=0, wf2=0):
    return CorrSpec(name, quarks, offset, wf, wf2, 'bb')


def bib(name, quarks='lquark lquark', offset=0, wf=0, wf2=0):
    return CorrSpec(name, quarks, offset, wf, wf2, 'bib')


# Default header lines.  Values may use the placeholders {rep} {cfg} {name} {sep}
# ({name} is the correlator name of the file for separate / appended files and
# '' for compact files).
DEFAULT_HEADER = [
    ('version', '{version}'),
    ('date', '2022-01-19 11:04:00 +0100'),
    ('host', 'harness'),
    ('dir', '/tmp'),
    ('user', 'harness'),
    ('gauge_name', '/{rep}_{sep}{cfg}'),
    ('gauge_md5', '1ea28326e4090996111a320b8372811d'),
    ('param_name', 'synthetic.in'),
    ('param_md5', 'd881e90d41188a33b8b0f1bd0bc53ea5'),
    ('param_hash', '686af5e712ee2902180f5428af94c6e7'),
    ('data_name', './out/{rep}{name}'),
]


def layout_of(version):
    """('separate'|'compact'|'appended', numeric version) for a read_sfcf version string."""
    if version.endswith('c'):
        return 'compact', version[:-1]
    if version.endswith('a'):
        return 'appended', version[:-1]
    return 'separate', version


def run_header_text(header, **fmt):
    text = '[run]\n\n'
    for key, value in header:
        text += '%-12s%s\n' % (key, value.format(**fmt))
    return text + '\n'


def block_text(spec, rows):
    spec = CorrSpec(*spec)
    text = '[correlator]\n\n'
    text += '%-10s%s\n' % ('name', spec.name)
    text += '%-10s%s\n' % ('quarks', spec.quarks)
    text += '%-10s%s\n' % ('offset', spec.offset)
    text += '%-10s%s\n' % ('wf', spec.wf)
    if spec.corr_type in ('bb', 'bib'):
        text += '%-10s%s\n' % ('wf_2', spec.wf2)
    if spec.corr_type == 'bb':
        if len(rows) != 1:
            raise ValueError("'bb' correlators have exactly one row")
        text += 'corr\n'
        text += '%+.16e %+.16e\n' % (rows[0][0], rows[0][1])
    else:
        text += 'corr_t\n'
        for t, (re_, im_) in enumerate(rows):
            text += '%3d %+.16e %+.16e\n' % (t + 1, re_, im_)
    return text + '\n'


def run_text(header, blocks, **fmt):
    text = run_header_text(header, **fmt)
    for spec, rows in blocks:
        text += block_text(spec, rows)
    return text


def _names_in_order(corrs):
    names = []
    for spec in corrs:
        n = CorrSpec(*spec).name
        if n not in names:
            names.append(n)
    return names


def _write_text(path, text):
    data = text.encode('ascii')
    with open(path, 'wb') as fp:
        fp.write(data)
    return len(data)


def write_sfcf(directory, replicas, version, header=None, cfg_separator='n', rep_sep='r',
               version_line=None):
    """Write the layout selected by the read_sfcf version string
    ('1.0', '2.0' separate; '1.0c', '2.0c' compact; '1.0a', '2.0a' appended).
    Returns the list of file descriptions (see package docstring); for
    separate / compact every file is one record, for appended every [run]
    block is one record (header_len is 0: the header is part of each run)."""
    layout, num = layout_of(version)
    directory = ensure_dir(directory)
    header = DEFAULT_HEADER if header is None else header
    vline = version_line if version_line is not None else num
    out = []
    for rep in replicas:
        rep_name = split_first(rep, rep_sep)
        if layout == 'appended':
            # one file per correlator name, runs appended in list order
            all_names = []
            for _, corrs in replicas[rep]:
                for n in _names_in_order(corrs):
                    if n not in all_names:
                        all_names.append(n)
            for name in all_names:
                text = ''
                records = []
                pos = 0
                for cfg, corrs in replicas[rep]:
                    blocks = [(s, r) for s, r in corrs.items() if CorrSpec(*s).name == name]
                    t = run_text(header, blocks, rep=rep, cfg=cfg, name=name,
                                 sep=cfg_separator, version=vline)
                    records.append((pos, pos + len(t), cfg))   # ascii: chars == bytes
                    pos += len(t)
                    text += t
                path = os.path.join(directory, '%s.%s' % (rep, name))
                _write_text(path, text)
                out.append(file_desc(path, 0, records, replica=rep, rep_name=rep_name, name=name))
        else:
            rep_dir = ensure_dir(os.path.join(directory, rep))
            for cfg, corrs in replicas[rep]:
                if layout == 'compact':
                    t = run_text(header, list(corrs.items()), rep=rep, cfg=cfg, name='',
                                 sep=cfg_separator, version=vline)
                    path = os.path.join(rep_dir, '%s_%s%d' % (rep, cfg_separator, cfg))
                    n = _write_text(path, t)
                    out.append(file_desc(path, 0, [(0, n, cfg)], replica=rep, rep_name=rep_name))
                else:
                    cfg_dir = ensure_dir(os.path.join(rep_dir, 'cfg%d' % cfg))
                    for name in _names_in_order(corrs):
                        blocks = [(s, r) for s, r in corrs.items() if CorrSpec(*s).name == name]
                        t = run_text(header, blocks, rep=rep, cfg=cfg, name=name,
                                     sep=cfg_separator, version=vline)
                        path = os.path.join(cfg_dir, name)
                        n = _write_text(path, t)
                        out.append(file_desc(path, 0, [(0, n, cfg)], replica=rep,
                                             rep_name=rep_name, name=name))
    return out


def decode_sfcf_text(path):
    """Tiny decoder (own code): list of runs
        {'header': [(key, value), ...], 'blocks': [(CorrSpec, rows), ...]}"""
    lines = open(path).read().split('\n')
    runs = []
    i = 0
    while i < len(lines):
        line = lines[i]
        if line == '[run]':
            run = {'header': [], 'blocks': []}
            runs.append(run)
            i += 2                                  # '[run]', blank
            while lines[i] != '':
                run['header'].append((lines[i][:12].rstrip(), lines[i][12:]))
                i += 1
        elif line == '[correlator]':
            i += 2                                  # '[correlator]', blank
            kv = {}
            while not lines[i].startswith('corr'):
                kv[lines[i][:10].rstrip()] = lines[i][10:]
                i += 1
            kind = lines[i]
            i += 1
            rows = []
            while lines[i] != '':
                f = lines[i].split()
                rows.append((float(f[-2]), float(f[-1])))
                i += 1
            if 'wf_2' in kv:
                ctype = 'bb' if kind == 'corr' else 'bib'
            else:
                ctype = 'bi'
            spec = CorrSpec(kv['name'], kv['quarks'], int(kv['offset']), int(kv['wf']),
                            int(kv['wf_2']) if 'wf_2' in kv else None, ctype)
            runs[-1]['blocks'].append((spec, rows))
        i += 1
    return runs
