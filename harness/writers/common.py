"""Small helpers shared by the writer modules (no pyerrors imports)."""

import os
import re


def ensure_dir(directory):
    os.makedirs(directory, exist_ok=True)
    return os.path.abspath(directory)


def file_desc(path, header_len, records, replica=None, rep_name=None, **extra):
    """Description of one written file (see package docstring)."""
    d = {'path': os.path.abspath(path),
         'header_len': int(header_len),
         'records': [(int(a), int(b), int(c)) for (a, b, c) in records],
         'replica': replica,
         'rep_name': rep_name}
    d.update(extra)
    return d


def split_first(stem, sep='r'):
    """The replica-name rule most pyerrors readers use:

        idx = stem.index(sep);  name = stem[:idx] + '|' + stem[idx:]

    i.e. the string is cut at the FIRST occurrence of `sep` (default 'r'),
    wherever it is - a prefix that itself contains an 'r' is cut inside the
    prefix.  Raises ValueError when `sep` does not occur (the readers then ask
    for the `names` argument).
    """
    idx = stem.index(sep)
    return stem[:idx] + '|' + stem[idx:]


_R_PAT = re.compile(r'r(\d+)')
_ID_PAT = re.compile(r'id(\d+)')


def sort_like_reader(names):
    """Order in which pyerrors.input.utils.sort_names returns a list of names
    when every entry contains 'r<digits>' (and possibly 'id<digits>'):
    stable sort by the first id number, then stable sort by the first
    r number.  Re-derived here so the harness can predict the pairing of files
    and names without calling pyerrors.  Only the regular case is covered
    (falls back to the input order otherwise)."""
    out = list(names)
    if len(out) > 1:
        if all(_ID_PAT.search(e) for e in out):
            out.sort(key=lambda x: int(_ID_PAT.findall(x)[0]))
        if all(_R_PAT.search(e) for e in out):
            out.sort(key=lambda x: int(_R_PAT.findall(x)[0]))
    return out


def traj_to_idl(traj, require_step_gt_one_for_shift):
    """Configuration numbers the openQCD readers derive from the trajectory /
    configuration numbers stored in the records.

        step = traj[-1] - traj[-2]          (rwms, energy density)
               traj[1]  - traj[0]           (flow observables; same for regular data)
        cfg  = [t // step for t in traj]
        if cfg[0] > 1 (and, for rwms only, step > 1):  shift so that cfg[0] == 1

    `require_step_gt_one_for_shift` is True for read_rwms and False for
    _read_flow_obs / _extract_flowed_energy_density.
    """
    step = traj[-1] - traj[-2]
    cfg = [t // step for t in traj]
    if cfg[0] > 1 and (step > 1 or not require_step_gt_one_for_shift):
        off = cfg[0] - 1
        cfg = [c - off for c in cfg]
    return cfg
