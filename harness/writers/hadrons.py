"""Writer for Hadrons meson hdf5 files read by pyerrors.input.hadrons.read_meson_hd5
/ read_hd5.  See FORMATS.md.

One file per configuration:  <directory>/<filestem>.<cfg>.h5

    /<group>/<group>_<i>            group, e.g. /meson/meson_0
        attrs gamma_snk, gamma_src  arrays of shape (1,) of fixed-length byte strings
                                    (the reader does  v[0].decode()  on every attribute)
        dataset 'corr'              shape (T,), compound dtype [('re','<f8'), ('im','<f8')]
                                    (the reader does  raw[:].view("complex"))
"""

import os

import h5py
import numpy as np

from .common import ensure_dir, file_desc

CORR_DTYPE = np.dtype([('re', '<f8'), ('im', '<f8')])


def _bytes_attr(text):
    b = text.encode('ascii')
    return np.array([b], dtype='S%d' % (len(b) + 1))   # Hadrons stores NUL-terminated C strings


def write_meson_hd5(directory, filestem, configs, meson='meson_0', gamma_snk='Gamma5',
                    gamma_src='Gamma5', extra_mesons=None):
    """configs: {cfg(int): sequence of T complex values}.
    meson: '<group>_<i>' - group name is the part before the last '_'.
    extra_mesons: optional {meson_label: (gamma_snk, gamma_src, {cfg: values})}
    written into the same files (to exercise the attribute search of read_hd5).
    The whole file is one record (hdf5 has no record structure of its own)."""
    directory = ensure_dir(directory)
    out = []
    for cfg in configs:
        path = os.path.join(directory, '%s.%d.h5' % (filestem, cfg))
        with h5py.File(path, 'w') as f:
            entries = {meson: (gamma_snk, gamma_src, configs)}
            entries.update(extra_mesons or {})
            for label, (snk, src, data) in entries.items():
                group = label.rsplit('_', 1)[0]
                g = f.require_group(group).create_group(label)
                g.attrs.create('gamma_snk', _bytes_attr(snk))
                g.attrs.create('gamma_src', _bytes_attr(src))
                vals = np.asarray(data[cfg], dtype=complex)
                arr = np.empty(len(vals), dtype=CORR_DTYPE)
                arr['re'] = vals.real
                arr['im'] = vals.imag
                g.create_dataset('corr', data=arr)
        out.append(file_desc(path, 0, [(0, os.path.getsize(path), cfg)], replica=filestem,
                             rep_name=None))
    return out
