"""Writer for Hadrons meson hdf5 files read by pyerrors.input.hadrons.read_meson_hd5
/ read_hd5.  See FORMATS.md.

One file per configuration:  <directory>/<filestem>.<cfg>.h5

    /<group>/<group>_<i>            group, e.g. /meson/meson_0
        attrs gamma_snk, gamma_src  arrays of shape (1,) of fixed-length byte strings
                                    (the reader does  v[0].decode()  on every attribute)
        dataset 'corr'              shape (T,), compound dtype [('re','<f8'), ('im','<f8')]
                                    (the reader does  raw[:].view("complex"))
"""

import os

import h5py
import numpy as np

from .common import ensure_dir, file_desc

CORR_DTYPE = np.dtype([('re', '<f8'), ('im', '<f8')])


def _bytes_attr(text):
    b = text.encode('ascii')
    return np.array([b], dtype='S%d' % (len(b) + 1))   # Hadrons stores NUL-terminated C strings


def write_meson_hd5(directory, filestem, configs, meson='meson_0', gamma_snk='Gamma5',
                    gamma_src='Gamma5', extra_mesons=None):
    """configs: {cfg(int): sequence of T complex values}.
    meson: '<group>_<i>' - group name is the part before the last '_'.
    extra_mesons: optional {meson_label: (gamma_snk, gamma_src, {cfg: values})}
    written into the same files (to exercise the attribute search of read_hd5).
    The whole file is one record (hdf5 has no record structure of its own)."""
    directory = ensure_dir(directory)
    out = []
    for cfg in configs:
        path = os.path.join(directory, '%s.%d.h5' % (filestem, cfg))
        with h5py.File(path, 'w') as f:
            entries = {meson: (gamma_snk, gamma_src, configs)}
            entries.update(extra_mesons or {})
            for label, (snk, src, data) in entries.items():
                group = label.rsplit('_', 1)[0]
                g = f.require_group(group).create_group(label)
                g.attrs.create('gamma_snk', _bytes_attr(snk))
                g.attrs.create('gamma_src', _bytes_attr(src))
                vals = np.asarray(data[cfg], dtype=complex)
                arr = np.empty(len(vals), dtype=CORR_DTYPE)
                arr['re'] = vals.real
                arr['im'] = vals.imag
                g.create_dataset('corr', data=arr)
        out.append(file_desc(path, 0, [(0, os.path.getsize(path), cfg)], replica=filestem,
                             rep_name=None))
    return out


# ---- matrix-valued Hadrons outputs (ExternalLeg, Bilinear, FourQuarkFullyConnected): one file per configuration --------------------
def _mat_dataset(group, mat):
    """dataset 'corr' of shape (1, 1) + mat.shape, compound (re, im): the readers take [0][0] and view it as complex"""
    mat = np.asarray(mat, dtype=complex)
    arr = np.empty((1, 1) + mat.shape, dtype=CORR_DTYPE)
    arr['re'][0, 0] = mat.real
    arr['im'][0, 0] = mat.imag
    group.create_dataset('corr', data=arr)


def _mom_attr(mom):
    return np.array([(' '.join('%g' % m for m in mom) + ' ').encode('ascii')])       # "[b'1 0 0 2 ']": the readers cut [3:-2] and split


def write_externalleg_hd5(directory, filestem, configs, mom_in=(1, 0, 0, 2)):
    """configs: {cfg: complex array (s, s, c, c)} -> <filestem>.<cfg>.h5 with /ExternalLeg/corr and /ExternalLeg/info(pIn)"""
    directory = ensure_dir(directory)
    for cfg, mat in configs.items():
        with h5py.File(os.path.join(directory, '%s.%d.h5' % (filestem, cfg)), 'w') as f:
            g = f.create_group('ExternalLeg')
            _mat_dataset(g, mat)
            g.create_group('info').attrs.create('pIn', _mom_attr(mom_in))


def write_bilinear_hd5(directory, filestem, configs, gammas, mom_in=(1, 0, 0, 2), mom_out=(0, 1, 2, 0)):
    """configs: {cfg: [16 complex arrays]}, gammas: 16 names -> /Bilinear/Bilinear_<i>/{corr, info(gamma, pIn, pOut)}"""
    directory = ensure_dir(directory)
    for cfg, mats in configs.items():
        with h5py.File(os.path.join(directory, '%s.%d.h5' % (filestem, cfg)), 'w') as f:
            top = f.create_group('Bilinear')
            for i, (name, mat) in enumerate(zip(gammas, mats)):
                g = top.create_group('Bilinear_%d' % i)
                _mat_dataset(g, mat)
                info = g.create_group('info')
                info.attrs.create('gamma', _bytes_attr(name))
                info.attrs.create('pIn', _mom_attr(mom_in))
                info.attrs.create('pOut', _mom_attr(mom_out))


def write_fourquark_hd5(directory, filestem, configs, pairs, mom_in=(1, 0, 0, 2), mom_out=(0, 1, 2, 0)):
    """configs: {cfg: [32 complex arrays (s, s, c, c, s, s, c, c)]}, pairs: 32 (gammaA, gammaB) names"""
    directory = ensure_dir(directory)
    for cfg, mats in configs.items():
        with h5py.File(os.path.join(directory, '%s.%d.h5' % (filestem, cfg)), 'w') as f:
            top = f.create_group('FourQuarkFullyConnected')
            for i, ((ga, gb), mat) in enumerate(zip(pairs, mats)):
                g = top.create_group('FourQuarkFullyConnected_%d' % i)
                _mat_dataset(g, mat)
                info = g.create_group('info')
                info.attrs.create('gammaA', _bytes_attr(ga))
                info.attrs.create('gammaB', _bytes_attr(gb))
                info.attrs.create('pIn', _mom_attr(mom_in))
                info.attrs.create('pOut', _mom_attr(mom_out))


# ---- DistillationContraction: one DIRECTORY per configuration, data.<cfg>/<stem>.<cfg>.h5 -------------------------------------------
def write_distillation_hd5(directory, configs, stems, nt, diagrams=('direct',)):
    """configs: {cfg: {stem: {diagram: complex array (nt sources, nt)}}}; stems: {stem: [4 input file names]}"""
    directory = ensure_dir(directory)
    for cfg, per_stem in configs.items():
        sub = ensure_dir(os.path.join(directory, 'data.%d' % cfg))
        for stem, per_diag in per_stem.items():
            with h5py.File(os.path.join(sub, '%s.%d.h5' % (stem, cfg)), 'w') as f:
                md = f.create_group('DistillationContraction/Metadata')
                md.attrs.create('TimeSources', _bytes_attr('0...'))
                md.attrs.create('Nt', np.array([nt], dtype=np.int32))
                inp = md.create_group('DmfInputFiles')
                for k, name in enumerate(stems[stem]):
                    inp.attrs.create('DmfInputFiles_%d' % k, _bytes_attr(name))
                inp.attrs.create('n', np.array([len(stems[stem])], dtype=np.int32))      # the reader counts the attributes minus one
                for diag in diagrams:
                    gd = f.require_group('DistillationContraction/Correlators').create_group(diag)
                    for x0 in range(nt):
                        vals = np.asarray(per_diag[diag][x0], dtype=complex)
                        arr = np.empty(nt, dtype=CORR_DTYPE)
                        arr['re'], arr['im'] = vals.real, vals.imag
                        gd.create_dataset(str(x0), data=arr)


# ---- FlowObservables (extract_t0_hd5): /FlowObservables/FlowObservables_<k>/data with attribute description -----------------------
def write_flowobs_hd5(directory, filestem, configs, flow_times, descriptions=('Flow time', 'Plaquette energy density', 'Clover energy density')):
    """configs: {cfg: {description: real array over flow times}}; FlowObservables_0 holds the flow times themselves"""
    directory = ensure_dir(directory)
    for cfg, per_obs in configs.items():
        with h5py.File(os.path.join(directory, '%s.%d.h5' % (filestem, cfg)), 'w') as f:
            top = f.create_group('FlowObservables')
            for k, desc in enumerate(descriptions):
                g = top.create_group('FlowObservables_%d' % k)
                g.attrs.create('description', _bytes_attr(desc))
                g.create_dataset('data', data=np.asarray(flow_times if k == 0 else per_obs[desc], dtype=np.float64))
