"""Projection and construction of correlators for the C14 / C15 / C16 drivers.

Every observable inside a test correlator lives on the single chain 'e' with NS configurations, so an entry is
described by its central value and its NS fluctuations (module CorrOps.tla: slot).
"""
import numpy as np

import pyerrors as pe
from pyerrors.obs import Obs, CObs

from .jsonsafe import rat

NS = 6
CHAIN = 'e'


def mk(rng, v, rel=0.05):
    x = v + rel * (abs(v) + 0.1) * rng.normal(size=NS)
    x = x - x.mean() + v
    return pe.Obs([x], [CHAIN])


def pslot(x):
    if isinstance(x, Obs):
        if not np.isfinite(x.value):
            return {'k': 'nan'}
        if list(x.names) != [CHAIN]:
            return {'k': 'bad', 't': 'names:' + ','.join(map(str, x.names))}
        d = np.asarray(x.deltas[CHAIN], dtype=float)
        if not np.all(np.isfinite(d)):
            return {'k': 'nan'}
        return {'k': 'r', 'v': rat(float(x.value)), 'd': [rat(float(v)) for v in d]}
    if isinstance(x, CObs):
        return {'k': 'c', 're': pslot(x.real), 'im': pslot(x.imag)}
    if isinstance(x, (bool, np.bool_)):
        return {'k': 'bad', 't': 'bool'}
    if isinstance(x, (int, float, np.integer, np.floating)):
        if not np.isfinite(x):
            return {'k': 'nan'}
        return {'k': 'n', 'v': rat(x)}
    if isinstance(x, (complex, np.complexfloating)):
        return {'k': 'c', 're': {'k': 'n', 'v': rat(float(x.real))}, 'im': {'k': 'n', 'v': rat(float(x.imag))}}
    return {'k': 'bad', 't': type(x).__name__}


def pcorr(c):
    content = []
    for item in c.content:
        if item is None:
            content.append({'k': 'none'})
        else:
            arr = np.asarray(item, dtype=object)
            if arr.ndim == 1:
                arr = arr.reshape(1, 1) if arr.size == 1 else arr.reshape(1, -1)
            content.append({'k': 'm', 'm': [[pslot(x) for x in row] for row in arr]})
    return {'T': int(c.T), 'N': int(c.N), 'content': content}


def pres(x):
    """tagged projection of a result that should be a correlator"""
    if isinstance(x, Exception):
        return {'k': 'exc', 't': type(x).__name__}
    if isinstance(x, pe.Corr):
        return {'k': 'corr', 'c': pcorr(x)}
    if isinstance(x, (Obs, CObs)):
        return {'k': 'slot', 'x': pslot(x)}
    return {'k': 'other:' + type(x).__name__}


def make_corr(rng, mask, N=1, complex_content=False, positive=False, lo=-2.0, hi=2.5):
    """mask[t] True = undefined"""
    content = []

    def val():
        while True:
            v = float(rng.uniform(0.2 if positive else lo, hi))
            if abs(v) > 0.15 and abs(abs(v) - 1.0) > 0.08:
                return float(np.round(v, 3))

    def entry():
        if complex_content:
            return pe.CObs(mk(rng, val()), mk(rng, val()))
        return mk(rng, val())

    for t, und in enumerate(mask):
        if und:
            content.append(None)
        elif N == 1:
            content.append(entry())
        else:
            m = np.empty((N, N), dtype=object)
            for i in range(N):
                for j in range(N):
                    m[i, j] = entry()
            content.append(m)
    if all(x is None for x in content):
        return None
    return pe.Corr(content)
