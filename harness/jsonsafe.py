"""JSON writer for data TLC reads with the CommunityModules Json module.

Measured: that module aborts on null, silently wraps integers >= 2^31 and silently truncates floats.  So the
cases we hand to TLC may contain only: bool, int with |i| < 2^31, str, list, dict with str keys.  Reals travel
as exact rational strings (see rat()).  Anything else is a machinery error - never silently converted.
"""
import json
from fractions import Fraction

import numpy as np

LIM = 2 ** 31 - 1


def rat(x):
    """exact rational text "n" or "n/d" of a python / numpy real number (bool excluded)"""
    if isinstance(x, (bool, np.bool_)):
        raise TypeError('rat(bool)')
    if isinstance(x, (int, np.integer)):
        return str(int(x))
    if isinstance(x, Fraction):
        return str(x.numerator) if x.denominator == 1 else '%d/%d' % (x.numerator, x.denominator)
    if isinstance(x, (float, np.floating)):
        x = float(x)
        if x != x or x in (float('inf'), float('-inf')):
            raise ValueError('non-finite real cannot enter the specification: %r' % x)
        n, d = x.as_integer_ratio()
        return str(n) if d == 1 else '%d/%d' % (n, d)
    raise TypeError('rat(%r)' % type(x))


def ratx(x):
    """rat() for values OBSERVED from the implementation: a non-finite number becomes the text "nan", on which the
    specification cannot be evaluated - the case is then rejected (never a harness failure)"""
    try:
        return rat(x)
    except ValueError:
        return 'nan'


def frac(s):
    """inverse of rat"""
    if isinstance(s, int):
        return Fraction(s)
    if '/' in s:
        n, d = s.split('/')
        return Fraction(int(n), int(d))
    return Fraction(int(s))


def check(o, path='$'):
    if isinstance(o, bool):
        return
    if isinstance(o, int):
        if abs(o) > LIM:
            raise ValueError('integer beyond 31 bits at %s: %d' % (path, o))
        return
    if isinstance(o, str):
        return
    if isinstance(o, (list, tuple)):
        for i, v in enumerate(o):
            check(v, '%s[%d]' % (path, i))
        return
    if isinstance(o, dict):
        for k, v in o.items():
            if not isinstance(k, str):
                raise TypeError('non-string key at %s: %r' % (path, k))
            check(v, '%s.%s' % (path, k))
        return
    raise TypeError('value of type %s at %s cannot be handed to TLC' % (type(o).__name__, path))


def dumps(o):
    check(o)
    return json.dumps(o, separators=(',', ':'), ensure_ascii=True)
