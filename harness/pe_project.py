"""The projection: what the specification sees of a pyerrors object.

Shared by both binding directions.  Reads only public attributes.  Reals become exact rational strings; nothing
is rounded, nothing is guessed: where the object is not of the expected kind the projection says so in a flag
(vkind, intcfg, namesok) and the specification's WellFormed decides.
"""
import numbers

import numpy as np

from .jsonsafe import rat

import pyerrors as pe
from pyerrors.obs import Obs, CObs


def _vkind(v):
    if isinstance(v, (bool, np.bool_)):
        return 'bool'
    if isinstance(v, (float, np.floating)):
        return 'float'
    if isinstance(v, (int, np.integer)):
        return 'int'
    if isinstance(v, (complex, np.complexfloating)):
        return 'complex'
    if isinstance(v, np.ndarray):
        return 'ndarray'
    return type(v).__name__


def _isint(x):
    return isinstance(x, (int, np.integer)) and not isinstance(x, (bool, np.bool_))


def _real(v):
    """rational text of a real number; for non-real kinds a placeholder (vkind tells)"""
    if isinstance(v, (float, np.floating, int, np.integer)) and not isinstance(v, (bool, np.bool_)):
        if isinstance(v, (float, np.floating)) and not np.isfinite(v):
            return 'nan'
        return rat(v)
    if isinstance(v, (complex, np.complexfloating)):
        return rat(float(v.real)) if np.isfinite(v.real) else 'nan'
    if isinstance(v, np.ndarray) and v.size == 1 and v.dtype.kind == 'f':
        return rat(float(v.reshape(-1)[0]))
    return 'nan'


def project_obs(o, analysed=False):
    names = list(o.names)
    namesok = all(isinstance(n, str) for n in names)
    covnames = [n for n in o.covobs.keys()]
    chain_names = [n for n in names if n not in o.covobs]
    chains = []
    finite = True
    for n in chain_names:
        idl = o.idl[n]
        il = list(idl)
        intcfg = all(_isint(x) for x in il)
        d = np.asarray(o.deltas[n], dtype=float)
        if not np.all(np.isfinite(d)):
            finite = False
        r = o.r_values[n]
        chains.append({
            'name': str(n),
            'isrange': isinstance(idl, range),
            'idl': [int(x) for x in il],
            'intcfg': bool(intcfg),
            'd': [rat(x) if np.isfinite(x) else 'nan' for x in d],
            'r': _real(r),
            'shape': int(o.shape[n]),
        })
    cov = []
    for n in covnames:
        c = o.covobs[n]
        cov.append({'name': str(n),
                    'cov': [[rat(float(x)) for x in row] for row in np.asarray(c.cov, dtype=float)],
                    'grad': [rat(float(x)) for x in np.asarray(c.grad, dtype=float).reshape(-1)]})
    p = {
        'names': [str(n) for n in names],
        'namesok': bool(namesok),
        'chains': chains,
        'cov': cov,
        'value': _real(o.value),
        'vkind': _vkind(o.value),
        'N': int(o.N),
        'rew': bool(o.reweighted),
        'finite': bool(finite and _real(o.value) != 'nan'),
    }
    if analysed and hasattr(o, 'e_dvalue'):
        p['an'] = project_analysis(o)
    return p


def project_analysis(o):
    """the cache of the last error analysis"""
    ens = []
    for e in o.mc_names:
        rec = {'name': e,
               'dvalue': rat(float(o.e_dvalue[e])), 'ddvalue': rat(float(o.e_ddvalue[e])),
               'tauint': rat(float(o.e_tauint[e])), 'dtauint': rat(float(o.e_dtauint[e])),
               'window': int(o.e_windowsize[e]),
               'S': rat(o.S[e]), 'tau_exp': rat(o.tau_exp[e]), 'N_sigma': rat(o.N_sigma[e]),
               'rho': [rat(float(x)) for x in np.asarray(o.e_rho[e], dtype=float)],
               'drho': [rat(float(x)) for x in np.asarray(o.e_drho[e], dtype=float)],
               'ntau': [rat(float(x)) for x in np.asarray(o.e_n_tauint.get(e, []), dtype=float)],
               'ndtau': [rat(float(x)) for x in np.asarray(o.e_n_dtauint.get(e, []), dtype=float)]}
        ens.append(rec)
    covs = [{'name': n, 'dvalue': rat(float(o.e_dvalue[n]))} for n in o.cov_names]
    return {'ens': ens, 'covs': covs, 'dvalue': rat(float(o.dvalue)), 'ddvalue': rat(float(o.ddvalue))}


def project_any(x):
    """tagged projection of whatever a public call returned"""
    if isinstance(x, Obs):
        return {'k': 'obs', 'o': project_obs(x)}
    if isinstance(x, CObs):
        return {'k': 'cobs', 're': project_any(x.real), 'im': project_any(x.imag)}
    if isinstance(x, (bool, np.bool_)):
        return {'k': 'bool', 'v': bool(x)}
    if isinstance(x, (int, np.integer, float, np.floating)):
        if isinstance(x, (float, np.floating)) and not np.isfinite(x):
            return {'k': 'nan'}
        return {'k': 'num', 'v': rat(x), 'vkind': _vkind(x)}
    if isinstance(x, (complex, np.complexfloating)):
        return {'k': 'cnum', 're': rat(float(x.real)), 'im': rat(float(x.imag))}
    if isinstance(x, np.ndarray):
        return {'k': 'array', 'shape': [int(s) for s in x.shape], 'a': [project_any(y) for y in x.reshape(-1)]}
    if isinstance(x, (list, tuple)):
        return {'k': 'list', 'a': [project_any(y) for y in x]}
    if x is None:
        return {'k': 'none'}
    if x is NotImplemented:
        return {'k': 'notimplemented'}
    if isinstance(x, pe.Corr):
        return {'k': 'corr', 'T': int(x.T), 'N': int(x.N)}
    return {'k': 'other', 't': type(x).__name__}


def project_exc(e):
    return {'k': 'exc', 't': type(e).__name__}
