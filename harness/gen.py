"""Generators shared by the drivers: chain layouts, Monte-Carlo data, expression trees.

All randomness comes from a numpy Generator seeded by the caller (VERIF_SEED).
"""
import math

import numpy as np
import autograd.numpy as anp

import pyerrors as pe

from .jsonsafe import rat

# ----------------------------------------------------------------------------------------------- layouts
IDL_CLASSES = ['contig', 'strided', 'gapped', 'irregular', 'fake_range']


def make_idl(rng, cls, n, first=None, step=None, umax=None):
    """a configuration list of n entries of the given class (python range or list)"""
    first = int(rng.integers(1, 30)) if first is None else first
    if cls == 'contig':
        return range(first, first + n)
    if cls == 'strided':
        step = int(rng.integers(2, 5)) if step is None else step
        return range(first, first + n * step, step)
    if cls == 'gapped':
        # on a grid of spacing step with some grid points missing (common spacing kept: two neighbours present)
        step = int(rng.integers(1, 4)) if step is None else step
        m = n + int(rng.integers(1, max(2, n // 2) + 1))
        keep = sorted(rng.choice(np.arange(1, m - 1), size=n - 2, replace=False).tolist()) if n > 2 else []
        pos = [0] + keep + [m - 1]
        lst = [first + step * p for p in pos]
        d = np.diff(lst)
        if len(set(d)) == 1:
            return range(lst[0], lst[-1] + d[0], d[0])
        if min(d) != step:       # make sure the smallest spacing is the grid spacing
            lst = [first - step] + lst[:-1] if n > 1 else lst
            lst = sorted(set(lst))
            while len(lst) < n:
                lst.append(lst[-1] + step)
            d = np.diff(lst)
            if len(set(d)) == 1:
                return range(lst[0], lst[-1] + d[0], d[0])
        return [int(x) for x in lst]
    if cls == 'fake_range':
        # irregular although first, second and last entry (and the length) are those of a range
        step = int(rng.integers(2, 5)) if step is None else max(2, step)
        n = max(n, 5)
        lst = [first + step * p for p in range(n)]
        moved = 0
        for p in rng.permutation(np.arange(2, n - 1)).tolist():
            if moved >= max(1, n // 4):
                break
            shift = int(rng.integers(1, step))
            if lst[p] + shift < lst[p + 1]:
                lst[p] += shift
                moved += 1
        if moved == 0:
            lst[2] += 1
        return [int(x) for x in lst]
    if cls == 'irregular':
        step = 1
        m = n + int(rng.integers(2, n + 2))
        pos = sorted(rng.choice(np.arange(m), size=n, replace=False).tolist())
        lst = [first + p for p in pos]
        d = np.diff(lst)
        if len(set(d)) == 1:
            return range(lst[0], lst[-1] + d[0], d[0])
        return [int(x) for x in lst]
    raise ValueError(cls)


def sub_idl(rng, idl, kind, nmin=5):
    """a sub-list of idl: prefix / stride / random subset (>= nmin entries)"""
    lst = list(idl)
    n = len(lst)
    if n <= nmin:
        return idl
    if kind == 'window':
        k = int(rng.integers(nmin, n))
        a = int(rng.integers(1, n - k + 1))
        sub = lst[a:a + k]
    elif kind == 'prefix':
        k = int(rng.integers(nmin, n))
        sub = lst[:k]
    elif kind == 'suffix':
        k = int(rng.integers(nmin, n))
        sub = lst[n - k:]
    elif kind == 'stride':
        s = int(rng.integers(2, 4))
        sub = lst[int(rng.integers(0, s))::s]
        if len(sub) < nmin:
            sub = lst[:nmin]
    else:
        k = int(rng.integers(nmin, n))
        sub = sorted(rng.choice(lst, size=k, replace=False).tolist())
    d = np.diff(sub)
    if len(set(d)) == 1:
        return range(sub[0], sub[-1] + int(d[0]), int(d[0]))
    return [int(x) for x in sub]


def chain_data(rng, n, mean=1.0, sigma=0.05, tau=0.0, kind='normal'):
    if kind == 'const':
        return np.full(n, mean)
    if kind == 'alternating':
        return mean + sigma * np.array([(-1) ** i for i in range(n)], dtype=float)
    x = rng.normal(0, 1, n)
    if tau > 0:
        a = math.exp(-1.0 / tau)
        y = np.empty(n)
        y[0] = x[0]
        for i in range(1, n):
            y[i] = a * y[i - 1] + math.sqrt(1 - a * a) * x[i]
        x = y
    return mean + sigma * x


def make_obs(rng, layout, mean=1.0, sigma=0.05, tau=0.0, kind='normal'):
    """layout: list of (chain name, idl) - several ensembles allowed (built per ensemble and summed with weights 1)"""
    by_ens = {}
    for name, idl in layout:
        by_ens.setdefault(name.split('|')[0], []).append((name, idl))
    parts = []
    for e, chains in by_ens.items():
        samples = [chain_data(rng, len(idl), mean=mean + 0.2 * sigma * rng.normal(), sigma=sigma, tau=tau, kind=kind) for _, idl in chains]
        parts.append(pe.Obs(samples, [n for n, _ in chains], idl=[idl for _, idl in chains]))
    o = parts[0]
    for p in parts[1:]:
        o = o + p
    if len(parts) > 1:
        o = o / len(parts)
    return o


def grid_idl(rng, n, g, first=None):
    """a list of n configurations on a grid of spacing g whose smallest spacing is a multiple of g (common spacing)"""
    first = int(rng.integers(1, 30)) if first is None else first
    kind = str(rng.choice(['contig', 'strided', 'gapped']))
    mult = int(rng.choice([1, 1, 2]))
    if kind == 'contig':
        return range(first, first + n * g, g)
    if kind == 'strided':
        return range(first, first + n * g * mult, g * mult)
    m = n + int(rng.integers(1, n + 1))
    keep = sorted(rng.choice(np.arange(m), size=n, replace=False).tolist())
    lst = [first + g * mult * p for p in keep]
    d = np.diff(lst)
    return range(lst[0], lst[-1] + int(d[0]), int(d[0])) if len(set(d)) == 1 else [int(x) for x in lst]


_RSG = [0]
LAYOUT_CLASSES = ['same', 'strided', 'gapped', 'overlap', 'replica_subset', 'second_ensemble', 'multi_replica', 'bare_name', 'replica_subset_gapped', 'windows', 'prefix_ensembles', 'fake_union']


def twin_list(lst):
    """another irregular list with the same length, first and last entry, the same smallest spacing and (when two entries can be moved) the same
    sum, but holes at other places: the cheap signatures a cache might key a configuration list by do not tell the two apart"""
    lst = [int(x) for x in lst]
    if len(lst) < 5:
        return None
    g = int(min(np.diff(lst)))
    out = list(lst)
    up = [a for a in range(1, len(out) - 1) if out[a] + g not in out and out[a] + g < out[-1]]
    for a in up:
        for b in range(len(out) - 2, a, -1):
            if out[b] - g not in out and out[a] + g < out[b] - g:
                out[a], out[b] = out[a] + g, out[b] - g
                out = sorted(out)
                return out if int(min(np.diff(out))) == g and out != lst else None
    if up:
        out[up[0]] += g
        out = sorted(out)
        return out if int(min(np.diff(out))) == g else None
    return None


def operand_layouts(rng, cls, k, nmin=5, nmax=24):
    """k operand layouts of a layout class; each layout is a list of (chain, idl)"""
    n = int(rng.integers(nmin + 1, nmax + 1))
    if cls == 'same':
        idl = make_idl(rng, rng.choice(IDL_CLASSES), n)
        return [[('A|r1', idl)] for _ in range(k)]
    if cls == 'strided':
        idl = make_idl(rng, 'strided', n)
        return [[('A|r1', idl)] for _ in range(k)]
    if cls == 'gapped':
        base = make_idl(rng, rng.choice(['contig', 'strided']), n + 6)
        return [[('A|r1', sub_idl(rng, base, rng.choice(['prefix', 'suffix', 'stride', 'random'])))] for _ in range(k)]
    if cls == 'overlap':
        first = int(rng.integers(1, 10))
        res = []
        for _ in range(k):
            off = int(rng.integers(0, n // 2 + 1))
            res.append([('A|r1', range(first + off, first + off + n))])
        return res
    if cls == 'multi_replica':
        nrep = int(rng.integers(2, 4))
        g = int(rng.choice([1, 1, 2, 3]))
        idls = [grid_idl(rng, int(rng.integers(nmin, nmax)), g) for _ in range(nrep)]
        return [[('A|r%d' % (r + 1), idls[r]) for r in range(nrep)] for _ in range(k)]
    if cls == 'replica_subset':
        nrep = int(rng.integers(2, 4))
        g = int(rng.choice([1, 1, 2, 3]))
        idls = [grid_idl(rng, int(rng.integers(nmin, nmax)), g) for _ in range(nrep)]
        res = []
        for i in range(k):
            if i == 0:
                reps = list(range(nrep))
            else:
                m = int(rng.integers(1, nrep + 1))
                reps = sorted(rng.choice(nrep, size=m, replace=False).tolist())
            res.append([('A|r%d' % (r + 1), idls[r]) for r in reps])
        return res
    if cls == 'replica_subset_gapped':
        # operands that lack whole replicas AND are measured on fewer configurations on the replicas they have
        _RSG[0] += 1
        paired = _RSG[0] % 2 == 0 and k >= 2     # every second request: the second operand sits on exactly two of three replicas, thinned on one of them only
        nrep = 3 if paired else int(rng.integers(2, 4))
        g = int(rng.choice([1, 1, 2]))
        base = []
        for _ in range(nrep):
            first = int(rng.integers(1, 10))
            base.append(range(first, first + g * int(rng.integers(nmin + 4, nmax + 4)), g))
        res = []
        for i in range(k):
            if i == 0:
                reps = list(range(nrep))
            else:
                m = int(rng.integers(1, nrep + 1))
                reps = sorted(rng.choice(nrep, size=m, replace=False).tolist())
            if paired and i == 1:
                reps = [[0, 1], [0, 2], [1, 2]][(_RSG[0] // 2) % 3]
                res.append([('A|r%d' % (reps[0] + 1), sub_idl(rng, base[reps[0]], ['stride', 'random', 'prefix'][(_RSG[0] // 6) % 3], nmin=nmin)), ('A|r%d' % (reps[1] + 1), base[reps[1]])])
                continue
            res.append([('A|r%d' % (r + 1), base[r] if (i == 0 or rng.random() < 0.3) else sub_idl(rng, base[r], str(rng.choice(['prefix', 'suffix', 'stride', 'random'])), nmin=nmin))
                        for r in reps])
        return res
    if cls == 'windows':
        # operands on separated windows of one replica with the same stride and phase (a gap nobody measured in between)
        step = int(rng.choice([1, 2, 4]))
        first = int(rng.integers(1, 6))
        res = []
        pos = first
        for i in range(k):
            n_i = int(rng.integers(nmin, nmax))
            res.append([('A|r1', range(pos, pos + step * n_i, step))])
            pos = pos + step * (n_i + int(rng.integers(0, 12)))
        return res
    if cls == 'bare_name':
        # a chain named exactly like its ensemble next to a named replica of the same ensemble
        idl0 = make_idl(rng, 'contig', n)
        idl1 = make_idl(rng, 'contig', int(rng.integers(nmin, nmax)))
        full = [('A', idl0), ('A|r1', idl1)]
        res = [full]
        for i in range(1, k):
            res.append([full[int(rng.integers(0, 2))]] if rng.random() < 0.7 else full)
        return res
    if cls == 'fake_union':
        # different lists whose UNION is irregular although its first, second and last entry and its length are those of a range
        u = list(make_idl(rng, 'fake_range', max(n, 7)))
        res = []
        for i in range(k):
            drop = set(int(x) for x in rng.choice(np.arange(1, len(u) - 1), size=int(rng.integers(1, max(2, len(u) // 3))), replace=False))
            if i == 0:
                drop0 = set(drop)
            elif i == 1:
                drop = {int(rng.integers(1, len(u) - 1))} - drop0          # the first two operands together cover the whole list
            lst = [c for j, c in enumerate(u) if j not in drop]
            d = np.diff(lst)
            res.append([('A|r1', range(lst[0], lst[-1] + int(d[0]), int(d[0])) if len(set(d.tolist())) == 1 else lst)])
        return res
    if cls == 'prefix_ensembles':
        # two ensembles whose names are prefix-related, with '|replica' parts: plain string order puts 'ens10|r1' before 'ens1|r1'
        ch = [('ens1|r1', make_idl(rng, 'contig', n)), ('ens1|r2', make_idl(rng, rng.choice(['contig', 'strided']), int(rng.integers(nmin, nmax)))),
              ('ens10|r1', make_idl(rng, rng.choice(IDL_CLASSES), int(rng.integers(nmin, nmax))))]
        res = []
        for i in range(k):
            c = int(rng.integers(0, 4)) if i else 3
            res.append(ch[:2] if c == 0 else ch[2:] if c == 1 else [ch[0], ch[2]] if c == 2 else ch)
        return res
    if cls == 'second_ensemble':
        idlA = make_idl(rng, rng.choice(IDL_CLASSES), n)
        idlB = make_idl(rng, rng.choice(IDL_CLASSES), int(rng.integers(nmin, nmax)))
        res = []
        for i in range(k):
            c = int(rng.integers(0, 3))
            res.append([('A|r1', idlA)] if c == 0 else [('Bens', idlB)] if c == 1 else [('A|r1', idlA), ('Bens', idlB)])
        return res
    raise ValueError(cls)


# ----------------------------------------------------------------------------------------------- expressions
UNARY = ['neg', 'abs', 'sqrt', 'log', 'exp', 'sin', 'cos', 'tan', 'arcsin', 'arccos', 'arctan',
         'sinh', 'cosh', 'tanh', 'arcsinh', 'arccosh', 'arctanh']
BINARY = ['add', 'sub', 'mul', 'div', 'pow']


def var(i):
    return {'op': 'var', 'i': i}          # 1-based


def const(v):
    return {'op': 'const', 'v': rat(v), 'py': v}


def node(op, *args):
    return {'op': op, 'a': list(args)}


def strip(e):
    """the expression as handed to TLC (python payloads removed)"""
    if e['op'] in ('var', 'rvar'):
        return {'op': e['op'], 'i': e['i']}
    if e['op'] == 'cvar':
        return {'op': 'cvar', 're': e['re'], 'im': e['im']}
    if e['op'] == 'const':
        return {'op': 'const', 'v': e['v']}
    if e['op'] == 'cconst':
        return {'op': 'cconst', 're': e['re'], 'im': e['im']}
    return {'op': e['op'], 'a': [strip(x) for x in e['a']]}


_NPF = {'neg': lambda m, x: -x, 'abs': lambda m, x: m.abs(x) if m is not None else abs(x)}


def ev(e, x, m):
    """evaluate with module m (anp for autograd / plain floats, np for Obs: np.sin(obs) dispatches to obs.sin())"""
    op = e['op']
    if op == 'var':
        return x[e['i'] - 1]
    if op == 'const':
        return e['py']
    if op in BINARY:
        a, b = ev(e['a'][0], x, m), ev(e['a'][1], x, m)
        if op == 'add':
            return a + b
        if op == 'sub':
            return a - b
        if op == 'mul':
            return a * b
        if op == 'div':
            return a / b
        return a ** b
    a = ev(e['a'][0], x, m)
    if op == 'neg':
        return -a
    if op == 'abs':
        return abs(a) if m is np else m.abs(a)
    return getattr(m, op)(a)


def safe(e, vals, margin=1.0):
    """is every function argument of e comfortably inside its domain at vals (and nothing huge)?  returns value or None"""
    op = e['op']
    if op == 'var':
        return vals[e['i'] - 1]
    if op == 'const':
        return float(e['py'])
    args = [safe(x, vals, margin) for x in e['a']]
    if any(a is None for a in args):
        return None
    a = args[0]
    try:
        if op == 'add':
            r = a + args[1]
        elif op == 'sub':
            r = a - args[1]
        elif op == 'mul':
            r = a * args[1]
        elif op == 'div':
            if abs(args[1]) < 0.3:
                return None
            r = a / args[1]
        elif op == 'pow':
            b = args[1]
            if e['a'][1]['op'] == 'const' and float(b).is_integer():
                if abs(b) > 4 or (b < 0 and abs(a) < 0.3):
                    return None
            elif a < 0.3 or abs(b) > 3:
                return None
            r = a ** b
        elif op == 'neg':
            r = -a
        elif op == 'abs':
            if abs(a) < 0.2:
                return None
            r = abs(a)
        elif op == 'sqrt':
            if a < 0.3:
                return None
            r = math.sqrt(a)
        elif op == 'log':
            if a < 0.3:
                return None
            r = math.log(a)
        elif op == 'exp':
            if abs(a) > 4:
                return None
            r = math.exp(a)
        elif op in ('sin', 'cos'):
            if abs(a) > 20:
                return None
            r = getattr(math, op)(a)
        elif op == 'tan':
            if abs(a) > 20 or abs(math.cos(a)) < 0.3:
                return None
            r = math.tan(a)
        elif op in ('arcsin', 'arccos'):
            if abs(a) > 0.7:
                return None
            r = getattr(math, 'a' + op[3:])(a)
        elif op == 'arctan':
            r = math.atan(a)
        elif op in ('sinh', 'cosh'):
            if abs(a) > 4:
                return None
            r = getattr(math, op)(a)
        elif op == 'tanh':
            if abs(a) > 4:
                return None
            r = math.tanh(a)
        elif op == 'arcsinh':
            r = math.asinh(a)
        elif op == 'arccosh':
            if a < 1.4:
                return None
            r = math.acosh(a)
        elif op == 'arctanh':
            if abs(a) > 0.7:
                return None
            r = math.atanh(a)
        else:
            raise ValueError(op)
    except (OverflowError, ValueError, ZeroDivisionError):
        return None
    if not math.isfinite(r) or abs(r) > 1e3:
        return None
    return r


def random_expr(rng, nvars, vals, depth=3, tries=200, ops_pool=None, intconst=True):
    """random tree using every variable at least once, safe at vals; None if none found"""
    un = ops_pool[0] if ops_pool else UNARY
    bi = ops_pool[1] if ops_pool else BINARY

    def rconst():
        if intconst and rng.random() < 0.4:
            c = int(rng.integers(1, 4)) * (1 if rng.random() < 0.8 else -1)
            return const(c)
        return const(float(np.round(rng.uniform(0.5, 2.5) * (1 if rng.random() < 0.8 else -1), 3)))

    def build(d, leaves):
        if d == 0 or (rng.random() < 0.25 and d < depth):
            if leaves and rng.random() < 0.8:
                return var(leaves.pop())
            if rng.random() < 0.6:
                return var(int(rng.integers(1, nvars + 1)))
            return rconst()
        if rng.random() < 0.4:
            return node(str(rng.choice(un)), build(d - 1, leaves))
        op = str(rng.choice(bi))
        left = build(d - 1, leaves)
        right = build(d - 1, leaves)
        if op == 'pow' and rng.random() < 0.6:
            right = const(int(rng.integers(-2, 4)) or 2) if rng.random() < 0.6 else const(float(np.round(rng.uniform(0.5, 2.5), 2)))
        if left['op'] == 'const' and right['op'] == 'const':
            left = var(int(rng.integers(1, nvars + 1)))
        return node(op, left, right)

    def used(e, acc):
        if e['op'] == 'var':
            acc.add(e['i'])
        elif 'a' in e:
            for x in e['a']:
                used(x, acc)
        return acc

    for _ in range(tries):
        leaves = list(rng.permutation(np.arange(1, nvars + 1)).tolist())
        e = build(depth, leaves)
        if used(e, set()) != set(range(1, nvars + 1)):
            continue
        v = safe(e, vals)
        if v is None:
            continue
        return e
    return None


def expr_str(e):
    op = e['op']
    if op == 'var':
        return 'x%d' % e['i']
    if op == 'const':
        return repr(e['py'])
    if op in BINARY:
        s = {'add': '+', 'sub': '-', 'mul': '*', 'div': '/', 'pow': '**'}[op]
        return '(%s %s %s)' % (expr_str(e['a'][0]), s, expr_str(e['a'][1]))
    return '%s(%s)' % (op, expr_str(e['a'][0]))
