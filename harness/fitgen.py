"""Shared by the C07 / C08 drivers: model families (python callable + TLA+ expression), data generation, the fit event."""
import numpy as np
import autograd.numpy as anp

import pyerrors as pe

from . import gen
from .jsonsafe import rat, ratx
from .pe_project import project_obs

V, C, N = gen.var, gen.const, gen.node


def _sum(terms):
    e = terms[0]
    for t in terms[1:]:
        e = N('add', e, t)
    return e


def _xpow(n, d, e):
    return N('pow', V(n + d + 1), C(e)) if e != 1 else V(n + d + 1)


def linear_model(n, D, terms):
    """terms: list of (param index 0-based, exponents tuple (len D), coefficient).  f(a, x) = sum coef * a_k * prod x_d^e_d"""
    def f(a, x):
        xs = [x] if D == 1 else list(x)
        tot = 0.0
        for k, ex, cf in terms:
            t = cf * a[k]
            for d in range(D):
                if ex[d]:
                    t = t * xs[d] ** ex[d]
            tot = tot + t
        if D == 1 and not any(any(ex) for _, ex, _ in terms):
            tot = tot + 0 * xs[0]
        elif D == 2 and not any(any(ex) for _, ex, _ in terms):
            tot = tot + 0 * xs[0]
        return tot
    parts = []
    for k, ex, cf in terms:
        t = N('mul', C(cf), V(k + 1))
        for d in range(D):
            if ex[d]:
                t = N('mul', t, _xpow(n, d, ex[d]))
        parts.append(t)
    return f, _sum(parts)


NONLINEAR = {
    # name: (n params, D, python f, expression builder, true parameters, x range)
    'exp': (2, 1, lambda a, x: a[0] * anp.exp(-a[1] * x),
            lambda n: N('mul', V(1), N('exp', N('neg', N('mul', V(2), V(n + 1))))), [1.6, 0.35], (0.5, 5.0)),
    'exp2': (4, 1, lambda a, x: a[0] * anp.exp(-a[1] * x) + a[2] * anp.exp(-a[3] * x),
             lambda n: N('add', N('mul', V(1), N('exp', N('neg', N('mul', V(2), V(n + 1))))), N('mul', V(3), N('exp', N('neg', N('mul', V(4), V(n + 1)))))),
             [1.2, 0.25, 0.8, 1.1], (0.3, 6.0)),
    'cosh': (2, 1, lambda a, x: a[0] * anp.cosh(a[1] * (x - 4.0)),
             lambda n: N('mul', V(1), N('cosh', N('mul', V(2), N('sub', V(n + 1), C(4.0))))), [0.9, 0.3], (0.0, 8.0)),
    'rational': (2, 1, lambda a, x: a[0] / (1.0 + a[1] * x),
                 lambda n: N('div', V(1), N('add', C(1.0), N('mul', V(2), V(n + 1)))), [2.0, 0.4], (0.2, 5.0)),
    'mixed2d': (4, 2, lambda a, x: a[0] + a[1] * x[0] + a[2] * anp.exp(-a[3] * x[1]),
                lambda n: N('add', N('add', V(1), N('mul', V(2), V(n + 1))), N('mul', V(3), N('exp', N('neg', N('mul', V(4), V(n + 2)))))),
                [0.5, 0.8, 1.4, 0.6], (0.3, 4.0)),
    # both components of a point enter one exponent: d^2 chi^2 / dx0 dx1 != 0 (the x-x block of the TLS Hessian is not diagonal)
    'prod2d': (2, 2, lambda a, x: a[0] * anp.exp(-a[1] * x[0] * x[1]),
               lambda n: N('mul', V(1), N('exp', N('neg', N('mul', V(2), N('mul', V(n + 1), V(n + 2)))))), [1.5, 0.3], (0.4, 2.0)),
    'power': (2, 1, lambda a, x: a[0] * x ** a[1],
              lambda n: N('mul', V(1), N('pow', V(n + 1), V(2))), [1.3, 0.7], (0.5, 5.0)),
}


def data_points(rng, truth, kind, npts, nsamp=40, vary_n=False):
    """observables y_i with central value near truth_i.
    kind: 'independent' (own ensemble per point), 'shared' (one ensemble, correlated through common noise), 'mixed' (two ensembles)"""
    ys = []
    if kind == 'independent':
        for i, t in enumerate(truth):
            idl = gen.make_idl(rng, str(rng.choice(['contig', 'strided', 'irregular'])), int(rng.integers(20, 40)))
            rel = float(rng.uniform(0.01, 0.03))
            ys.append(pe.Obs([t * (1 + rel * rng.normal()) + rel * (abs(t) + 0.1) * rng.normal(size=len(idl))], ['pt%02d' % i], idl=[idl]))
        return ys
    idl = gen.make_idl(rng, str(rng.choice(['contig', 'strided', 'irregular'])), nsamp)
    common = rng.normal(size=len(idl))
    tau = float(rng.choice([0, 1.5]))
    short = int(rng.integers(1, max(2, len(truth))))
    for i, t in enumerate(truth):
        rel = float(rng.uniform(0.01, 0.03))
        noise = 0.6 * common + gen.chain_data(rng, len(idl), mean=0.0, sigma=1.0, tau=tau)
        full = t * (1 + rel * rng.normal()) + rel * (abs(t) + 0.1) * noise
        if vary_n and i >= 1 and (i == short or rng.random() < 0.3):
            # a point known on fewer configurations than the others (never the first one of the list)
            keep = int(len(idl) * (0.6 if i == short else float(rng.uniform(0.7, 0.95))))
            o = pe.Obs([full[:keep]], ['E|r1'], idl=[list(idl)[:keep]])
        else:
            o = pe.Obs([full], ['E|r1'], idl=[idl])
        if kind == 'mixed' and i % 2:
            idl2 = gen.make_idl(rng, 'contig', 25)
            o = o + pe.Obs([0.5 * rel * (abs(t) + 0.1) * rng.normal(size=len(idl2))], ['F'], idl=[idl2])
            o = o - (o.value - t)
        ys.append(o)
    return ys


def mat(a):
    return [[ratx(float(x)) for x in row] for row in np.asarray(a, dtype=float)]


def fit_result_record(res, correlated):
    r = {'k': 'ok', 'p': [project_obs(o) for o in res.fit_parameters], 'chisquare': ratx(float(res.chisquare)), 'dof': int(res.dof),
         'p_value': ratx(float(res.p_value)) if np.isfinite(res.p_value) else '0', 'ncov': 0, 't2': '0'}
    if correlated and hasattr(res, 't2_p_value') and np.isfinite(res.t2_p_value):
        r['t2'] = ratx(float(res.t2_p_value))
    return r
