CONSTANTS
  Ts = {4,6}
INIT Init
NEXT Next
CHECK_DEADLOCK FALSE
