CONSTANTS
  Ts = {4, 5, 6}
INIT Init
NEXT Next
CHECK_DEADLOCK FALSE
