----------------------------- MODULE GammaCheck -----------------------------
(* Comparison of a recorded error analysis (projection "an" of pe_project)  *)
(* with Gamma!Analyse - shared by GammaTrace (C02) and SessionTrace (C03).  *)
EXTENDS Gamma, TraceBase

R9  == "1/1000000000"
R8  == "1/100000000"
A10 == "1/10000000000"
A12 == "1/1000000000000"

ParamsOf(o, args, glob, dict) ==
  [e \in EnsNames(o) |-> [S       |-> Resolve(args.S, dict.S, glob.S, e),
                          tau_exp |-> Resolve(args.tau_exp, dict.tau_exp, glob.tau_exp, e),
                          N_sigma |-> Resolve(args.N_sigma, dict.N_sigma, glob.N_sigma, e)]]

InDomain(o) == \A e \in EnsNames(o) : AllOnGrid(EnsChains(o, e))

\* squares of recorded doubles against the rational the specification computed
SqClose(x, y2, atol) == RClose(RSq(x), y2, "2/1000000000", atol)
SeqAClose(s, t, atol) == Len(s) = Len(t) /\ \A i \in DOMAIN s : RClose(s[i], t[i], R9, atol)

CheckEns(id, a, x, P) ==      \* a: recorded ensemble record, x: AnalyseEns result
  LET pre == id \o ":" \o a.name \o ":" IN
  /\ Verdict(id, pre \o "S", REq(a.S, P.S))
  /\ Verdict(id, pre \o "tau_exp", REq(a.tau_exp, P.tau_exp))
  /\ Verdict(id, pre \o "N_sigma", REq(a.N_sigma, P.N_sigma))
  /\ Verdict(id, pre \o "window", a.window = x.window)
  /\ IF a.window # x.window THEN TRUE ELSE
     /\ Verdict(id, pre \o "tauint", RClose(a.tauint, x.tauint, R9, "0"))
     /\ Verdict(id, pre \o "tauint>=1/2", RLe("1/2", a.tauint))
     /\ Verdict(id, pre \o "dtauint", SqClose(a.dtauint, x.dtauint2, RMul(A12, RSq(x.tauint))))
     /\ Verdict(id, pre \o "dvalue", SqClose(a.dvalue, x.dvalue2, "0"))
     /\ Verdict(id, pre \o "ddvalue", SqClose(a.ddvalue, x.ddvalue2, "0"))
     /\ IF x.kind = "zero" THEN TRUE ELSE
        /\ Verdict(id, pre \o "rho.len", Len(a.rho) = x.wmax)
        /\ Verdict(id, pre \o "rho", Len(a.rho) # x.wmax \/ \A t \in 0..(x.wmax - 1) : RClose(a.rho[t + 1], x.rho[t], R9, A10))
        /\ Verdict(id, pre \o "n_tauint", Len(a.ntau) # x.wmax \/ \A t \in 0..(x.wmax - 1) : RClose(a.ntau[t + 1], x.ntau[t], R9, A10))
        /\ Verdict(id, pre \o "n_dtauint", Len(a.ndtau) # x.wmax \/ \A t \in 0..(x.wmax - 1) : SqClose(a.ndtau[t + 1], x.ndtau2[t], A12))
        /\ Verdict(id, pre \o "drho", Len(a.drho) # x.wmax \/ \A i \in DOMAIN x.drho2 : SqClose(a.drho[i + 1], x.drho2[i], A12))

CheckAnalysis(id, o, an, P) ==
  LET x == Analyse(o, P) IN
  IF x.ambiguous THEN Skip(id, "windowing criterion too close to zero")
  ELSE
  /\ Verdict(id, "ensembles", [k \in DOMAIN an.ens |-> an.ens[k].name] = x.ens)
  /\ IF Len(an.ens) # Len(x.ens) THEN TRUE
     ELSE \A k \in DOMAIN x.ens : CheckEns(id, an.ens[k], x.per[k], P[x.ens[k]])
  /\ Verdict(id, "dvalue", SqClose(an.dvalue, x.dvalue2, "0"))
  /\ Verdict(id, "ddvalue", SqClose(an.ddvalue, x.ddvalue2, "0"))
  /\ Verdict(id, "cov.dvalue", Len(an.covs) = Len(o.cov) /\
         \A i \in DOMAIN o.cov : \E j \in DOMAIN an.covs : an.covs[j].name = o.cov[i].name /\ SqClose(an.covs[j].dvalue, x.cov2[i], "0"))
  /\ Verdict(id, "errors-nonnegative", RLe("0", an.dvalue) /\ RLe("0", an.ddvalue)
         /\ \A k \in DOMAIN an.ens : RLe("0", an.ens[k].dvalue) /\ RLe("0", an.ens[k].ddvalue) /\ RLe("0", an.ens[k].dtauint))

\* a recorded gamma_method call: c.obs (data), c.args, c.glob, c.dict, c.res
CheckGm(id, o, args, glob, dict, res) ==
  IF ~InDomain(o) THEN Skip(id, "replica off the common grid (outside the stated domain)")
  ELSE LET P == ParamsOf(o, args, glob, dict) IN
       IF ~Analysable(o, P) THEN Verdict(id, "must-raise", res.k = "exc")
       ELSE IF res.k # "ok" THEN Verdict(id, "raised:" \o res.t, FALSE)
       ELSE /\ CheckAnalysis(id, o, res.an, P)
            \* the analysis never alters the data
            /\ Verdict(id, "data-unchanged", res.after = o)
=============================================================================
