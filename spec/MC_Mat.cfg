INIT Init
NEXT Next
INVARIANT Assoc
INVARIANT Transp
INVARIANT DetMult
INVARIANT IdNeutral
CHECK_DEADLOCK FALSE
