CONSTANTS
  Names = {"a", "a.json", "a.json.gz", "b.gz", "c.x"}
  NDocs = 3
  MaxPool = 12
  MaxDepth = 0
INIT TraceInit
NEXT TraceNext
POSTCONDITION Accepted
CHECK_DEADLOCK FALSE
