------------------------------ MODULE CorrOps ------------------------------
(***************************************************************************)
(* Correlators (property C14 / C15): a correlator is                       *)
(*    [T, N, content]   content[t+1] = [k |-> "none"]  (undefined slice)   *)
(*                                   | [k |-> "m", m |-> N x N matrix]      *)
(* whose entries are slots: a real observable [k |-> "r", v, d] (central   *)
(* value and fluctuations on the correlator's common chain), a complex one *)
(* [k |-> "c", re, im] or a plain number [k |-> "n", v].                   *)
(* Arithmetic acts timeslice-wise and entry-wise through Expr (value and   *)
(* analytic gradient), undefined slices propagate, a result that is not a  *)
(* real number makes the slice undefined.                                  *)
(***************************************************************************)
EXTENDS Num, Expr, Sequences, FiniteSets, SequencesExt, TLC

Mod(a, b) == a % b
None == [k |-> "none"]
IsNone(x) == x.k = "none"
Defined(c) == {t \in 0..(c.T - 1) : ~IsNone(c.content[t + 1])}
At(c, t) == c.content[t + 1]
Entry(c, t, i, j) == c.content[t + 1].m[i][j]
Mat(m) == [k |-> "m", m |-> m]
MkCorr(T, N, f(_)) == [T |-> T, N |-> N, content |-> [t \in 1..T |-> f(t - 1)]]
ZeroD(n) == [k \in 1..n |-> "0"]
DLen(c) == LET t == CHOOSE s \in Defined(c) : TRUE  x == Entry(c, t, 1, 1) IN
           IF x.k = "r" THEN Len(x.d) ELSE IF x.k = "c" /\ x.re.k = "r" THEN Len(x.re.d) ELSE 0

\* ---- entry-wise application of a real expression to real slots -----------------------------------------
\* leaves: sequence of real slots ([k "r", v, d] or [k "n", v])
LeafV(x) == x.v
LeafD(x, n) == IF x.k = "r" THEN x.d ELSE ZeroD(n)
Apply(e, leaves, n) ==
  LET vals == [i \in DOMAIN leaves |-> LeafV(leaves[i])]
      g == Grad(e, vals)
      RECURSIVE Acc(_)
      Acc(i) == IF i > Len(leaves) THEN ZeroD(n) ELSE RAddSeq(RScaleSeq(g[i], LeafD(leaves[i], n)), Acc(i + 1))
  IN [k |-> "r", v |-> Eval(e, vals), d |-> Acc(1)]
ApplyDefined(e, leaves) == InDom(e, [i \in DOMAIN leaves |-> LeafV(leaves[i])])

\* closeness of an observed slot to an expected real slot
SlotClose(x, y, rtol, atol) ==
  /\ x.k = "r" /\ RClose(x.v, y.v, rtol, atol)
  /\ Len(x.d) = Len(y.d) /\ RCloseSeq(x.d, y.d, rtol, atol)
SlotScale(x) == IF x.k = "r" THEN RAdd(RAbs(x.v), RMaxAbsSeq(x.d)) ELSE IF x.k = "n" THEN RAbs(x.v)
                ELSE IF x.k = "c" THEN RAdd(IF x.re.k \in {"r", "n"} THEN RAbs(x.re.v) ELSE "0", IF x.im.k \in {"r", "n"} THEN RAbs(x.im.v) ELSE "0") ELSE "0"

\* ---- index transformations as explicit maps ---------------------------------------------------------------
Roll(c, dt) == MkCorr(c.T, c.N, LAMBDA t : At(c, Mod(t - dt, c.T)))
TReverse(c) == MkCorr(c.T, c.N, LAMBDA t : At(c, c.T - 1 - t))
Thin(c, spacing, offset) == MkCorr(c.T, c.N, LAMBDA t : IF Mod(offset + t, spacing) = 0 THEN At(c, t) ELSE None)
Item(c, i, j) == MkCorr(c.T, 1, LAMBDA t : IF IsNone(At(c, t)) THEN None ELSE Mat(<<<<Entry(c, t, i, j)>>>>))
\* averages: expressed as expressions over the referenced entries
Avg2(sign) == [op |-> "mul", a |-> <<[op |-> "const", v |-> "1/2"],
                 [op |-> IF sign > 0 THEN "add" ELSE "sub", a |-> <<[op |-> "var", i |-> 1], [op |-> "var", i |-> 2]>>]>>]
\* symmetric / anti-symmetric around x0 = 0 (N = 1, T even): slice 0 is kept
Symm(c, sign, n) == MkCorr(c.T, 1, LAMBDA t :
     IF t = 0 THEN At(c, 0)
     ELSE IF IsNone(At(c, t)) \/ IsNone(At(c, c.T - t)) THEN None
     ELSE Mat(<<<<Apply(Avg2(sign), <<Entry(c, t, 1, 1), Entry(c, c.T - t, 1, 1)>>, n)>>>>))
\* time-symmetry average with a partner of parity p: (c(t) + p * partner(T-1-t)) / 2
TSym(c, p, parity, n) == MkCorr(c.T, 1, LAMBDA t :
     IF IsNone(At(c, t)) \/ IsNone(At(p, c.T - 1 - t)) THEN None
     ELSE Mat(<<<<Apply(Avg2(parity), <<Entry(c, t, 1, 1), Entry(p, c.T - 1 - t, 1, 1)>>, n)>>>>))
\* linear forms of the matrix entries with plain-number coefficients w[i][j]
LinExpr(w, N) == LET terms == [q \in 1..(N * N) |-> [op |-> "mul", a |-> <<[op |-> "const", v |-> w[(q - 1) \div N + 1][Mod(q - 1, N) + 1]],
                                                                   [op |-> "var", i |-> q]>>]]
                     RECURSIVE Sum(_)
                     Sum(q) == IF q = 1 THEN terms[1] ELSE [op |-> "add", a |-> <<Sum(q - 1), terms[q]>>]
                 IN Sum(N * N)
Flat(m, N) == [q \in 1..(N * N) |-> m[(q - 1) \div N + 1][Mod(q - 1, N) + 1]]
LinForm(c, w, n) == MkCorr(c.T, 1, LAMBDA t :
     IF IsNone(At(c, t)) THEN None ELSE Mat(<<<<Apply(LinExpr(w, c.N), Flat(At(c, t).m, c.N), n)>>>>))
Trace(c, n) == LinForm(c, [i \in 1..c.N |-> [j \in 1..c.N |-> IF i = j THEN "1" ELSE "0"]], n)
Projected(c, vl, vr, n) == LinForm(c, [i \in 1..c.N |-> [j \in 1..c.N |-> RMul(vl[i], vr[j])]], n)
MatSym(c, n) == MkCorr(c.T, c.N, LAMBDA t :
     IF IsNone(At(c, t)) THEN None
     ELSE Mat([i \in 1..c.N |-> [j \in 1..c.N |-> Apply(Avg2(1), <<Entry(c, t, i, j), Entry(c, t, j, i)>>, n)]]))
\* Hankel matrix of a single correlator: H(t)[i][j] = c(t + i + j) (indices from 0); undefined when a referenced
\* timeslice is undefined or (non-periodic) beyond the end
Hankel(c, N, periodic) == MkCorr(c.T, N, LAMBDA t :
     LET ref(i, j) == IF periodic THEN Mod(t + i + j, c.T) ELSE t + i + j
         ok == \A i, j \in 0..(N - 1) : ref(i, j) < c.T /\ ~IsNone(At(c, ref(i, j)))
     IN IF ~ok THEN None ELSE Mat([i \in 1..N |-> [j \in 1..N |-> Entry(c, ref(i - 1, j - 1), 1, 1)]]))
=============================================================================
