CONSTANTS
  Tables = {"t1", "t2"}
  Names = {"a", "a.csv", "a.csv.gz", "b.gz"}
  NFrames = 2
  MaxPool = 4
  MaxRows = 5
  MaxDepth = 6
SPECIFICATION Spec
CONSTRAINT Bounded
INVARIANT TypeOK
INVARIANT GzIsNamedGz
INVARIANT RoundTripMeets
INVARIANT GzNamesMiss
PROPERTY AppendKeeps
PROPERTY FailLeavesTable
PROPERTY MixedOnlyByAppend
PROPERTY ReadReturnsTable
PROPERTY LoadReturnsLastDump
PROPERTY MixedIsUnreadable
PROPERTY OnlyAutoGammaAnalyses
CHECK_DEADLOCK FALSE
