------------------------------- MODULE Num -------------------------------
(***************************************************************************)
(* Numeric kernel of the pyerrors specification.                           *)
(*                                                                         *)
(* A real number is a TLA+ string "n" or "n/d": an exact rational of       *)
(* unbounded size (TLC integers are 32 bit and TLA+ has no built-in        *)
(* rationals TLC could evaluate).  The operators of the first group are    *)
(* the field operations and the order of Q; they are *declared* here by    *)
(* their meaning and *evaluated* by the Java class tlc2.module.Num         *)
(* (BigInteger arithmetic) - the mechanism TLC uses for Integers and       *)
(* Sequences.  Every IEEE double is a dyadic rational, so implementation   *)
(* values enter the specification without rounding.                        *)
(*                                                                         *)
(* The operators of the last group are approximate real functions          *)
(* (double precision); the specification uses them only under RClose or    *)
(* through a three-valued sign.                                            *)
(***************************************************************************)
EXTENDS Integers, Sequences

Rational == STRING          \* "n" | "n/d", d > 1, gcd(n, d) = 1

\* ---- exact field operations (Java: BigInteger) --------------------------
RAdd(a, b)    == CHOOSE r \in Rational : TRUE   \* a + b
RSub(a, b)    == CHOOSE r \in Rational : TRUE   \* a - b
RMul(a, b)    == CHOOSE r \in Rational : TRUE   \* a * b
RDiv(a, b)    == CHOOSE r \in Rational : TRUE   \* a / b   (b # 0)
RNeg(a)       == CHOOSE r \in Rational : TRUE   \* -a
RAbs(a)       == CHOOSE r \in Rational : TRUE   \* |a|
RNorm(a)      == CHOOSE r \in Rational : TRUE   \* canonical text of a
RFromInt(i)   == CHOOSE r \in Rational : TRUE   \* the integer i as a rational
RSign(a)      == CHOOSE s \in {-1, 0, 1} : TRUE \* sign of a
RCmp(a, b)    == CHOOSE s \in {-1, 0, 1} : TRUE \* sign of a - b
RLt(a, b)     == CHOOSE t \in BOOLEAN : TRUE    \* a < b
RLe(a, b)     == CHOOSE t \in BOOLEAN : TRUE    \* a <= b
REq(a, b)     == CHOOSE t \in BOOLEAN : TRUE    \* a = b as numbers
RIsInt(a)     == CHOOSE t \in BOOLEAN : TRUE    \* a is an integer
RFloor(a)     == CHOOSE i \in Int : TRUE        \* floor(a) as a TLC integer
RFloorR(a)    == CHOOSE r \in Rational : TRUE   \* floor(a) as a rational
RToInt(a)     == CHOOSE i \in Int : TRUE        \* the integer a as a TLC integer
RPowInt(a, k) == CHOOSE r \in Rational : TRUE   \* a^k, k an integer
\* |a - b| <= atol + rtol * |b|, decided exactly
RClose(a, b, rtol, atol)    == CHOOSE t \in BOOLEAN : TRUE
\* |a - b| <= atol + rtol * max(|a|, |b|)
RCloseSym(a, b, rtol, atol) == CHOOSE t \in BOOLEAN : TRUE

\* ---- sequences of rationals ----------------------------------------------
\* (ordinary TLA+ definitions; the Java class evaluates the same functions
\*  without building intermediate TLC values)
RECURSIVE RSumSeq(_)
RSumSeq(s) == IF s = <<>> THEN "0" ELSE RAdd(Head(s), RSumSeq(Tail(s)))
RDot(s, t) == RSumSeq([i \in 1..Len(s) |-> RMul(s[i], t[i])])
RLagDot(s, t, lag) == RSumSeq([i \in 1..(IF Len(s) > lag THEN Len(s) - lag ELSE 0) |-> RMul(s[i], t[i + lag])])
RScaleSeq(c, s) == [i \in 1..Len(s) |-> RMul(c, s[i])]
RAddSeq(s, t) == [i \in 1..Len(s) |-> RAdd(s[i], t[i])]
RCloseSeq(s, t, rtol, atol) == Len(s) = Len(t) /\ \A i \in 1..Len(s) : RClose(s[i], t[i], rtol, atol)
RECURSIVE RMaxAbsSeq(_)
RMaxAbsSeq(s) == IF s = <<>> THEN "0"
                 ELSE LET m == RMaxAbsSeq(Tail(s)) h == RAbs(Head(s)) IN IF RLt(m, h) THEN h ELSE m

\* ---- derived exact helpers -----------------------------------------------
RSq(a)     == RMul(a, a)
RMax(a, b) == IF RLt(a, b) THEN b ELSE a
RMin(a, b) == IF RLt(a, b) THEN a ELSE b
RHalf      == "1/2"

\* ---- approximate real functions (Java: double precision) -----------------
RSqrt(a)    == CHOOSE r \in Rational : TRUE
RExp(a)     == CHOOSE r \in Rational : TRUE
RLog(a)     == CHOOSE r \in Rational : TRUE
RSin(a)     == CHOOSE r \in Rational : TRUE
RCos(a)     == CHOOSE r \in Rational : TRUE
RTan(a)     == CHOOSE r \in Rational : TRUE
RArcsin(a)  == CHOOSE r \in Rational : TRUE
RArccos(a)  == CHOOSE r \in Rational : TRUE
RArctan(a)  == CHOOSE r \in Rational : TRUE
RSinh(a)    == CHOOSE r \in Rational : TRUE
RCosh(a)    == CHOOSE r \in Rational : TRUE
RTanh(a)    == CHOOSE r \in Rational : TRUE
RArcsinh(a) == CHOOSE r \in Rational : TRUE
RArccosh(a) == CHOOSE r \in Rational : TRUE
RArctanh(a) == CHOOSE r \in Rational : TRUE
RPow(a, b)  == CHOOSE r \in Rational : TRUE     \* a^b for real b
RFiniteD(a) == CHOOSE t \in BOOLEAN : TRUE      \* a is representable as a finite double
RRoundToDouble(a) == CHOOSE r \in Rational : TRUE   \* the IEEE double nearest to a (an exact rational again)
RRoundSeq(s) == [i \in 1..Len(s) |-> RRoundToDouble(s[i])]
RErf(a)     == CHOOSE r \in Rational : TRUE
RLGamma(a)  == CHOOSE r \in Rational : TRUE
\* sign of Wolff's windowing function exp(-W/tau) - tau/sqrt(W N),
\* tau = S / log((2t+1)/(2t-1));  0 = too close to zero to call
GSign(t, W, N, S)   == CHOOSE s \in {-1, 0, 1} : TRUE
RKn(n, x)           == CHOOSE r \in Rational : TRUE   \* modified Bessel function K_n(x)
RChiSqSurv(x, k)    == CHOOSE r \in Rational : TRUE   \* P(chi^2_k > x)
RFSurv(x, d1, d2)   == CHOOSE r \in Rational : TRUE   \* P(F_{d1,d2} > x)
=============================================================================
