CONSTANTS
  TLen = 6
  NPrim = 3
  MaxObj = 9
  MaxDepth = 0
INIT TraceInit
NEXT TraceNext
POSTCONDITION Accepted
CHECK_DEADLOCK FALSE
