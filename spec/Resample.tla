------------------------------ MODULE Resample ------------------------------
(***************************************************************************)
(* Jackknife and bootstrap as exact resampling transforms of the samples   *)
(* of a single-chain observable (property C13).                            *)
(***************************************************************************)
EXTENDS Gamma, LinAlg

\* samples of the single chain of o
Xs(o) == SamplesOf(o.chains[1])
\* leave-one-out means; entry 1 is the central value
JackOf(value, x) == LET n == Len(x)  tot == RMul(RFromInt(n), value) IN
                    <<value>> \o [i \in 1..n |-> RDiv(RSub(tot, x[i]), RFromInt(n - 1))]
\* inverse transform: x_j = sum_i jack_i - (n-1) jack_j
UnJack(j) == LET n == Len(j) - 1  s == RSumSeq(SubSeq(j, 2, n + 1)) IN
             [i \in 1..n |-> RSub(s, RMul(RFromInt(n - 1), j[i + 1]))]
\* jackknife variance (n-1)/n sum (jack_i - mean_jack)^2
JackVar(j) == LET n == Len(j) - 1  body == SubSeq(j, 2, n + 1)  m == RDiv(RSumSeq(body), RFromInt(n)) IN
              RMul(RDiv(RFromInt(n - 1), RFromInt(n)), RSumSeq([i \in 1..n |-> RSq(RSub(body[i], m))]))
\* naive squared error of the mean, sum d^2 / (n (n-1)).  For a chain on its own grid this is the S = 0 result of the
\* Gamma method (checked in MC_Resample as NaiveIsGammaS0); stated directly here because an irregular list need not lie
\* on the grid of its smallest spacing, and the jackknife does not care where the configurations sit.
NaiveVar(o) == LET d == o.chains[1].d  n == Len(d) IN RDiv(RSumSeq([i \in DOMAIN d |-> RSq(d[i])]), RFromInt(n * (n - 1)))
NaiveIsGammaS0(o) == AllOnGrid(o.chains) => NaiveVar(o) = AnalyseEns(o.chains, "0", "0", "1").dvalue2

\* bootstrap: table[k] = sequence of n indices in 0..n-1; sample k = mean of x over the resampled configurations
Counts(row, n) == [j \in 1..n |-> Cardinality({p \in DOMAIN row : row[p] = j - 1})]
BootOf(value, x, table) == LET n == Len(x) IN
     <<value>> \o [k \in DOMAIN table |-> RDiv(RSumSeq([p \in DOMAIN table[k] |-> x[table[k][p] + 1]]), RFromInt(n))]
ProjMat(table, n) == [k \in DOMAIN table |-> [j \in 1..n |-> RFromInt(Counts(table[k], n)[j])]]
Determined(table, n) == Rank(ProjMat(table, n)) = n
=============================================================================
