------------------------------ MODULE MC_Gamma ------------------------------
(***************************************************************************)
(* Model run for C02 / C03 on the specification alone.  TLC enumerates     *)
(* every configuration list with at least MinLen entries inside 1..U and   *)
(* every data word over Alphabet of that length, builds the observable     *)
(* with ObsCore!Construct and evaluates Gamma!AnalyseEns.  Invariants:     *)
(* the facts the properties state for EVERY input (tau_int >= 1/2, errors  *)
(* non-negative, window range, naive limit) and the invariances of C03     *)
(* (affine relabelling of configuration numbers, scaling of the data).     *)
(***************************************************************************)
EXTENDS Gamma
CONSTANTS U, MinLen, Alphabet
VARIABLES idl, word

None == <<>>
Alpha3 == {-1, 0, 1}
Lists == {SortedSeqOf(S) : S \in {T \in SUBSET (1..U) : Cardinality(T) >= MinLen}}
Words(n) == [1..n -> Alphabet]

Obs1(il, w) == Construct(<<[name |-> "E|r1", idl |-> il, x |-> [i \in DOMAIN w |-> RFromInt(w[i])]]>>)
Reps == Obs1(idl, word).chains
A(S, texp) == AnalyseEns(Reps, S, texp, "1")
Svals == {"0", "1", "2"}

Ready == word # None
Degenerate == \A i \in DOMAIN word : word[i] = word[1]

TauAtLeastHalf == Ready => \A S \in Svals : RLe("1/2", A(S, "0").tauint)
SquaresNonNeg  == Ready => \A S \in Svals : LET a == A(S, "0") IN RLe("0", a.dvalue2) /\ RLe("0", a.ddvalue2) /\ RLe("0", a.dtauint2)
WindowInRange  == Ready => \A S \in Svals \ {"0"} : LET a == A(S, "0") IN
                     a.kind = "auto" => (1 <= a.window /\ a.window <= a.wmax - 1)
NaiveLimit     == Ready => LET a == A("0", "0") IN
                     a.kind = "naive" => /\ a.window = 0 /\ a.tauint = "1/2"
                                         /\ a.dvalue2 = RDiv(RDot(Reps[1].d, Reps[1].d), RFromInt(Len(idl) * (Len(idl) - 1)))
ConstantIsZero == (Ready /\ Degenerate) => A("2", "0").kind = "zero" /\ A("2", "0").dvalue2 = "0"
\* C03: the analysis is unchanged by i -> a*i + b on the configuration numbers ...
Relabelled(a, b) == [r \in DOMAIN Reps |-> [Reps[r] EXCEPT !.idl = Relabel(Reps[r].idl, a, b)]]
RelabelInvariant == Ready => \A a \in 1..3 : \A b \in {-2, 0, 5} : \A S \in {"0", "2"} :
                       AnalyseEns(Relabelled(a, b), S, "0", "1") = A(S, "0")
\* ... and scales with c^2 in the squared errors, with tau_int and the window unchanged, when the data is multiplied by c
Scaled(c) == [r \in DOMAIN Reps |-> [Reps[r] EXCEPT !.d = RScaleSeq(c, Reps[r].d)]]
ScaleCovariant == Ready => \A c \in {"-2", "1/2", "3"} :
                       LET a == A("2", "0")  b == AnalyseEns(Scaled(c), "2", "0", "1") IN
                       /\ b.window = a.window /\ b.tauint = a.tauint
                       /\ b.dvalue2 = RMul(RSq(c), a.dvalue2) /\ b.ddvalue2 = RMul(RSq(c), a.ddvalue2)
\* tail analysis (needs 8 samples): window inside the first half, tau_int >= 1/2
TailInRange == (Ready /\ Len(idl) >= 8 /\ ~Degenerate) =>
                  LET a == A("2", "3") IN a.kind = "texp" => (1 <= a.window /\ a.window <= a.wmax \div 2 - 1 /\ RLe("1/2", a.tauint))

Init == idl = None /\ word = None
Next == \/ idl = None /\ idl' \in Lists /\ UNCHANGED word
        \/ idl # None /\ word = None /\ word' \in Words(Len(idl)) /\ UNCHANGED idl
=============================================================================
