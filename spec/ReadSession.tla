----------------------------- MODULE ReadSession -----------------------------
(***************************************************************************)
(* The measurement directory as a state machine (beyond the listed         *)
(* properties; DESIGN 7): a simulation that is still running appends       *)
(* configurations to the files of its replicas and starts new replicas,    *)
(* while the analysis reads the directory again and again.                 *)
(*                                                                         *)
(* State: dir, the file set as module Readers describes it (one entry per  *)
(* replica: stem and records [cfg, p]).  Actions: AddReplica, Grow (one    *)
(* more record at the end of a replica, its number larger than all before) *)
(* and the observation Read(sel).  Every read must return Readers!Expected *)
(* of the directory AS IT IS NOW - not as it was at an earlier read of the *)
(* same process (a cached listing), and not shifted by what was appended.  *)
(* A selection that asks for a configuration that is not there must raise. *)
(***************************************************************************)
EXTENDS Readers

CONSTANTS MaxReps, MaxRecs, MaxDepth,
          Payload(_, _)       \* the numbers a record (replica index, configuration number) holds
VARIABLES dir, last
vars == <<dir, last>>

Init == dir = <<>> /\ last = [a |-> "Init", r |-> 0, cfgs |-> <<>>, sel |-> [k |-> "all"]]

Rec(r, cfg) == [cfg |-> cfg, p |-> Payload(r, cfg)]
AddReplica(stem, cfgs) ==         \* a new replica with its first measurements
  /\ Len(dir) < MaxReps
  /\ \A i \in DOMAIN dir : dir[i].stem # stem
  /\ dir' = Append(dir, [stem |-> stem, recs |-> [i \in DOMAIN cfgs |-> Rec(Len(dir) + 1, cfgs[i])]])
  /\ last' = [a |-> "AddReplica", r |-> Len(dir) + 1, cfgs |-> cfgs, sel |-> [k |-> "all"]]
Grow(r, cfg) ==                   \* one more measurement at the end of replica r
  /\ Len(dir[r].recs) < MaxRecs
  /\ cfg > dir[r].recs[Len(dir[r].recs)].cfg
  /\ dir' = [dir EXCEPT ![r].recs = Append(@, Rec(r, cfg))]
  /\ last' = [a |-> "Grow", r |-> r, cfgs |-> <<cfg>>, sel |-> [k |-> "all"]]
Read(sel) ==
  /\ dir # <<>>
  /\ UNCHANGED dir
  /\ last' = [a |-> "Read", r |-> 0, cfgs |-> <<>>, sel |-> sel]

\* model-checking instance: equally spaced numbers, first replicas start with five measurements
Next == \/ \E first \in 1..2, step \in 1..2 : Len(dir) < MaxReps /\
             AddReplica("ensr" \o ToString(Len(dir) + 1), [i \in 1..5 |-> first + (i - 1) * step])
        \/ \E r \in DOMAIN dir : LET recs == dir[r].recs  step == recs[2].cfg - recs[1].cfg IN Grow(r, recs[Len(recs)].cfg + step)
        \/ Read([k |-> "all"])
Spec == Init /\ [][Next]_vars

\* ---- properties ---------------------------------------------------------------------------------------------------
TypeOK == Len(dir) <= MaxReps /\ \A r \in DOMAIN dir : Len(dir[r].recs) <= MaxRecs
Increasing == \A r \in DOMAIN dir : \A i \in 1..(Len(dir[r].recs) - 1) : dir[r].recs[i].cfg < dir[r].recs[i + 1].cfg
\* what was measured stays measured: records are only appended
OnlyAppended == [][\A r \in DOMAIN dir : IsPrefix(dir[r].recs, dir'[r].recs) /\ dir'[r].stem = dir[r].stem]_vars
\* the expectation of a read is a function of the present directory: it contains every record appended so far
ReadSeesAll == [][last'.a = "Read" => \A r \in DOMAIN dir : Len(CfgMap("hd5", Stored(dir[r]), [none |-> 0])) = Len(dir[r].recs)]_vars
Bounded == TLCGet("level") <= MaxDepth
=============================================================================
