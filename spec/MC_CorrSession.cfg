CONSTANTS
  TLen = 4
  NPrim = 2
  NMat = 1
  MaxObj = 4
  MaxDepth = 2
SPECIFICATION Spec
CONSTRAINT Bounded
INVARIANT TypeOK
INVARIANT Centred
PROPERTY DataNeverAltered
PROPERTY PoolOnlyGrows
PROPERTY CopiesCarryData
PROPERTY OneAttributeAtATime
PROPERTY ArithMask
PROPERTY Inheritance
CHECK_DEADLOCK FALSE
