CONSTANTS
  TLen = 4
  NPrim = 2
  MaxObj = 3
  MaxDepth = 3
SPECIFICATION Spec
CONSTRAINT Bounded
INVARIANT TypeOK
INVARIANT Centred
PROPERTY DataNeverAltered
PROPERTY PoolOnlyGrows
PROPERTY OneAttributeAtATime
PROPERTY ArithMask
PROPERTY Inheritance
CHECK_DEADLOCK FALSE
