CONSTANTS
  U = 6
  MinLen = 5
  Alphabet <- Alpha3
INIT Init
NEXT Next
INVARIANT TauAtLeastHalf
INVARIANT SquaresNonNeg
INVARIANT RelabelInvariant
INVARIANT ScaleCovariant
CHECK_DEADLOCK FALSE
