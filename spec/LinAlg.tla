------------------------------- MODULE LinAlg -------------------------------
(***************************************************************************)
(* Exact linear algebra over the rationals of module Num.  A matrix is a   *)
(* sequence of rows, a row a sequence of rationals.  Everything here is    *)
(* ordinary TLA+ (no Java): cofactor determinant, Gauss-Jordan inverse,    *)
(* principal minors - sizes are small (<= 8).                              *)
(***************************************************************************)
EXTENDS Num, FiniteSets, SequencesExt, TLC

NRows(A) == Len(A)
NCols(A) == IF Len(A) = 0 THEN 0 ELSE Len(A[1])
IsMatrix(A) == \A i \in DOMAIN A : Len(A[i]) = NCols(A)
IsSquare(A) == IsMatrix(A) /\ NRows(A) = NCols(A)
Col(A, j) == TLCEval([i \in DOMAIN A |-> A[i][j]])
Transpose(A) == TLCEval([j \in 1..NCols(A) |-> Col(A, j)])
MatMul(A, B) == LET Bt == Transpose(B) IN TLCEval([i \in DOMAIN A |-> TLCEval([j \in 1..NCols(B) |-> RDot(A[i], Bt[j])])])
MatVec(A, v) == TLCEval([i \in DOMAIN A |-> RDot(A[i], v)])
MatAdd(A, B) == [i \in DOMAIN A |-> RAddSeq(A[i], B[i])]
MatScale(c, A) == [i \in DOMAIN A |-> RScaleSeq(c, A[i])]
Identity(n) == [i \in 1..n |-> [j \in 1..n |-> IF i = j THEN "1" ELSE "0"]]
Diag(v) == TLCEval([i \in DOMAIN v |-> TLCEval([j \in DOMAIN v |-> IF i = j THEN v[i] ELSE "0"])])
IsSymmetric(A) == IsSquare(A) /\ \A i, j \in DOMAIN A : A[i][j] = A[j][i]
MatClose(A, B, rtol, atol) == Len(A) = Len(B) /\ \A i \in DOMAIN A : RCloseSeq(A[i], B[i], rtol, atol)
MaxAbsMat(A) == FoldSeq(LAMBDA row, acc : RMax(acc, RMaxAbsSeq(row)), "0", A)

\* sub-matrix on the (sorted) index sequence idx
SubMat(A, idx) == [i \in DOMAIN idx |-> [j \in DOMAIN idx |-> A[idx[i]][idx[j]]]]
Minor(A, i, j) == LET rows == SelectSeq([k \in DOMAIN A |-> k], LAMBDA k : k # i)
                      cols == SelectSeq([k \in 1..NCols(A) |-> k], LAMBDA k : k # j)
                  IN [r \in DOMAIN rows |-> [c \in DOMAIN cols |-> A[rows[r]][cols[c]]]]
RECURSIVE Det(_)
Det(A) == IF Len(A) = 0 THEN "1"
          ELSE IF Len(A) = 1 THEN A[1][1]
          ELSE RSumSeq([j \in 1..Len(A) |-> IF A[1][j] = "0" THEN "0"
                          ELSE RMul(IF j % 2 = 1 THEN A[1][j] ELSE RNeg(A[1][j]), Det(Minor(A, 1, j)))])
\* positive semi-definite: every principal minor is >= 0 (exact; sizes <= 6)
IsPSD(A) == IsSymmetric(A) /\ \A S \in (SUBSET (1..Len(A))) \ {{}} : RLe("0", Det(SubMat(A, SetToSortSeq(S, <))))
IsPD(A)  == IsSymmetric(A) /\ \A k \in 1..Len(A) : RLt("0", Det(SubMat(A, [i \in 1..k |-> i])))

\* pivots of the LDL^T factorisation without pivoting (Schur complements); a symmetric matrix is positive
\* definite iff all are > 0.  Stops (returns the pivots so far) at a non-positive pivot.
RECURSIVE LDLPivots(_)
LDLPivots(A) ==
  IF Len(A) = 0 THEN <<>>
  ELSE LET p == A[1][1] IN
       IF ~RLt("0", p) THEN <<p>>
       ELSE LET n == Len(A)
                S == TLCEval([i \in 1..(n - 1) |-> TLCEval([j \in 1..(n - 1) |-> RSub(A[i + 1][j + 1], RDiv(RMul(A[i + 1][1], A[1][j + 1]), p))])])
            IN <<p>> \o LDLPivots(S)
\* positive semi-definite up to the absolute slack eps: A + eps*I is positive definite
IsPSDWithin(A, eps) == LET B == TLCEval([i \in DOMAIN A |-> TLCEval([j \in DOMAIN A |-> IF i = j THEN RAdd(A[i][j], eps) ELSE A[i][j]])])
                           pv == TLCEval(LDLPivots(B))
                       IN Len(pv) = Len(A) /\ \A k \in DOMAIN pv : RLt("0", pv[k])

\* Gauss-Jordan elimination on the augmented matrix [A | B]; returns X with A X = B (A square, non-singular)
RECURSIVE Eliminate(_, _)
Eliminate(M, k) ==
  IF k > Len(M) THEN M
  ELSE LET piv == CHOOSE r \in k..Len(M) : M[r][k] # "0"
           sw  == TLCEval([i \in DOMAIN M |-> IF i = k THEN M[piv] ELSE IF i = piv THEN M[k] ELSE M[i]])
           nr  == TLCEval(RScaleSeq(RDiv("1", sw[k][k]), sw[k]))
           red == TLCEval([i \in DOMAIN sw |-> IF i = k THEN nr ELSE RAddSeq(sw[i], RScaleSeq(RNeg(sw[i][k]), nr))])
       IN Eliminate(red, k + 1)
\* the same elimination with every row rounded to 53 bits after each step (bounded operand size; error ~ 1e-15 * condition number)
RECURSIVE EliminateR(_, _)
EliminateR(M, k) ==
  IF k > Len(M) THEN M
  ELSE LET cand == {r \in k..Len(M) : M[r][k] # "0"}
           piv == CHOOSE r \in cand : \A q \in cand : RLe(RAbs(M[q][k]), RAbs(M[r][k]))       \* partial pivoting
           sw  == TLCEval([i \in DOMAIN M |-> IF i = k THEN M[piv] ELSE IF i = piv THEN M[k] ELSE M[i]])
           nr  == TLCEval(RRoundSeq(RScaleSeq(RDiv("1", sw[k][k]), sw[k])))
           red == TLCEval([i \in DOMAIN sw |-> IF i = k THEN nr ELSE RRoundSeq(RAddSeq(sw[i], RScaleSeq(RNeg(sw[i][k]), nr)))])
       IN EliminateR(red, k + 1)
SolveR(A, B) == LET n == Len(A)  m == NCols(B)
                    aug == TLCEval([i \in 1..n |-> TLCEval(RRoundSeq(A[i] \o B[i]))])
                    res == TLCEval(EliminateR(aug, 1))
                IN TLCEval([i \in 1..n |-> TLCEval([j \in 1..m |-> res[i][n + j]])])
Solve(A, B) == LET n == Len(A)  m == NCols(B)
                   aug == TLCEval([i \in 1..n |-> TLCEval(A[i] \o B[i])])
                   res == TLCEval(Eliminate(aug, 1))
               IN TLCEval([i \in 1..n |-> TLCEval([j \in 1..m |-> res[i][n + j]])])
MatInverse(A) == Solve(A, Identity(Len(A)))
IsSingular(A) == Det(A) = "0"
\* rank by exact row reduction
RECURSIVE RankFrom(_, _, _)
RankFrom(M, col, rank) ==
  IF col > NCols(M) \/ rank = Len(M) THEN rank
  ELSE LET cand == {r \in (rank + 1)..Len(M) : M[r][col] # "0"} IN
       IF cand = {} THEN RankFrom(M, col + 1, rank)
       ELSE LET piv == CHOOSE r \in cand : TRUE
                k == rank + 1
                sw == TLCEval([i \in DOMAIN M |-> IF i = k THEN M[piv] ELSE IF i = piv THEN M[k] ELSE M[i]])
                nr == TLCEval(RScaleSeq(RDiv("1", sw[k][col]), sw[k]))
                red == TLCEval([i \in DOMAIN sw |-> IF i <= k THEN (IF i = k THEN nr ELSE sw[i]) ELSE RAddSeq(sw[i], RScaleSeq(RNeg(sw[i][col]), nr))])
            IN RankFrom(red, col + 1, k)
Rank(A) == IF Len(A) = 0 THEN 0 ELSE RankFrom(A, 1, 0)
\* quadratic form v^T A w
Quad(v, A, w) == RDot(v, MatVec(A, w))
=============================================================================
