------------------------------ MODULE CovTrace ------------------------------
(***************************************************************************)
(* Trace specification for property C06: the identities the covariance    *)
(* and correlation matrices of analysed observables must satisfy, judged   *)
(* on the matrices the implementation returned, in exact arithmetic.       *)
(***************************************************************************)
EXTENDS ObsCore, LinAlg, TraceBase
VARIABLE l

R9  == "1/1000000000"
R8  == "1/100000000"
A12 == "1/1000000000000"

SharesSomething(a, b) == (EnsNames(a) \cap EnsNames(b) # {}) \/ (CovNames(a) \cap CovNames(b) # {})
SingleChain(o) == Len(o.chains) = 1 /\ o.cov = <<>>
PureExternal(o) == o.chains = <<>>
\* normalised cross moment of the stored fluctuations on the common configurations of one chain
Pearson(ca, cb) ==
  LET common == Inter(ca.idl, cb.idl)
      da == [k \in DOMAIN common |-> ca.d[IndexOf(ca.idl, common[k])]]
      db == [k \in DOMAIN common |-> cb.d[IndexOf(cb.idl, common[k])]]
  IN [num |-> RDot(da, db), den2 |-> RMul(RDot(da, da), RDot(db, db)), n |-> Len(common)]
\* x = num/sqrt(den2)  <=>  x^2 den2 = num^2 and sign(x) = sign(num)
IsPearson(x, p) == IF p.den2 = "0" THEN TRUE
                   ELSE /\ RClose(RMul(RSq(x), p.den2), RSq(p.num), "1/10000000", RMul(A12, p.den2))
                        /\ (RSign(p.num) = RSign(x) \/ RClose(RSq(p.num), "0", "0", RMul(A12, p.den2)))
CovOfExternal(a, b) == \* J1 Sigma J2^T summed over the shared covariance inputs
  FoldSet(LAMBDA n, acc : RAdd(acc, Quad(CovOf(a, n).grad, CovOf(a, n).cov, CovOf(b, n).grad)), "0", CovNames(a) \cap CovNames(b))

CheckCov(id, c) ==
  LET n == Len(c.objs)  C == c.cov  K == c.corr  dv == c.dvalues
      mx == MaxAbsMat(C)
      allSingleSame == \A i \in 1..n : SingleChain(c.objs[i]) /\ c.objs[i].chains[1].name = c.objs[1].chains[1].name
                                         /\ c.objs[i].chains[1].idl = c.objs[1].chains[1].idl
  IN
  /\ Verdict(id, "shape", Len(C) = n /\ Len(K) = n /\ IsMatrix(C) /\ IsMatrix(K) /\ NCols(C) = n)
  /\ Verdict(id, "cov.symmetric", \A i, j \in 1..n : RClose(C[i][j], C[j][i], "0", RMul("1/100000000000000", mx)))
  /\ Verdict(id, "corr.symmetric", \A i, j \in 1..n : RClose(K[i][j], K[j][i], "0", "1/100000000000000"))
  /\ Verdict(id, "cov.diagonal=dvalue^2", \A i \in 1..n : RClose(C[i][i], RSq(dv[i]), R9, "0"))
  /\ Verdict(id, "corr.unit-diagonal", \A i \in 1..n : RClose(K[i][i], "1", "0", A12))
  /\ Verdict(id, "corr.in[-1,1]", \A i, j \in 1..n : RLe(RAbs(K[i][j]), RAdd("1", A12)))
  /\ Verdict(id, "cov=D.corr.D", \A i, j \in 1..n : RClose(C[i][j], RMul(RMul(dv[i], K[i][j]), dv[j]), R9, RMul(A12, mx)))
  /\ Verdict(id, "disjoint=>0", \A i, j \in 1..n : ~SharesSomething(c.objs[i], c.objs[j]) => (C[i][j] = "0" /\ K[i][j] = "0"))
  /\ Verdict(id, "permutation", \A i, j \in 1..n : RClose(c.cov_perm[i][j], C[c.perm[i]][c.perm[j]], R9, RMul(A12, mx))
                                                   /\ RClose(c.corr_perm[i][j], K[c.perm[i]][c.perm[j]], R9, A12))
  /\ Verdict(id, "pearson", \A i, j \in 1..n : (i < j /\ SingleChain(c.objs[i]) /\ SingleChain(c.objs[j])
                                                /\ c.objs[i].chains[1].name = c.objs[j].chains[1].name)
                                => IsPearson(K[i][j], Pearson(c.objs[i].chains[1], c.objs[j].chains[1])))
  /\ Verdict(id, "psd", allSingleSame => IsPSDWithin(C, RMul("1/10000000000", mx)))
  /\ Verdict(id, "external=J.Sigma.J^T", \A i, j \in 1..n : (PureExternal(c.objs[i]) /\ PureExternal(c.objs[j]))
                                => RClose(C[i][j], CovOfExternal(c.objs[i], c.objs[j]), R8, RMul(A12, mx)))

\* chol_inv^T chol_inv (D corr D) = 1
CheckCholInv(id, c) ==
  LET n == Len(c.corr)
      cov == [i \in 1..n |-> [j \in 1..n |-> RMul(RMul(c.errs[i], c.corr[i][j]), c.errs[j])]]
      P == MatMul(MatMul(Transpose(c.chol_inv), c.chol_inv), cov)
  IN /\ Verdict(id, "chol_inv.lower-triangular", \A i, j \in 1..n : i < j => c.chol_inv[i][j] = "0")
     /\ Verdict(id, "chol_inv^T.chol_inv.cov=1", MatClose(P, Identity(n), "0", "1/10000000"))

\* re-sorting by keys is the corresponding permutation (exact)
CheckSortCorr(id, c) ==
  LET keys == c.kl
      off(k) == FoldSeq(LAMBDA i, acc : acc + c.lens[i], 0, [i \in 1..(k - 1) |-> i])
      sorted == SortSeq([i \in DOMAIN keys |-> i], LAMBDA a, b : StrLess(keys[a], keys[b]))
      map == FoldSeq(LAMBDA k, acc : acc \o [i \in 1..c.lens[k] |-> off(k) + i], <<>>, sorted)
      n == Len(c.corr)
  IN /\ Verdict(id, "sort_corr.shape", Len(c.res) = n /\ Len(map) = n)
     /\ Verdict(id, "sort_corr.permutation", \A i, j \in 1..n : c.res[i][j] = c.corr[map[i]][map[j]])

CheckSmooth(id, c) ==
  LET n == Len(c.res)  tr == RSumSeq([i \in 1..n |-> c.res[i][i]])  tr0 == RSumSeq([i \in 1..n |-> c.corr[i][i]]) IN
  /\ Verdict(id, "smooth.trace", RClose(tr, tr0, "1/10000000000", "0"))
  /\ Verdict(id, "smooth.symmetric", \A i, j \in 1..n : RClose(c.res[i][j], c.res[j][i], "0", "1/1000000000000"))

\* error band of a fit function: err^2 = g^T C g, g the gradient of the family with respect to the parameters
GradFam(fam, b, x) == CASE fam = "poly" -> [k \in DOMAIN b |-> RPowInt(x, k - 1)]
                        [] fam = "exp"  -> <<RExp(RNeg(RMul(b[2], x))), RNeg(RMul(RMul(b[1], x), RExp(RNeg(RMul(b[2], x)))))>>
CheckBand(id, c) ==
  \A k \in DOMAIN c.xs : LET g == GradFam(c.family, c.beta, c.xs[k]) IN
      Verdict(id, "error_band^2=g^T.C.g", RClose(RSq(c.err[k]), Quad(g, c.cov, g), "1/10000000", "1/1000000000000000000000000000000"))

CheckCase(c) ==
  CASE c.ev = "cov" -> CheckCov(c.id, c)
    [] c.ev = "cholinv" -> CheckCholInv(c.id, c)
    [] c.ev = "sortcorr" -> CheckSortCorr(c.id, c)
    [] c.ev = "smooth" -> CheckSmooth(c.id, c)
    [] c.ev = "band" -> CheckBand(c.id, c)
    [] c.ev = "raised" -> Verdict(c.id, "raised:" \o c.t, FALSE)
    [] c.ev = "frame" -> Verdict(c.id, c.what, c.before = c.after)
    [] OTHER -> Verdict(c.id, "unknown-event", FALSE)

Init == l = 1 /\ LoadCases
Next == /\ l <= NCases
        /\ CheckCase(Cases[l])
        /\ Consumed(l)
        /\ l' = l + 1
=============================================================================
