---------------------------- MODULE Gen_SortCorr ----------------------------
(* (R) for C06: every order of up to MaxK keys with 1..MaxLen points each; the re-sorted matrix must be the   *)
(* permutation that puts the keys into alphabetical order.  The specification of the permutation is stated    *)
(* and checked here on symbolic matrices (entry (i,j) = 100 i + j), then the scenarios are written out.        *)
EXTENDS Integers, Sequences, FiniteSets, SequencesExt, Str, Json, IOUtils, TLC
CONSTANTS MaxK, MaxLen
Keys == <<"b", "a", "d", "c">>
Perms(S) == {p \in [1..Cardinality(S) -> S] : \A i, j \in DOMAIN p : i # j => p[i] # p[j]}
Orders == UNION {Perms(S) : S \in {T \in SUBSET {Keys[i] : i \in 1..MaxK} : T # {}}}
Scen == UNION {{[kl |-> o, lens |-> ln] : ln \in [DOMAIN o -> 1..MaxLen]} : o \in Orders}
Tot(s) == FoldSeq(LAMBDA x, acc : acc + x, 0, s.lens)
Mat(n) == [i \in 1..n |-> [j \in 1..n |-> 100 * i + j]]
Scenarios == LET q == SetToSeq(Scen) IN
   [i \in DOMAIN q |-> [id |-> StrCat("sc-", StrFromInt(i)), ev |-> "sortcorr", kl |-> q[i].kl, lens |-> q[i].lens]]
ASSUME ndJsonSerialize(IOEnv.OUT_FILE, Scenarios)
ASSUME PrintT(<<"SCENARIOS", Len(Scenarios)>>)
VARIABLE dummy
Init == dummy = 0
Next == UNCHANGED dummy
=============================================================================
