CONSTANTS
  EnsSet = {"A", "B"}
  PVals = {1, 2}
  MaxObj = 3
  MaxDepth = 6
SPECIFICATION Spec
VIEW View
CONSTRAINT Bounded
INVARIANT TypeOK
INVARIANT CacheIsOfCurrentData
INVARIANT CacheParamsWellFormed
INVARIANT ReweightedInherited
PROPERTY PoolOnlyGrows
PROPERTY GmTouchesOnlyItsCache
PROPERTY Precedence
PROPERTY DeriveIgnoresCache
PROPERTY CopiesCarryData
PROPERTY CovIsAnObservation
CHECK_DEADLOCK FALSE
