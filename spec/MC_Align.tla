------------------------------ MODULE MC_Align ------------------------------
(***************************************************************************)
(* Model run for C05 (and the closure part of C04) on the specification    *)
(* alone.  TLC enumerates every weight layout (replica -> configuration    *)
(* list inside 1..U, at least MinLen entries) and every observable layout  *)
(* (replica subset, configuration subsets, also unalignable ones) and      *)
(* checks: the operations are defined exactly on alignable requests, their *)
(* results are WellFormed, do not depend on the order in which chains are  *)
(* supplied, set / inherit the reweighted flag, and satisfy the algebraic  *)
(* identities that pin the pairing to the configuration NUMBER (a constant *)
(* weight is the identity; a weight equal to the observable's own sample   *)
(* gives <o^2>/<o>).                                                       *)
(***************************************************************************)
EXTENDS ObsCore
CONSTANTS U, MinLen, Reps
VARIABLES wl, ol       \* layouts: replica -> set of configuration numbers ({} = replica absent)

Empty == [r \in Reps |-> {}]
Sets == {S \in SUBSET (1..U) : Cardinality(S) >= MinLen} \cup {{}}
Lay == {f \in [Reps -> Sets] : \E r \in Reps : f[r] # {}}
Name(r) == StrCat("W|r", StrFromInt(r))

\* samples are a fixed injective function of (replica, configuration number, salt): any pairing by position
\* instead of by configuration number changes the result
Val(r, c, salt) == RFromInt(salt + 7 * r + c * c)
Mk(lay, salt) == Construct([k \in DOMAIN SetToSortSeq({r \in Reps : lay[r] # {}}, <) |->
                   LET r == SetToSortSeq({q \in Reps : lay[q] # {}}, <)[k]  idl == SortedSeqOf(lay[r]) IN
                   [name |-> Name(r), idl |-> idl, x |-> [i \in DOMAIN idl |-> Val(r, idl[i], salt)]]])
MkConst(lay, v) == Construct([k \in DOMAIN SetToSortSeq({r \in Reps : lay[r] # {}}, <) |->
                   LET r == SetToSortSeq({q \in Reps : lay[q] # {}}, <)[k]  idl == SortedSeqOf(lay[r]) IN
                   [name |-> Name(r), idl |-> idl, x |-> [i \in DOMAIN idl |-> v]]])
Ready == ol # Empty
W == Mk(wl, 100)
O == Mk(ol, 3)
Alignable == \A r \in Reps : ol[r] \subseteq wl[r]

RejectsIffUnalignable == Ready => (ReweightRejects(W, O) <=> ~Alignable)
ReweightWellFormed == (Ready /\ Alignable) => \A all \in BOOLEAN :
                         LET r == Reweight(W, O, all) IN WellFormed(r) /\ r.rew
\* result lives on o's chains (own normalisation) / on all of w's chains (normalisation on all configurations)
ReweightSupport == (Ready /\ Alignable) =>
     /\ ChainNames(Reweight(W, O, FALSE)) = ChainNames(O)
     /\ \A n \in ChainNames(O) : Chain(Reweight(W, O, FALSE), n).idl = Chain(O, n).idl
     /\ ChainNames(Reweight(W, O, TRUE)) = ChainNames(W)
\* a constant weight changes nothing
ConstantWeightIsIdentity == (Ready /\ Alignable) =>
     LET r == Reweight(MkConst(wl, "3"), O, FALSE) IN
     /\ r.value = O.value /\ \A k \in DOMAIN O.chains : r.chains[k].d = O.chains[k].d /\ r.chains[k].idl = O.chains[k].idl
\* reweighting o with a weight that equals o on o's configurations gives <o^2>/<o>: the weight sample taken is the one
\* with the same configuration NUMBER
SelfWeight == (Ready /\ Alignable) =>
     LET w2 == Mk(wl, 3)  r == Reweight(w2, O, FALSE)
         sq == FoldSeq(LAMBDA c, acc : RAdd(acc, RDot(SamplesOf(c), SamplesOf(c))), "0", O.chains)
         s1 == FoldSeq(LAMBDA c, acc : RAdd(acc, RSumSeq(SamplesOf(c))), "0", O.chains)
     IN r.value = RDiv(sq, s1)
\* correlate: defined iff same chains and lists; value = mean of the per-configuration products
CorrelateSpec == Ready =>
     /\ CorrelateRejects(W, O) <=> (wl # ol)
     /\ (wl = ol) => LET r == Correlate(W, O)
                         pr == FoldSeq(LAMBDA c, acc : RAdd(acc, RDot(SamplesOf(c), SamplesOf(Chain(W, c.name)))), "0", O.chains)
                     IN WellFormed(r) /\ r.value = RDiv(pr, RFromInt(O.N)) /\ ~r.rew
\* merge: defined iff the replica sets are disjoint; union of chains; independent of the order of the list
MergeSpec == Ready =>
     LET disjoint == \A r \in Reps : wl[r] = {} \/ ol[r] = {} IN
     /\ MergeRejects(<<W, O>>) <=> ~disjoint
     /\ disjoint => LET m == Merge(<<W, O>>) IN
           /\ WellFormed(m) /\ m = Merge(<<O, W>>)
           /\ ChainNames(m) = ChainNames(W) \cup ChainNames(O)
           /\ \A n \in ChainNames(W) : SamplesOf(Chain(m, n)) = SamplesOf(Chain(W, n))
           /\ m.N = W.N + O.N
\* flag inheritance through Derive
FlagInherited == (Ready /\ Alignable) => Add2(Reweight(W, O, FALSE), O).rew /\ ~Add2(O, O).rew

Init == wl = Empty /\ ol = Empty
Next == \/ wl = Empty /\ wl' \in Lay /\ UNCHANGED ol
        \/ wl # Empty /\ ol = Empty /\ ol' \in Lay /\ UNCHANGED wl
=============================================================================
