CONSTANTS
  U = 7
  MinLen = 5
  Reps = {1,2}
INIT Init
NEXT Next
INVARIANT RejectsIffUnalignable
INVARIANT ReweightWellFormed
INVARIANT ReweightSupport
INVARIANT ConstantWeightIsIdentity
INVARIANT SelfWeight
INVARIANT CorrelateSpec
INVARIANT MergeSpec
INVARIANT FlagInherited
CHECK_DEADLOCK FALSE
