---------------------------- MODULE SessionTrace ----------------------------
(***************************************************************************)
(* Trace specification for property C03 (history independence, parameter   *)
(* precedence, data never altered by an analysis).  The specification      *)
(* keeps ITS OWN copy of the process state - the global defaults, the      *)
(* per-ensemble dictionaries, the pool of observables - updated by the     *)
(* actions of module Session made concrete, and judges every recorded      *)
(* step against that state, never against what the log claims the state    *)
(* was: each gamma_method outcome must equal Gamma!Analyse of the pooled   *)
(* data under Resolve(argument, spec dictionary, spec global); each        *)
(* arithmetic result must equal ObsCore!Derive of the pooled operands.     *)
(* Both TLC-generated behaviours of Session replayed into pyerrors and     *)
(* free random histories are validated with it.                            *)
(***************************************************************************)
EXTENDS DeriveCheck, GammaCheck

VARIABLES l, glob, dict, pool, analysed,
          errs,      \* slot |-> the error the LAST accepted analysis of that object produced (a function on a subset of the slots)
          dirty      \* slots whose last analysis request was refused (the state of their cache is not part of any statement)

CC == INSTANCE CovTrace      \* the identities of property C06, here with the errors the SPECIFICATION has on record

Defaults == [S |-> "2", tau_exp |-> "0", N_sigma |-> "1"]
EmptyDict == [S |-> <<>>, tau_exp |-> <<>>, N_sigma |-> <<>>]

\* dictionaries are sequences of [name, v] sorted by name (as the projection writes them)
DictSet(d, e, v) == LET rest == SelectSeq(d, LAMBDA x : x.name # e)
                    IN SortSeq(Append(rest, [name |-> e, v |-> v]), LAMBDA a, b : StrLess(a.name, b.name))
DictDel(d, e) == SelectSeq(d, LAMBDA x : x.name # e)
EnvMatches(c) == /\ \A p \in {"S", "tau_exp", "N_sigma"} : REq(c.env.glob[p], glob'[p])
                 /\ \A p \in {"S", "tau_exp", "N_sigma"} :
                       /\ Len(c.env.dict[p]) = Len(dict'[p])
                       /\ \A i \in DOMAIN dict'[p] : c.env.dict[p][i].name = dict'[p][i].name /\ REq(c.env.dict[p][i].v, dict'[p][i].v)

SetErr(f, k, v) == [x \in DOMAIN f \cup {k} |-> IF x = k THEN v ELSE f[x]]

\* c.ids: the slots asked for (repetitions allowed), c.res: [k = "ok", cov, corr] | [k = "exc"] | [k = "nan"]
CheckCovReq(id, c) ==
  LET n == Len(c.ids)
      objs == [k \in 1..n |-> pool[c.ids[k]]]
  IN IF \E k \in 1..n : c.ids[k] \in dirty THEN Skip(id, "an operand's last analysis request was refused")
     ELSE IF ~CovConsistent(objs) THEN Skip(id, "operands carry one covariance input with different matrices (combining them is refused elsewhere)")
     ELSE IF \E k \in 1..n : c.ids[k] \notin analysed THEN Verdict(id, "covariance of a never-analysed object must be refused", c.res.k = "exc")
     ELSE IF \E k \in 1..n : c.ids[k] \notin DOMAIN errs THEN Verdict(id, "specification lost an error on record", FALSE)
     ELSE IF \E k \in 1..n : errs[c.ids[k]] = "0" THEN Skip(id, "an operand has no error at all")
     ELSE IF c.res.k # "ok" THEN Verdict(id, "covariance of analysed objects:" \o c.res.k, FALSE)
     ELSE LET dv == [k \in 1..n |-> errs[c.ids[k]]] IN
          /\ Verdict(id, "errors-on-record-are-the-objects'", \A k \in 1..n : REq(c.dvalues[k], dv[k]))
          /\ CC!CheckCov(id, [objs |-> objs, cov |-> c.res.cov, corr |-> c.res.corr, dvalues |-> dv,
                              perm |-> [k \in 1..n |-> k], cov_perm |-> c.res.cov, corr_perm |-> c.res.corr])
          \* the same object asked for twice: fully correlated with itself
          /\ Verdict(id, "same-object=>corr=1", \A a, b \in 1..n : c.ids[a] = c.ids[b] => RClose(c.res.corr[a][b], "1", "0", "1/1000000000000"))

Operands(c) == [k \in DOMAIN c.ids |-> pool[c.ids[k]]]

Step(c) ==
  LET id == c.id IN
  CASE c.ev = "reset" ->
         /\ glob' = Defaults /\ dict' = EmptyDict /\ pool' = <<>> /\ analysed' = {} /\ errs' = <<>> /\ dirty' = {}
    [] c.ev = "setglobal" ->
         /\ glob' = [glob EXCEPT ![c.p] = c.v] /\ UNCHANGED <<dict, pool, analysed, errs, dirty>>
    [] c.ev = "setdict" ->
         /\ dict' = [dict EXCEPT ![c.p] = DictSet(dict[c.p], c.e, c.v)] /\ UNCHANGED <<glob, pool, analysed, errs, dirty>>
    [] c.ev = "deldict" ->
         /\ dict' = [dict EXCEPT ![c.p] = DictDel(dict[c.p], c.e)] /\ UNCHANGED <<glob, pool, analysed, errs, dirty>>
    [] c.ev = "new" ->          \* a primary observable enters the pool (slot c.slot = Len(pool) + 1)
         /\ Verdict(id, "slot", c.slot = Len(pool) + 1)
         /\ Verdict(id, "wellformed:" \o WFClause(c.obs), WellFormed(c.obs))
         /\ pool' = Append(pool, c.obs) /\ UNCHANGED <<glob, dict, analysed, errs, dirty>>
    [] c.ev = "gm" ->
         /\ CheckGm(id, pool[c.slot], c.args, glob, dict, c.res)
         /\ analysed' = analysed \cup {c.slot}
         /\ errs' = IF c.res.k = "ok" THEN SetErr(errs, c.slot, c.res.an.dvalue) ELSE errs
         /\ dirty' = IF c.res.k = "ok" THEN dirty \ {c.slot} ELSE dirty \cup {c.slot}
         /\ UNCHANGED <<glob, dict, pool>>
    [] c.ev = "derive" ->       \* arithmetic on pooled objects (analysed or not): the result depends on their data only
         /\ CheckReal(id, c, c.expr, Operands(c), [k \in DOMAIN c.ids |-> k], c.res, c.mode = "step")
         /\ Verdict(id, "slot", c.slot = Len(pool) + 1)
         /\ pool' = Append(pool, IF c.res.k = "obs" THEN c.res.o ELSE [bad |-> TRUE])
         /\ UNCHANGED <<glob, dict, analysed, errs, dirty>>
    [] c.ev = "reweight" ->     \* checked numerically by C05; here: flag, pool growth
         /\ Verdict(id, "reweighted-flag", c.res.k = "obs" /\ c.res.o.rew)
         /\ pool' = Append(pool, IF c.res.k = "obs" THEN c.res.o ELSE [bad |-> TRUE])
         /\ UNCHANGED <<glob, dict, analysed, errs, dirty>>
    [] c.ev = "copy" ->         \* json round trip (reload) or pickle / deepcopy (clone) of a pooled object: the same data enter the pool again;
                                \* the analysis travels with a clone only
         \* (a reload went through a text format that stores the samples next to the central value: its fluctuations are exact to eps*|value|,
         \*  not to eps*|fluctuation| - C11 owns that precision; here the looser "num" tolerance applies to reloads, the strict one to clones)
         /\ CheckReal(id, [c EXCEPT !.mode = IF c.how = "reload" THEN "num" ELSE "step"], [op |-> "var", i |-> 1], <<pool[c.src]>>, <<1>>, c.res, TRUE)
         /\ Verdict(id, "slot", c.slot = Len(pool) + 1)
         /\ Verdict(id, "analysis travels with a clone, not with a reload", c.analysed = (c.how = "clone" /\ c.src \in analysed))
         /\ pool' = Append(pool, IF c.res.k = "obs" THEN c.res.o ELSE [bad |-> TRUE])
         /\ analysed' = IF c.how = "clone" /\ c.src \in analysed THEN analysed \cup {Len(pool) + 1} ELSE analysed
         /\ errs' = IF c.how = "clone" /\ c.src \in DOMAIN errs THEN SetErr(errs, Len(pool) + 1, errs[c.src]) ELSE errs
         /\ dirty' = IF c.how = "clone" /\ c.src \in dirty THEN dirty \cup {Len(pool) + 1} ELSE dirty
         /\ UNCHANGED <<glob, dict>>
    [] c.ev = "cov" ->          \* covariance / correlation of pooled objects: an observation of their data and of the errors of their LAST analyses
         /\ CheckCovReq(id, c)
         /\ UNCHANGED <<glob, dict, pool, analysed, errs, dirty>>
    [] c.ev = "final" ->        \* at the end of a history every pooled object still carries exactly its data
         /\ Verdict(id, "pool-size", Len(c.objs) = Len(pool))
         /\ Verdict(id, "data-altered-by-history", Len(c.objs) # Len(pool) \/ \A k \in DOMAIN pool : c.objs[k] = pool[k])
         /\ Verdict(id, "analysed-set", {k \in DOMAIN c.analysed : c.analysed[k]} = analysed)
         /\ UNCHANGED <<glob, dict, pool, analysed, errs, dirty>>
    [] c.ev = "abstract" ->     \* the abstract state of Session.tla at the end of a replayed behaviour against the object
         /\ Verdict(id, "reweighted-flag-vs-model", c.model.rew = c.code.rew)
         /\ Verdict(id, "ensembles-vs-model", c.model.ens = c.code.ens)
         /\ Verdict(id, "analysed-vs-model", c.model.analysed = c.code.analysed)
         /\ UNCHANGED <<glob, dict, pool, analysed, errs, dirty>>
    [] OTHER -> Verdict(id, "unknown-event", FALSE) /\ UNCHANGED <<glob, dict, pool, analysed, errs, dirty>>

Init == /\ l = 1 /\ LoadCases
        /\ glob = Defaults /\ dict = EmptyDict /\ pool = <<>> /\ analysed = {} /\ errs = <<>> /\ dirty = {}
Next == /\ l <= NCases
        /\ Step(Cases[l])
        \* the parameter slots observed in the implementation after the call equal the specification's
        /\ Verdict(Cases[l].id, "parameter-slots", EnvMatches(Cases[l]))
        /\ Consumed(l)
        /\ l' = l + 1
=============================================================================
