CONSTANTS
  Ts = {4,5}
INIT Init
NEXT Next
CHECK_DEADLOCK FALSE
