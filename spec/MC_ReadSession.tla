--------------------------- MODULE MC_ReadSession ---------------------------
EXTENDS Integers, Sequences
VARIABLES dir, last
Pay(r, cfg) == <<<<cfg, r>>>>
INSTANCE ReadSession WITH MaxReps <- 2, MaxRecs <- 7, MaxDepth <- 8, Payload <- Pay
=============================================================================
