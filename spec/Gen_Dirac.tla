----------------------------- MODULE Gen_Dirac -----------------------------
(* (R) for C20, exhaustive: every index tuple of {0..4}^3 and {0..4}^4 and every Grid tag plus unknown ones. *)
EXTENDS Dirac, Sequences, SequencesExt, Str, Json, IOUtils
T3 == {<<i, j, k>> : i \in 0..4, j \in 0..4, k \in 0..4}
T4 == {<<i, j, k, o>> : i \in 0..4, j \in 0..4, k \in 0..4, o \in 0..4}
AllT == SetToSeq(T3) \o SetToSeq(T4)
\* sanity of the specification itself: the sign is antisymmetric under exchanging the first two indices
ASSUME \A t \in T3 : PermSign(t) = 0 - PermSign(<<t[2], t[1], t[3]>>)
ASSUME Cardinality({t \in T3 : InDomain(t) /\ PermSign(t) # 0}) = 12
ASSUME Cardinality({t \in T4 : InDomain(t) /\ PermSign(t) # 0}) = 48
Scenarios == [i \in DOMAIN AllT |-> [id |-> StrCat("eps-", StrFromInt(i)), ev |-> "eps", t |-> AllT[i]]]
TagList == SetToSeq(Tags \cup {"Gamma6", "sigmaxt", "", "GammaXGammaY", "SigmaTX"})
TagScen == [i \in DOMAIN TagList |-> [id |-> StrCat("tag-", StrFromInt(i)), ev |-> "grid", tag |-> TagList[i]]]
ASSUME ndJsonSerialize(IOEnv.OUT_FILE, Scenarios \o TagScen)
ASSUME PrintT(<<"SCENARIOS", Len(Scenarios), Len(TagScen)>>)
VARIABLE dummy
Init == dummy = 0
Next == UNCHANGED dummy
=============================================================================
