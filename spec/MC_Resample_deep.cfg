CONSTANTS
  MinN = 5
  MaxN = 8
  Alphabet <- Alpha3
INIT Init
NEXT Next
INVARIANT RoundTrip
INVARIANT Variance
INVARIANT GammaS0
INVARIANT Entry0
INVARIANT BootDetermined
CHECK_DEADLOCK FALSE
