------------------------- MODULE TableSessionTrace -------------------------
(***************************************************************************)
(* Trace specification of TableSession: a recorded history (reset, then    *)
(* one event per to_sql / read_sql / dump_df / load_df call with its       *)
(* arguments, the observed outcome, the documents and the analysed flag of *)
(* a loaded frame, the row counts of the tables and the csv files present  *)
(* after the call) is replayed through the very actions of TableSession.   *)
(***************************************************************************)
EXTENDS TableSession, TraceBase
VARIABLE l

ActionOf(c) ==
  CASE c.act = "ToSql"   -> ToSql(c.i, c.name, c.mode, c.gz)
    [] c.act = "ReadSql" -> ReadSql(c.name, c.ag)
    [] c.act = "DumpDf"  -> DumpDf(c.i, c.name, c.gz)
    [] c.act = "LoadDf"  -> LoadDf(c.name, c.gz, c.ag)
Known_(c) == c.act \in {"ToSql", "ReadSql", "DumpDf", "LoadDf"}
Addressed(c) == /\ c.act \in {"ToSql", "DumpDf"} => c.i \in DOMAIN pool
                /\ c.act \in {"ReadSql", "LoadDf"} => Len(pool) < MaxPool
                /\ c.act \in {"ToSql", "ReadSql"} => c.name \in Tables
                /\ c.act \in {"DumpDf", "LoadDf"} => c.name \in Names
                /\ c.act = "ToSql" => c.mode \in Modes
Listing(fs) == {p \in Paths : fs[p].kind # "none"}
Counts(d) == [t \in {u \in Tables : d[u].exists} |-> Len(d[t].rows)]

Step(c) ==
  IF c.ev = "reset" THEN /\ db' = [t \in Tables |-> NoTable] /\ files' = [p \in Paths |-> NoFile]
                         /\ pool' = [i \in 1..NFrames |-> Frame(InitialRows(i), FALSE)] /\ last' = L("Init", "ok", 0, "")
  ELSE IF ~Known_(c) \/ ~Addressed(c)
       THEN Verdict(c.id, "the step is not an action of the machine here", FALSE) /\ UNCHANGED <<db, files, pool, last>>
  ELSE /\ ActionOf(c)
       /\ Verdict(c.id, c.act \o ": outcome " \o c.out \o " where the specification has " \o last'.out, c.out = last'.out)
       /\ (c.out = last'.out /\ last'.out = "frame") =>
             /\ Verdict(c.id, c.act \o ": rows of the loaded frame (documents in order)", c.rows = pool'[last'.slot].rows)
             /\ Verdict(c.id, c.act \o ": the plain key column travels with the rows", c.keys = [k \in DOMAIN c.rows |-> 10 * c.rows[k]])
             /\ Verdict(c.id, c.act \o ": analysed exactly when auto_gamma was asked for", c.analysed = pool'[last'.slot].analysed)
       /\ Verdict(c.id, c.act \o ": tables and their row counts after the call",
                  {<<c.tables[k].t, c.tables[k].n>> : k \in DOMAIN c.tables} = {<<t, Len(db'[t].rows)>> : t \in {u \in Tables : db'[u].exists}})
       /\ Verdict(c.id, c.act \o ": csv files in the directory after the call", {c.listing[k] : k \in DOMAIN c.listing} = Listing(files'))

TraceInit == /\ l = 1 /\ LoadCases
             /\ db = [t \in Tables |-> NoTable] /\ files = [p \in Paths |-> NoFile]
             /\ pool = [i \in 1..NFrames |-> Frame(InitialRows(i), FALSE)] /\ last = L("Init", "ok", 0, "")
TraceNext == /\ l <= NCases
             /\ Step(Cases[l])
             /\ Consumed(l)
             /\ l' = l + 1
=============================================================================
