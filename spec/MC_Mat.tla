------------------------------- MODULE MC_Mat -------------------------------
(* Sanity of MatOps (the oracle of C10) on the specification alone: for all small slot matrices A (every entry value in   *)
(* {-1, 2}, fluctuation in {0, 1}) and diagonal-varying B: the product is associative, transposition reverses products,   *)
(* the cofactor determinant is multiplicative - as identities of value AND fluctuations.                                  *)
EXTENDS MatOps
VARIABLES a, b
Unset == <<>>
Slots == {[v |-> v, d |-> <<dd>>] : v \in {"-1", "2"}, dd \in {"0", "1"}}
MatsA == {<<<<p, q>>, <<r, s>>>> : p \in Slots, q \in Slots, r \in Slots, s \in Slots}
MatsB == {<<<<p, [v |-> "3", d |-> <<"1">>]>>, <<[v |-> "1/2", d |-> <<"-1">>], s>>>> : p \in Slots, s \in Slots}
Cm == <<<<[v |-> "1", d |-> <<"2">>], [v |-> "-2", d |-> <<"0">>]>>, <<[v |-> "5", d |-> <<"1">>], [v |-> "1/3", d |-> <<"1">>]>>>>
Ready == b # Unset
Assoc == Ready => MMul(MMul(a, b), Cm) = MMul(a, MMul(b, Cm))
Transp == Ready => MT(MMul(a, b)) = MMul(MT(b), MT(a))
DetMult == Ready => SDet(MMul(a, b)) = SMul(SDet(a), SDet(b))
IdNeutral == Ready => MMul(a, MId(2, 1)) = a /\ MMul(MId(2, 1), a) = a
Init == a = Unset /\ b = Unset
Next == \/ a = Unset /\ a' \in MatsA /\ UNCHANGED b
        \/ a # Unset /\ b = Unset /\ b' \in MatsB /\ UNCHANGED a
=============================================================================
