-------------------------- MODULE ReadSessionTrace --------------------------
(***************************************************************************)
(* Trace specification of the measurement-directory state machine          *)
(* ReadSession, made concrete: the specification keeps ITS OWN copy of the *)
(* directory (stems, configuration numbers and the stored numbers of every *)
(* record, taken from the AddReplica / Grow events as the writer produced  *)
(* them) and judges every recorded read against Readers!Expected of that   *)
(* directory as it is at that moment - with the same operators as the      *)
(* single-read checks of C17 (CheckRead).                                  *)
(***************************************************************************)
EXTENDS Readers, TraceBase
VARIABLES l, dir

T12 == "1/1000000000000"
CheckRead(id, c, reps, what) ==
  IF \E r \in DOMAIN reps : LET m == CfgMap(c.fmt, Stored(reps[r]), c.par)  want == SelectedCfgs(c.sel, r, m) IN \E q \in DOMAIN want : IndexOf(m, want[q]) = 0
  THEN Verdict(id, what \o ": selection asks for a configuration that is not stored - must raise", c.res.k = "exc")
  ELSE IF c.res.k = "exc" THEN Verdict(id, what \o ": reader raised " \o c.res.t, FALSE)
  ELSE LET n == NComponents(c.fmt, reps, c.par) IN
       /\ Verdict(id, what \o ": number of returned observables", Len(c.res.obs) = n)
       /\ Len(c.res.obs) = n => \A k \in 1..n :
            LET exp == Expected(c.fmt, reps, c.par, c.sel, k) IN
            Verdict(id, what \o ": " \o WhyNotMatch(c.res.obs[k], exp, T12), ObsMatches(c.res.obs[k], exp, T12))

Step(c) ==
  CASE c.ev = "reset" -> dir' = <<>>
    [] c.ev = "AddReplica" ->
         /\ Verdict(c.id, "new replica", \A i \in DOMAIN dir : dir[i].stem # c.stem)
         /\ dir' = Append(dir, [stem |-> c.stem, recs |-> c.recs])
    [] c.ev = "Grow" ->
         /\ Verdict(c.id, "appended behind the last record", c.r \in DOMAIN dir /\ c.rec.cfg > dir[c.r].recs[Len(dir[c.r].recs)].cfg)
         /\ dir' = IF c.r \in DOMAIN dir THEN [dir EXCEPT ![c.r].recs = Append(@, c.rec)] ELSE dir
    [] c.ev = "Read" ->
         /\ CheckRead(c.id, c, dir, c.fmt \o " read " \o ToString(c.n))
         /\ UNCHANGED dir
    [] OTHER -> Verdict(c.id, "unknown-event", FALSE) /\ UNCHANGED dir

Init == l = 1 /\ LoadCases /\ dir = <<>>
Next == /\ l <= NCases
        /\ Step(Cases[l])
        /\ Consumed(l)
        /\ l' = l + 1
=============================================================================
