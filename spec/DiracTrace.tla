----------------------------- MODULE DiracTrace -----------------------------
(* Trace specification for property C20: constant tables (exhaustive) and special-function derivatives. *)
EXTENDS Dirac, DeriveCheck
VARIABLE l

\* Richardson extrapolation of central differences from the function's own values:
\* f = <<f(x-h), f(x+h), f(x-h/2), f(x+h/2), f(x-h/4), f(x+h/4)>>
Rich(f, h) == LET D1 == RDiv(RSub(f[2], f[1]), RMul("2", h))
                  D2 == RDiv(RSub(f[4], f[3]), h)
                  D3 == RDiv(RSub(f[6], f[5]), RDiv(h, "2"))
                  R1 == RDiv(RSub(RMul("4", D2), D1), "3")
                  R2 == RDiv(RSub(RMul("4", D3), D2), "3")
              IN RDiv(RSub(RMul("16", R2), R1), "15")

CheckCase(c) ==
  LET id == c.id IN
  CASE c.ev = "matrices" ->
         /\ Verdict(id, "shape", \A mu \in 1..4 : Is4x4(c.gamma[mu]))
         /\ Verdict(id, "clifford {gmu,gnu}=2 delta", Clifford(c.gamma))
         /\ Verdict(id, "hermitian", Hermitian(c.gamma))
         /\ Verdict(id, "gamma5 = gx gy gz gt", Gamma5IsProduct(c.gamma, c.gamma5))
         /\ Verdict(id, "gamma5 anticommutes", Gamma5Anticommutes(c.gamma, c.gamma5))
         /\ Verdict(id, "gamma5 hermitian, squares to one", Gamma5Props(c.gamma5))
         /\ Verdict(id, "identity", c.identity = MOne)
    [] c.ev = "grid" ->
         IF c.tag \in Tags
         THEN /\ Verdict(id, "known tag returns a matrix", c.res.k = "matrix")
              /\ c.res.k = "matrix" => Verdict(id, "tag = stated product/commutator", c.res.m = GridSpec(c.tag, c.gamma, c.gamma5))
         ELSE Verdict(id, "unknown tag must raise", c.res.k = "exc")
    [] c.ev = "eps" ->
         IF InDomain(c.t)
         THEN /\ Verdict(id, "epsilon: value", c.res.k = "num")
              /\ c.res.k = "num" => Verdict(id, "epsilon = permutation sign", REq(c.res.v, RFromInt(PermSign(c.t))))
         ELSE Verdict(id, "epsilon: outside the domain must raise", c.res.k = "exc")
    [] c.ev = "expr" -> CheckDeriveCase(c)
    [] c.ev = "richardson" ->   \* re-exported special function f applied to one observable: value and derivative
         IF c.res.k # "obs" THEN Verdict(id, "result-kind:" \o c.res.k, FALSE)
         ELSE LET D == Rich(c.f, c.h)
                  exp == DeriveChains(<<c.x>>, <<D>>)
                  sc == RMul(RAbs(D), DeltaScale(<<c.x>>)) IN
              /\ Verdict(id, "value", RClose(c.res.o.value, c.f0, "1/1000000000000", "0"))
              /\ Verdict(id, "wellformed", WellFormed(c.res.o))
              /\ Verdict(id, "propagated derivative = d/dx of the function's own values",
                         Len(c.res.o.chains) = Len(exp) /\ \A k \in DOMAIN exp :
                              RCloseSeq(c.res.o.chains[k].d, exp[k].d, "1/1000000", RMul("1/100000000", sc)))
              \* ... and through every covariance input of x by the chain rule
              /\ Verdict(id, "propagated derivative reaches the covariance inputs (chain rule)",
                         Len(c.res.o.cov) = Len(c.x.cov) /\ \A k \in DOMAIN c.x.cov :
                              /\ c.res.o.cov[k].name = c.x.cov[k].name
                              /\ RCloseSeq(c.res.o.cov[k].grad, RScaleSeq(D, c.x.cov[k].grad), "1/1000000", RMul("1/100000000", RMul(RAbs(D), RMaxAbsSeq(c.x.cov[k].grad)))))
    [] OTHER -> Verdict(id, "unknown-event", FALSE)

Init == l = 1 /\ LoadCases
Next == /\ l <= NCases
        /\ CheckCase(Cases[l])
        /\ Consumed(l)
        /\ l' = l + 1
=============================================================================
