------------------------------- MODULE Gamma -------------------------------
(***************************************************************************)
(* The Gamma method (U. Wolff, Comput.Phys.Commun. 156 (2004) 143, with    *)
(* the exponential tail of Schaefer, Sommer, Virotta, Nucl.Phys.B845       *)
(* (2011) 93) as pyerrors' gamma_method is documented to implement it -    *)
(* written from the papers in exact rational arithmetic.  Everything the   *)
(* analysis reports is rational except square roots, so the specification  *)
(* states the SQUARES of errors; the window is decided through the three-  *)
(* valued sign GSign (0 = too close to call, the case is then skipped).    *)
(*                                                                         *)
(* Conventions of the library mirrored here (DESIGN 5.1):                  *)
(*  - the common spacing g of an ensemble is the smallest spacing found in *)
(*    any replica; every replica must lie on a grid of spacing g           *)
(*  - replica length in units of g: len*step/g for equally spaced lists,   *)
(*    number of grid points between first and last for irregular ones      *)
(*  - w_max = floor(max_r length_r / 2); lags 0 .. w_max-1                  *)
(*  - partial sums of rho that are <= 1/2 are replaced by 1/2 + 2^-52       *)
(*  - Gamma(0) ~ 0 short-cuts to error 0, tau_int 1/2, window 0            *)
(***************************************************************************)
EXTENDS ObsCore

Eps == "1/4503599627370496"            \* 2^-52
Tiny10 == RDiv("10", RPowInt("2", 1022))   \* 10 * smallest normal double

\* ---- effective parameters: explicit argument over per-ensemble dictionary over global default
Resolve(arg, dict, glob, e) ==
  IF arg.k = "num" THEN arg.v
  ELSE IF \E i \in DOMAIN dict : dict[i].name = e THEN dict[CHOOSE i \in DOMAIN dict : dict[i].name = e].v
  ELSE glob

\* ---- one ensemble ---------------------------------------------------------------------------------
\* reps: sequence of chains [idl, d, isrange, ...]
GapOf(rep)   == MinGap(rep.idl)
EnsGap(reps) == Min({GapOf(reps[r]) : r \in DOMAIN reps})
CommonSpacing(reps) == LET g == EnsGap(reps) IN \A r \in DOMAIN reps : GapOf(reps[r]) % g = 0
\* stricter domain of property C02: every replica lies on the grid of spacing g
AllOnGrid(reps) == LET g == EnsGap(reps) IN \A r \in DOMAIN reps : OnGrid(reps[r].idl, g)
RepLen(rep, g) == IF EquallySpaced(rep.idl) THEN (Len(rep.idl) * GapOf(rep)) \div g ELSE GridLen(rep.idl, g)
WMax(reps)   == Max({RepLen(reps[r], EnsGap(reps)) : r \in DOMAIN reps}) \div 2
EnsN(reps)   == FoldSeq(LAMBDA c, acc : acc + Len(c.idl), 0, reps)

\* fluctuations / presence mask of a replica laid out on the grid of spacing g (zero where not measured)
Expand(rep, g) ==
  LET n == GridLen(rep.idl, g)
      pos == Positions(rep.idl, [k \in 1..n |-> rep.idl[1] + (k - 1) * g])
  IN [x |-> TLCEval([k \in 1..n |-> IF pos[k] = 0 THEN "0" ELSE rep.d[pos[k]]]),
      m |-> TLCEval([k \in 1..n |-> IF pos[k] = 0 THEN "0" ELSE "1"])]

\* Gamma(t), t = 0 .. wmax-1: sum over replicas of products of fluctuations t steps apart,
\* divided by the number of such pairs actually present
GammaFn(reps) ==
  LET g    == EnsGap(reps)
      wmax == WMax(reps)
      ex   == TLCEval([r \in DOMAIN reps |-> Expand(reps[r], g)])
      num(t) == FoldSeq(LAMBDA e, acc : RAdd(acc, RLagDot(e.x, e.x, t)), "0", ex)
      cnt(t) == FoldSeq(LAMBDA e, acc : RAdd(acc, RLagDot(e.m, e.m, t)), "0", ex)
  IN TLCEval([t \in 0..(wmax - 1) |-> RDiv(num(t), RMax(cnt(t), "1"))])

NsSign(rho, nsig, drho2) ==      \* sign of rho - nsig*sqrt(drho2), 0 when too close to call
  IF nsig = "0" \/ drho2 = "0" THEN RSign(rho)
  ELSE IF RSign(rho) <= 0 THEN -1
  ELSE LET a == RSq(rho)  b == RMul(RSq(nsig), drho2) IN
       IF RCloseSym(a, b, "1/100000000", "0") THEN 0 ELSE IF RLt(a, b) THEN -1 ELSE 1

AnalyseEns(reps, S, texp, nsig) ==
  LET wmax == WMax(reps)
      N    == EnsN(reps)
      NR   == RFromInt(N)
      Gam  == GammaFn(reps)
      zero == RLt(RAbs(Gam[0]), Tiny10)
  IN
  IF zero THEN [kind |-> "zero", window |-> 0, tauint |-> "1/2", dtauint2 |-> "0", dvalue2 |-> "0", ddvalue2 |-> "0",
                ambiguous |-> RClose(RAbs(Gam[0]), Tiny10, "1/1000000", "0"), wmax |-> wmax, N |-> N]
  ELSE
  LET rho  == TLCEval([t \in 0..(wmax - 1) |-> RDiv(Gam[t], Gam[0])])
      \* partial sums 1/2 + sum_{s=1}^{w} rho(s), clamped
      RECURSIVE Cum(_)
      Cum(w) == IF w = 0 THEN "1/2" ELSE RAdd(Cum(w - 1), rho[w])
      raw  == TLCEval([w \in 0..(wmax - 1) |-> Cum(w)])
      ntau == TLCEval([w \in 0..(wmax - 1) |-> IF RLe(raw[w], "1/2") THEN RAdd("1/2", Eps) ELSE raw[w]])
      \* near-tie of the clamp itself
      clampAmb == \E w \in 1..(wmax - 1) : raw[w] # "1/2" /\ RClose(raw[w], "1/2", "1/1000000000000", "0")
      ndtau2 == TLCEval([w \in 0..(wmax - 1) |-> IF w = 0 THEN "0" ELSE
                   RMul(RMul(RSq(ntau[w]), "4"), RDiv(RAbs(RSub(RAdd(RFromInt(w), "1/2"), ntau[w])), NR))])
      \* Wolff eq. (E.11) truncated at w_max
      Drho2(i) == LET terms == [k \in 1..(wmax - i - 1) |->
                        RSq(RSub(RAdd(rho[i + k], rho[IF i >= k THEN i - k ELSE k - i]), RMul(RMul("2", rho[i]), rho[k])))]
                  IN RDiv(RSumSeq(terms), NR)
      Bias(n) == RDiv(RAdd("1", RDiv(RFromInt(2 * n + 1), NR)), RAdd("1", RDiv("1", NR)))
      Dv2(tau) == RDiv(RMul(RMul(RMul("2", tau), Gam[0]), RAdd("1", RDiv("1", NR))), NR)
  IN
  IF RLt("0", texp) THEN
     \* critical slowing down analysis: attach the tail texp*rho(W+1) where rho is compatible with zero
     LET half == wmax \div 2
         stop(n) == NsSign(rho[n], nsig, Drho2(n))
         cand == {n \in 1..(half - 1) : stop(n) < 0 \/ n >= half - 2}
         W    == Min(cand)
         amb  == \E n \in 1..W : stop(n) = 0
         tau  == RAdd(RMul(ntau[W], Bias(W)), RMul(texp, RAbs(rho[W + 1])))
         dv2  == Dv2(tau)
     IN [kind |-> "texp", window |-> W, tauint |-> tau,
         dtauint2 |-> RAdd(ndtau2[W], RMul(RSq(texp), Drho2(W + 1))),
         dvalue2 |-> dv2, ddvalue2 |-> RMul(dv2, RDiv(RAdd(RFromInt(W), "1/2"), NR)),
         ambiguous |-> amb \/ clampAmb, rho |-> rho, ntau |-> ntau, ndtau2 |-> ndtau2,
         drho2 |-> [i \in 1..(W + 1) |-> Drho2(i)], wmax |-> wmax, N |-> N]
  ELSE IF S = "0" THEN
     LET dv2 == RDiv(Gam[0], RFromInt(N - 1)) IN
     [kind |-> "naive", window |-> 0, tauint |-> "1/2", dtauint2 |-> "0",
      dvalue2 |-> dv2, ddvalue2 |-> RMul(dv2, RDiv("1/2", NR)),
      ambiguous |-> FALSE, rho |-> rho, ntau |-> ntau, ndtau2 |-> ndtau2, drho2 |-> <<>>, wmax |-> wmax, N |-> N]
  ELSE
     \* automatic windowing: first W at which g(W) turns negative, or the largest admissible lag
     LET gs   == TLCEval([w \in 1..(wmax - 1) |-> GSign(ntau[w], RFromInt(w), NR, S)])
         cand == {w \in 1..(wmax - 1) : gs[w] < 0 \/ w >= wmax - 1}
         W    == Min(cand)
         amb  == \E w \in 1..W : gs[w] = 0
         tau  == RMul(ntau[W], Bias(W))
         dv2  == Dv2(tau)
     IN [kind |-> "auto", window |-> W, tauint |-> tau, dtauint2 |-> ndtau2[W],
         dvalue2 |-> dv2, ddvalue2 |-> RMul(dv2, RDiv(RAdd(RFromInt(W), "1/2"), NR)),
         ambiguous |-> amb \/ clampAmb, rho |-> rho, ntau |-> ntau, ndtau2 |-> ndtau2,
         drho2 |-> [i \in W..W |-> Drho2(i)], wmax |-> wmax, N |-> N]

\* ---- the whole observable -------------------------------------------------------------------------
EnsChains(o, e) == SelectSeq(o.chains, LAMBDA c : Ens(c.name) = e)
\* variance contributed by an external covariance input: g^T C g
CovErrSq(c) == RDot(c.grad, [i \in DOMAIN c.cov |-> RDot(c.cov[i], c.grad)])

\* the analysis can be carried out: common spacing, and enough data for the tail analysis
Analysable(o, P) ==
  \A e \in EnsNames(o) : LET reps == EnsChains(o, e) IN
     /\ CommonSpacing(reps)
     /\ (RLt("0", P[e].tau_exp) /\ ~RLt(RAbs(GammaFn(reps)[0]), Tiny10)) => WMax(reps) \div 2 > 1

\* P: ensemble name |-> [S, tau_exp, N_sigma]
Analyse(o, P) ==
  LET es  == SortNames(EnsNames(o))
      per == TLCEval([k \in DOMAIN es |-> AnalyseEns(EnsChains(o, es[k]), P[es[k]].S, P[es[k]].tau_exp, P[es[k]].N_sigma)])
      mc2 == FoldSeq(LAMBDA a, acc : RAdd(acc, a.dvalue2), "0", per)
      cv2 == FoldSeq(LAMBDA c, acc : RAdd(acc, CovErrSq(c)), "0", o.cov)
      tot == RAdd(mc2, cv2)
      \* ddvalue^2 = sum_e (dvalue_e * ddvalue_e)^2 / dvalue^2
      dd  == IF tot = "0" THEN "0" ELSE RDiv(FoldSeq(LAMBDA a, acc : RAdd(acc, RMul(a.dvalue2, a.ddvalue2)), "0", per), tot)
  IN [ens |-> es, per |-> per, dvalue2 |-> tot, ddvalue2 |-> dd,
      cov2 |-> [i \in DOMAIN o.cov |-> CovErrSq(o.cov[i])],
      ambiguous |-> \E k \in DOMAIN per : per[k].ambiguous]
=============================================================================
