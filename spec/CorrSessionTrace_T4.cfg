CONSTANTS
  TLen = 4
  NPrim = 3
  NMat = 1
  MaxObj = 10
  MaxDepth = 0
INIT TraceInit
NEXT TraceNext
POSTCONDITION Accepted
CHECK_DEADLOCK FALSE
