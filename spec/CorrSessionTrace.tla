-------------------------- MODULE CorrSessionTrace --------------------------
(***************************************************************************)
(* Trace specification of the correlator state machine CorrSession.        *)
(*                                                                         *)
(* A history recorded from real pyerrors is a `reset` event followed by    *)
(* one event per public call: the action and its arguments (c.act), the    *)
(* observed outcome (c.out: corr / exc / ok / obs / none), the observed    *)
(* result of an observation (c.res) and - because the state is small - the *)
(* projection of EVERY object of the pool after the call (c.pool: the      *)
(* correlator with all values and fluctuations, plateau range, tag, and    *)
(* whether its entries carry an error analysis).                           *)
(*                                                                         *)
(* Every step re-executes the action of CorrSession itself on the          *)
(* specification's own pool (never on what the log claims the state was)   *)
(* and compares the complete pool: an operation that alters an operand, a  *)
(* bystander, a plateau range or a tag is rejected at the step where it    *)
(* happens.  Verdicts are total and non-blocking (TraceBase).              *)
(***************************************************************************)
EXTENDS CorrSession, TraceBase
VARIABLE l

InitPool == InitialPool
InitLast == [Act("Init") EXCEPT !.out = "ok"]

\* ---- the action a recorded event stands for ---------------------------------------------------------------------------
ActionOf(c) ==
  LET a == c.act  ex == (c.out = "exc") IN
  CASE a.a = "Bin"       -> Bin(a.op, a.i, a.j, ex)
    [] a.a = "Scal"      -> Scal(a.op, a.i, a.q, a.left, ex)
    [] a.a = "Roll"      -> DoRoll(a.i, a.dt)
    [] a.a = "Reverse"   -> DoReverse(a.i)
    [] a.a = "Thin"      -> DoThin(a.i, a.sp, a.off, ex)
    [] a.a = "Symm"      -> DoSymm(a.i, a.dt, ex)
    [] a.a = "Deriv"     -> DoDeriv("deriv", a.i, a.variant)
    [] a.a = "Deriv2"    -> DoDeriv("second_deriv", a.i, a.variant)
    [] a.a = "ItemOf"    -> DoItem(a.i, a.lo, a.hi)
    [] a.a = "Trace"     -> DoTrace(a.i)
    [] a.a = "MatSym"    -> DoMatSym(a.i)
    [] a.a = "Hankel"    -> DoHankel(a.i, a.left, ex)
    [] a.a = "SetPrange" -> SetPrange(a.i, a.lo, a.hi)
    [] a.a = "SetTag"    -> SetTag(a.i, a.tag)
    [] a.a = "Gm"        -> Gm(a.i)
    [] a.a = "Reload"    -> Reload(a.i)
    [] a.a = "Clone"     -> Clone(a.i)
    [] a.a = "Plateau"   -> Plateau(a.i, a.left, a.lo, a.hi)
    [] a.a = "Item"      -> GetItem(a.i, a.t)

Creating == {"Bin", "Scal", "Roll", "Reverse", "Thin", "Symm", "Deriv", "Deriv2", "ItemOf", "Trace", "MatSym", "Hankel", "Reload", "Clone"}
KnownAction(c) == c.act.a \in Creating \cup {"SetPrange", "SetTag", "Gm", "Plateau", "Item"}
\* the recorded operand indices refer to objects of the specification's pool, and there is room for a result
WellAddressed(c) ==
  LET a == c.act IN
  /\ a.i \in DOMAIN pool
  /\ a.a = "Bin" => a.j \in DOMAIN pool
  /\ a.a \in Creating => Room
  /\ a.a = "MatSym" => pool[a.i].prange = <<>>
  /\ a.a = "ItemOf" => (a.lo \in 1..2 /\ a.hi \in 1..2)
  /\ (a.a = "Bin" /\ a.op = "div") => NoZero(pool[a.j].c)
  /\ (a.a = "Scal" /\ a.op = "div" /\ ~a.left) => NoZero(pool[a.i].c)
  /\ a.a = "Item" => (a.t \in 0..(TLen - 1) /\ pool[a.i].c.N = 1)

\* ---- the observed pool against the specification's pool after the step -----------------------------------------------
ObjVerdicts(id, i, o, m) ==
  LET w == "object " \o ToString(i) \o ": "  sc == m.sc IN
  /\ Verdict(id, w \o "T and N", o.c.T = m.c.T /\ o.c.N = m.c.N)
  /\ (o.c.T = m.c.T /\ o.c.N = m.c.N) =>
       /\ Verdict(id, w \o "undefined timeslices", MaskOf(o.c) = MaskOf(m.c))
       /\ MaskOf(o.c) = MaskOf(m.c) => Verdict(id, w \o "entries (value and every fluctuation)",
                                                \A t \in 1..m.c.T : SliceClose(o.c.content[t], m.c.content[t], sc))
  /\ Verdict(id, w \o "plateau range", o.prange = m.prange)
  /\ Verdict(id, w \o "tag", o.tag = m.tag)
  /\ Verdict(id, w \o "entries carry an error analysis after gamma_method", m.gm => o.an)
PoolVerdicts(id, obs, mod) ==
  /\ Verdict(id, "number of objects in the pool", Len(obs) = Len(mod))
  /\ Len(obs) = Len(mod) => \A i \in DOMAIN mod : ObjVerdicts(id, i, obs[i], mod[i])

\* ---- outcome and observation ------------------------------------------------------------------------------------------
ResultVerdicts(id, c, la) ==
  /\ Verdict(id, la.a \o ": outcome " \o c.out \o " where the specification has " \o la.out, c.out = la.out)
  /\ (c.out = la.out /\ la.out = "obs") =>
        Verdict(id, la.a \o ": returned observable (value and every fluctuation)",
                c.res.k = "slot" /\ SlotClose(c.res.x, la.res, R9, Atol(pool[la.i].sc)))

Step(c) ==
  IF c.ev = "reset" THEN pool' = InitPool /\ last' = InitLast
                         /\ PoolVerdicts(c.id, c.pool, InitPool)
  ELSE IF ~KnownAction(c) THEN Verdict(c.id, "unknown action", FALSE) /\ UNCHANGED <<pool, last>>
  ELSE IF ~WellAddressed(c) THEN Verdict(c.id, "the step is not an action of the machine here (history lost step after an earlier rejection, or driver error)", FALSE) /\ UNCHANGED <<pool, last>>
  ELSE /\ ActionOf(c)
       /\ ResultVerdicts(c.id, c, last')
       /\ PoolVerdicts(c.id, c.pool, pool')

TraceInit == /\ l = 1 /\ LoadCases
             /\ pool = InitPool /\ last = InitLast
TraceNext == /\ l <= NCases
        /\ Step(Cases[l])
        /\ Consumed(l)
        /\ l' = l + 1
=============================================================================
