---------------------------- MODULE StoreSession ----------------------------
(***************************************************************************)
(* The persistence state machine (beyond the listed properties; DESIGN 7). *)
(*                                                                         *)
(* State: the directory (path |-> what kind of file it is and which        *)
(* document it holds) and the pool of documents of the process.  Actions:  *)
(* the json transports dump_to_json / load_json / Obs.dump and the pickle  *)
(* transports Obs.dump(datatype="pickle") / dump_object / load_object.     *)
(* What is specified is the naming rule both ends of the json transport    *)
(* share                                                                   *)
(*     name        -> name.json      unless it ends in .json or .gz        *)
(*     ... , gz    -> ... .gz        unless it ends in .gz                 *)
(* that a later export to the same resolved path replaces the earlier one, *)
(* that a load returns the document stored LAST under the resolved path,   *)
(* and that a load fails when there is no such file or when the file is of *)
(* the other kind (a gzipped file read as text, a text file read as gzip,  *)
(* a pickle read as json).  A loaded document is a new object of the pool  *)
(* with the data of its source (the comparison of the data is StoreTrace's *)
(* DocSame, property C11); the analysis never travels through json and     *)
(* always through pickle.                                                  *)
(***************************************************************************)
EXTENDS Integers, Sequences, FiniteSets, Str, TLC

CONSTANTS Names,     \* file names handed to the transports
          NDocs,     \* documents the pool starts with (1..NDocs)
          MaxPool,
          MaxDepth
VARIABLES files, pool, last
vars == <<files, pool, last>>

EndsWith(s, suf) == StrLen(s) >= StrLen(suf) /\ StrSub(s, StrLen(s) - StrLen(suf) + 1, StrLen(s)) = suf
\* the path a json transport reads / writes for (name, gz)
Resolve(name, gz) ==
  LET f1 == IF ~EndsWith(name, ".json") /\ ~EndsWith(name, ".gz") THEN StrCat(name, ".json") ELSE name
  IN IF gz /\ ~EndsWith(f1, ".gz") THEN StrCat(f1, ".gz") ELSE f1
PicklePath(name) == StrCat(name, ".p")

Paths == {Resolve(n, g) : n \in Names, g \in BOOLEAN} \cup {PicklePath(n) : n \in Names}
NoFile == [kind |-> "none", doc |-> 0, analysed |-> FALSE]
\* pool entry: which primary document it carries, whether it has been analysed
Entry(d, a) == [doc |-> d, analysed |-> a]

Init == /\ files = [p \in Paths |-> NoFile]
        /\ pool = [i \in 1..NDocs |-> Entry(i, FALSE)]
        /\ last = [a |-> "Init", out |-> "ok", i |-> 0, name |-> "", gz |-> FALSE]

Analyse(i) ==
  /\ pool' = [pool EXCEPT ![i].analysed = TRUE]
  /\ last' = [a |-> "Analyse", out |-> "ok", i |-> i, name |-> "", gz |-> FALSE]
  /\ UNCHANGED files

DumpJson(i, name, gz) ==
  /\ files' = [files EXCEPT ![Resolve(name, gz)] = [kind |-> IF gz THEN "gz" ELSE "text", doc |-> pool[i].doc, analysed |-> FALSE]]
  /\ last' = [a |-> "DumpJson", out |-> "ok", i |-> i, name |-> name, gz |-> gz]
  /\ UNCHANGED pool

LoadJson(name, gz) ==
  LET f == files[Resolve(name, gz)]  want == IF gz THEN "gz" ELSE "text" IN
  /\ Len(pool) < MaxPool
  /\ IF f.kind = want
     THEN /\ pool' = Append(pool, Entry(f.doc, FALSE))
          /\ last' = [a |-> "LoadJson", out |-> "doc", i |-> Len(pool) + 1, name |-> name, gz |-> gz]
     ELSE /\ UNCHANGED pool
          /\ last' = [a |-> "LoadJson", out |-> "exc", i |-> 0, name |-> name, gz |-> gz]
  /\ UNCHANGED files

DumpPickle(i, name) ==
  /\ files' = [files EXCEPT ![PicklePath(name)] = [kind |-> "pickle", doc |-> pool[i].doc, analysed |-> pool[i].analysed]]
  /\ last' = [a |-> "DumpPickle", out |-> "ok", i |-> i, name |-> name, gz |-> FALSE]
  /\ UNCHANGED pool

LoadPickle(name) ==     \* load_object takes the path as it is on disk
  LET f == files[PicklePath(name)] IN
  /\ Len(pool) < MaxPool
  /\ IF f.kind = "pickle"
     THEN /\ pool' = Append(pool, Entry(f.doc, f.analysed))
          /\ last' = [a |-> "LoadPickle", out |-> "doc", i |-> Len(pool) + 1, name |-> name, gz |-> FALSE]
     ELSE /\ UNCHANGED pool
          /\ last' = [a |-> "LoadPickle", out |-> "exc", i |-> 0, name |-> name, gz |-> FALSE]
  /\ UNCHANGED files

Next == \/ \E i \in DOMAIN pool : Analyse(i)
        \/ \E i \in DOMAIN pool, n \in Names, g \in BOOLEAN : DumpJson(i, n, g)
        \/ \E n \in Names, g \in BOOLEAN : LoadJson(n, g)
        \/ \E i \in DOMAIN pool, n \in Names : DumpPickle(i, n)
        \/ \E n \in Names : LoadPickle(n)
Spec == Init /\ [][Next]_vars

\* ---- properties ---------------------------------------------------------------------------------------------------
TypeOK == /\ DOMAIN files = Paths /\ Len(pool) <= MaxPool
          /\ \A p \in Paths : files[p].kind \in {"none", "gz", "text", "pickle"} /\ files[p].doc \in 0..NDocs
\* a json path holds json, a pickle path a pickle: the two families of transports never meet on disk
KindsMatchPaths == \A p \in Paths : /\ files[p].kind = "pickle" => EndsWith(p, ".p")
                                    /\ files[p].kind \in {"gz", "text"} => (EndsWith(p, ".json") \/ EndsWith(p, ".gz"))
\* gzipped content under a name that does not say so is impossible; text content under a .gz name is possible (and read back only as text)
GzIsNamedGz == \A p \in Paths : files[p].kind = "gz" => EndsWith(p, ".gz")
\* a load returns what was written last under the resolved path, and nothing else changes
LoadReturnsLastDump == [][(last'.a = "LoadJson" /\ last'.out = "doc") =>
                            pool'[last'.i].doc = files[Resolve(last'.name, last'.gz)].doc /\ ~pool'[last'.i].analysed]_vars
PickleCarriesAnalysis == [][(last'.a = "LoadPickle" /\ last'.out = "doc") =>
                            pool'[last'.i] = Entry(files[PicklePath(last'.name)].doc, files[PicklePath(last'.name)].analysed)]_vars
\* writing and reading with the same (name, gz) always meet: dump then load of the same request succeeds
RoundTripMeets == [][(last.a = "DumpJson" /\ last'.a = "LoadJson" /\ last'.name = last.name /\ last'.gz = last.gz) => last'.out = "doc"]_vars
DumpOnlyTouchesItsPath == [][last'.a = "DumpJson" => \A p \in Paths : p # Resolve(last'.name, last'.gz) => files'[p] = files[p]]_vars
Bounded == TLCGet("level") <= MaxDepth
=============================================================================
