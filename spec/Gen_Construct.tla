---------------------------- MODULE Gen_Construct ----------------------------
(***************************************************************************)
(* (R) direction for C04: TLC enumerates the constructor requests of a     *)
(* small grammar - valid ones and every malformed class (duplicate names,  *)
(* several ensembles, unsorted / duplicate configuration numbers, length   *)
(* mismatch, fewer than five samples) in every chain position - states on  *)
(* the specification that exactly the malformed ones are rejected and that *)
(* every accepted one constructs a WellFormed observable, and writes the   *)
(* requests out (OUT_FILE) to be replayed into real pyerrors.              *)
(***************************************************************************)
EXTENDS ObsCore, Json, IOUtils

Names == {"A|1", "A|2", "B|1", "A", "AB|1"}        \* "AB" and "A" are different ensembles although one name is a prefix of the other
Idls  == {<<1, 2, 3, 4, 5>>, <<1, 3, 5, 7, 9>>, <<1, 2, 4, 5, 7>>, <<2, 4, 6, 8, 10, 12>>,
          <<1, 2, 2, 4, 5>>, <<1, 3, 2, 4, 5>>, <<1, 2, 3, 4>>, <<3, 6, 7, 9, 12, 15>>}
ChainReqs == {[name |-> n, idl |-> i, nx |-> k] : n \in Names, i \in Idls, k \in {4, 5, 6}}
Xs(n, k) == [j \in 1..k |-> RFromInt(j * j + StrLen(n))]
MkReq(c) == [name |-> c.name, namekind |-> "str", idl |-> c.idl, x |-> Xs(c.name, c.nx)]
Requests == {<<MkReq(c)>> : c \in ChainReqs} \cup {<<MkReq(c), MkReq(d)>> : c \in ChainReqs, d \in {e \in ChainReqs : e.nx = 5}}

Plain(req) == [k \in DOMAIN req |-> [name |-> req[k].name, idl |-> req[k].idl, x |-> req[k].x]]
\* theorem on the specification: an accepted request yields a well-formed observable whose central value is the
\* mean over all samples, and a rejected request belongs to one of the malformed classes
Sound(req) == ~ConstructRejects(Plain(req)) =>
                 LET o == Construct(Plain(req)) IN
                 /\ WellFormed(o)
                 /\ o.value = RDiv(FoldSeq(LAMBDA c, acc : RAdd(acc, RSumSeq(c.x)), "0", req), RFromInt(o.N))
                 /\ \A k \in DOMAIN o.chains : RSumSeq(o.chains[k].d) = "0"
ASSUME \A req \in Requests : Sound(req)
ASSUME Cardinality({req \in Requests : ConstructRejects(Plain(req))}) > 0
ASSUME Cardinality({req \in Requests : ~ConstructRejects(Plain(req))}) > 0

Scenarios == LET s == SetToSeq(Requests) IN
             [i \in DOMAIN s |-> [id |-> StrCat("gen-", StrFromInt(i)), ev |-> "construct", req |-> s[i],
                                  idlcount |-> Len(s[i]), samplecount |-> Len(s[i])]]
ASSUME ndJsonSerialize(IOEnv.OUT_FILE, Scenarios)
ASSUME PrintT(<<"SCENARIOS", Len(Scenarios), Cardinality({req \in Requests : ConstructRejects(Plain(req))})>>)
VARIABLE dummy
Init == dummy = 0
Next == UNCHANGED dummy
=============================================================================
