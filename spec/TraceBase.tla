----------------------------- MODULE TraceBase -----------------------------
(***************************************************************************)
(* Shared skeleton of the trace specifications.                            *)
(*                                                                         *)
(* A trace file (ndjson, path in the environment variable TRACE_FILE) is   *)
(* a sequence of cases recorded from the real implementation: the request  *)
(* (action and arguments), the projected objects it referred to and the    *)
(* projected result.  The trace specification consumes one case per step   *)
(* (variable l), re-executes the action with the operators of the main     *)
(* specification and compares.  Verdicts are total and non-blocking: a     *)
(* failed clause prints <<"REJECT", id, clause>> and is counted, the step  *)
(* is still taken, so one early rejection never hides later ones.          *)
(*                                                                         *)
(* TLC registers: 1 cases, 2 consumed, 3 rejects, 4 skipped, 5 known.      *)
(***************************************************************************)
EXTENDS Integers, Sequences, TLC, TLCExt, Json, IOUtils

LoadCases == /\ TLCSet(1, ndJsonDeserialize(IOEnv.TRACE_FILE))
             /\ TLCSet(2, 0) /\ TLCSet(3, 0) /\ TLCSet(4, 0) /\ TLCSet(5, 0)
Cases  == TLCGet(1)
NCases == Len(TLCGet(1))

Verdict(id, clause, ok) == IF ok THEN TRUE
                           ELSE PrintT(<<"REJECT", id, clause>>) /\ TLCSet(3, TLCGet(3) + 1)
\* the case lies within the tolerance band of a real-valued branch: no verdict
Skip(id, why)  == PrintT(<<"SKIP", id, why>>) /\ TLCSet(4, TLCGet(4) + 1)
\* the step is explained only by a named deviation action (a recorded finding)
Known(id, what) == PrintT(<<"KNOWN", id, what>>) /\ TLCSet(5, TLCGet(5) + 1)
Consumed(l) == TLCSet(2, l)
Report == PrintT(<<"DONE", TLCGet(2), TLCGet(3), TLCGet(4), TLCGet(5)>>)
Accepted == Report /\ TLCGet(2) = NCases /\ TLCGet(3) = 0

Has(rec, field) == field \in DOMAIN rec
=============================================================================
