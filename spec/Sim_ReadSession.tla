--------------------------- MODULE Sim_ReadSession ---------------------------
EXTENDS Integers, Sequences
VARIABLES dir, last
Pay(r, cfg) == <<<<cfg, r>>>>
INSTANCE ReadSession WITH MaxReps <- 3, MaxRecs <- 12, MaxDepth <- 0, Payload <- Pay
=============================================================================
