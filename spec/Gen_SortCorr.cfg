CONSTANTS
  MaxK = 4
  MaxLen = 3
INIT Init
NEXT Next
CHECK_DEADLOCK FALSE
