--------------------------- MODULE ResampleTrace ---------------------------
(* Trace specification for property C13. *)
EXTENDS Resample, TraceBase
VARIABLE l
T12 == "1/1000000000000"
T8  == "1/100000000"
Sc(o) == RAdd(RAbs(o.value), RMaxAbsSeq(o.chains[1].d))

Restored(id, res, orig, rtol, checkidl) ==
  IF res.k # "obs" THEN Verdict(id, "result-kind:" \o res.k, FALSE)
  ELSE /\ Verdict(id, "wellformed:" \o WFClause(res.o), WellFormed(res.o))
       /\ Verdict(id, "single-chain", Len(res.o.chains) = 1 /\ res.o.chains[1].name = orig.chains[1].name)
       /\ Len(res.o.chains) = 1 =>
            /\ Verdict(id, "value", RClose(res.o.value, orig.value, rtol, RMul(rtol, Sc(orig))))
            /\ Verdict(id, "idl", ~checkidl \/ (res.o.chains[1].idl = orig.chains[1].idl /\ res.o.chains[1].isrange = orig.chains[1].isrange))
            /\ Verdict(id, "length", Len(res.o.chains[1].d) = Len(orig.chains[1].d))
            /\ Verdict(id, "samples", Len(res.o.chains[1].d) # Len(orig.chains[1].d)
                                      \/ RCloseSeq(SamplesOf(res.o.chains[1]), SamplesOf(orig.chains[1]), rtol, RMul(rtol, Sc(orig))))

CheckCase(c) ==
  LET id == c.id IN
  CASE c.ev = "jack_export" ->
         LET x == Xs(c.obs)  exp == JackOf(c.obs.value, x) IN
         /\ Verdict(id, "length", Len(c.jack) = Len(x) + 1)
         /\ Verdict(id, "entry0=value", c.jack[1] = c.obs.value)
         /\ Verdict(id, "leave-one-out", Len(c.jack) # Len(exp) \/ RCloseSeq(c.jack, exp, T12, RMul(T12, Sc(c.obs))))
         \* ... and the naive error the library itself reports (gamma_method with S = 0)
         /\ Verdict(id, "jackknife variance = squared naive (S=0) error reported by gamma_method",
                    RClose(RSq(c.naive), JackVar(c.jack), "1/100000", RMul("1/100000000000000000000", RSq(Sc(c.obs)))))
         /\ Verdict(id, "jackknife-variance=naive-error^2",
                    RClose(JackVar(c.jack), NaiveVar(c.obs), "1/1000000", RMul("1/100000000000000000000", RSq(Sc(c.obs)))))
    [] c.ev = "jack_import" -> Restored(id, c.res, c.obs, T12, TRUE)
    \* a configuration list whose length is not the number of samples cannot belong to them: whatever came back, it is not a well-formed
    \* observable (property C04), so the request has to be refused
    [] c.ev = "jack_import_bad" -> Verdict(id, "a configuration list of " \o ToString(c.nidl) \o " entries for " \o ToString(c.nsamples) \o " samples must be rejected",
                                           c.nidl = c.nsamples \/ c.res.k = "exc")
    [] c.ev = "frame" -> Verdict(id, c.what, c.before = c.after)
    [] c.ev = "boot_export" ->
         LET x == Xs(c.obs)  exp == BootOf(c.obs.value, x, c.table) IN
         /\ Verdict(id, "length", Len(c.boots) = Len(c.table) + 1)
         /\ Verdict(id, "entry0=value", c.boots[1] = c.obs.value)
         /\ Verdict(id, "resampled-means", Len(c.boots) # Len(exp) \/ RCloseSeq(c.boots, exp, T12, RMul(T12, Sc(c.obs))))
    [] c.ev = "boot_import" ->
         LET n == Len(c.obs.chains[1].d) IN
         IF Len(c.table) < n THEN Verdict(id, "fewer-samples-than-configurations-must-raise", c.res.k = "exc")
         \* (large tables come with the rank established numerically by the driver: smallest singular value well above rounding)
         ELSE IF ~(IF "fullrank" \in DOMAIN c THEN c.fullrank ELSE Determined(c.table, n)) THEN Skip(id, "resampling table without full column rank: nothing claimed")
         ELSE Restored(id, c.res, c.obs, T8, FALSE)
    [] c.ev = "boot_seed" ->   \* default (name-seeded) tables: reproducible, the same for every observable on the chain
         /\ Verdict(id, "reproducible", c.first = c.second)
         /\ Verdict(id, "table-reproducible", c.table1 = c.table2)
         /\ Verdict(id, "chain-consistent", c.table1 = c.table_other)
         /\ Verdict(id, "is-resampling-of-table", RCloseSeq(c.first, BootOf(c.obs.value, Xs(c.obs), c.table1), T12, RMul(T12, Sc(c.obs))))
         /\ Verdict(id, "linear", RCloseSeq(c.sum, RAddSeq(c.first, c.other), "1/10000000000", RMul("1/10000000000", Sc(c.obs))))
    [] OTHER -> Verdict(id, "unknown-event", FALSE)

Init == l = 1 /\ LoadCases
Next == /\ l <= NCases
        /\ CheckCase(Cases[l])
        /\ Consumed(l)
        /\ l' = l + 1
=============================================================================
