---------------------------- MODULE DeriveTrace ----------------------------
(***************************************************************************)
(* Trace specification for property C01 (and the closure part of C04):     *)
(* every recorded evaluation of an expression over observables - through   *)
(* the overloaded operators step by step, through derived_observable with  *)
(* automatic, numerical or manual differentiation, scalar or array mode -  *)
(* must equal ObsCore!Derive with the analytic gradient of module Expr.    *)
(***************************************************************************)
EXTENDS DeriveCheck

VARIABLE l

Init == l = 1 /\ LoadCases
Next == /\ l <= NCases
        /\ CheckDeriveCase(Cases[l])
        /\ Consumed(l)
        /\ l' = l + 1
Spec == Init /\ [][Next]_l
=============================================================================
