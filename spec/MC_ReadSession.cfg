SPECIFICATION Spec
CONSTRAINT Bounded
INVARIANT TypeOK
INVARIANT Increasing
PROPERTY OnlyAppended
PROPERTY ReadSeesAll
CHECK_DEADLOCK FALSE
