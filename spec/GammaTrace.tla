----------------------------- MODULE GammaTrace -----------------------------
(* Trace specification for property C02: every recorded gamma_method call   *)
(* equals Gamma!Analyse on the recorded data and the effective parameters.  *)
EXTENDS GammaCheck
VARIABLE l

\* metamorphic pair (C03): the analysis of a transformed observable against the analysis of the original,
\* both produced by the implementation; c.scale = |c| for data multiplied by c, 1 otherwise
MClose(a, b, s) == RClose(a, RMul(s, b), "1/100000000", "1/1000000000000000000000000000000")
CheckMeta(id, c) ==
  IF c.res.k # "ok" THEN Verdict(id, "raised", FALSE)
  ELSE LET b == c.res.base  m == c.res.img  s == c.scale IN
  /\ Verdict(id, "meta.ensembles", Len(b.ens) = Len(m.ens))
  /\ Verdict(id, "meta.dvalue", MClose(m.dvalue, b.dvalue, s))
  /\ Verdict(id, "meta.ddvalue", MClose(m.ddvalue, b.ddvalue, s))
  /\ Verdict(id, "meta.finite-nonnegative", RLe("0", m.dvalue) /\ RLe("0", m.ddvalue))
  /\ \A k \in DOMAIN b.ens : k \in DOMAIN m.ens =>
       /\ Verdict(id, "meta.window", m.ens[k].window = b.ens[k].window)
       /\ Verdict(id, "meta.tauint", MClose(m.ens[k].tauint, b.ens[k].tauint, "1"))
       /\ Verdict(id, "meta.tauint>=1/2", RLe("1/2", m.ens[k].tauint))
       /\ Verdict(id, "meta.dtauint", MClose(m.ens[k].dtauint, b.ens[k].dtauint, "1"))
       /\ Verdict(id, "meta.e_dvalue", MClose(m.ens[k].dvalue, b.ens[k].dvalue, s))
       /\ Verdict(id, "meta.e_ddvalue", MClose(m.ens[k].ddvalue, b.ens[k].ddvalue, s))
       /\ Verdict(id, "meta.rho", Len(m.ens[k].rho) = Len(b.ens[k].rho) /\
              \A t \in DOMAIN b.ens[k].rho : RClose(m.ens[k].rho[t], b.ens[k].rho[t], "1/100000000", "1/1000000000"))
       /\ Verdict(id, "meta.drho", Len(m.ens[k].drho) = Len(b.ens[k].drho) /\
              \A t \in DOMAIN b.ens[k].drho : RClose(m.ens[k].drho[t], b.ens[k].drho[t], "1/100000000", "1/1000000000"))

CheckCase(c) ==
  CASE c.ev = "gm" -> CheckGm(c.id, c.obs, c.args, c.glob, c.dict, c.res)
    [] c.ev = "meta" -> CheckMeta(c.id, c)
    [] c.ev = "frame" -> Verdict(c.id, c.what, c.before = c.after)
    [] OTHER -> Verdict(c.id, "unknown-event", FALSE)

Init == l = 1 /\ LoadCases
Next == /\ l <= NCases
        /\ CheckCase(Cases[l])
        /\ Consumed(l)
        /\ l' = l + 1
=============================================================================
