CONSTANTS
  Reps = {1, 2}
  Cfgs = {1, 2, 3}
INIT Init
NEXT Next
INVARIANT InvSplit
INVARIANT MeanPreserved
CHECK_DEADLOCK FALSE
