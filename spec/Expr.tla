-------------------------------- MODULE Expr --------------------------------
(***************************************************************************)
(* Expression trees over the operators pyerrors overloads, with their      *)
(* value and their TRUE ANALYTIC gradient (symbolic differentiation by the *)
(* chain rule, written out here independently of autograd / numdifftools / *)
(* the hand-written derivatives in pyerrors).                              *)
(*                                                                         *)
(*   e ::= [op |-> "var", i |-> k]            k-th real leaf (1-based)      *)
(*       | [op |-> "const", v |-> rational]                                 *)
(*       | [op |-> binary, a |-> <<e1, e2>>]  add sub mul div pow           *)
(*       | [op |-> unary,  a |-> <<e1>>]      neg abs and the 15 functions  *)
(*                                                                         *)
(* Complex expressions (leaves "cvar" = pair of real leaves, "cconst")     *)
(* are translated by Complexify into a pair of real expression trees.      *)
(***************************************************************************)
EXTENDS Num, TLC

Unary  == {"neg", "abs", "sqrt", "log", "exp", "sin", "cos", "tan", "arcsin", "arccos", "arctan",
           "sinh", "cosh", "tanh", "arcsinh", "arccosh", "arctanh"}
Binary == {"add", "sub", "mul", "div", "pow"}

\* value of a unary function
Fn(f, x) == CASE f = "neg" -> RNeg(x)        [] f = "abs" -> RAbs(x)
              [] f = "sqrt" -> RSqrt(x)      [] f = "log" -> RLog(x)       [] f = "exp" -> RExp(x)
              [] f = "sin" -> RSin(x)        [] f = "cos" -> RCos(x)       [] f = "tan" -> RTan(x)
              [] f = "arcsin" -> RArcsin(x)  [] f = "arccos" -> RArccos(x) [] f = "arctan" -> RArctan(x)
              [] f = "sinh" -> RSinh(x)      [] f = "cosh" -> RCosh(x)     [] f = "tanh" -> RTanh(x)
              [] f = "arcsinh" -> RArcsinh(x) [] f = "arccosh" -> RArccosh(x) [] f = "arctanh" -> RArctanh(x)
\* its derivative
DFn(f, x) == CASE f = "neg" -> "-1"
              [] f = "abs" -> RFromInt(RSign(x))
              [] f = "sqrt" -> RDiv("1", RMul("2", RSqrt(x)))
              [] f = "log" -> RDiv("1", x)
              [] f = "exp" -> RExp(x)
              [] f = "sin" -> RCos(x)
              [] f = "cos" -> RNeg(RSin(x))
              [] f = "tan" -> RDiv("1", RSq(RCos(x)))
              [] f = "arcsin" -> RDiv("1", RSqrt(RSub("1", RSq(x))))
              [] f = "arccos" -> RNeg(RDiv("1", RSqrt(RSub("1", RSq(x)))))
              [] f = "arctan" -> RDiv("1", RAdd("1", RSq(x)))
              [] f = "sinh" -> RCosh(x)
              [] f = "cosh" -> RSinh(x)
              [] f = "tanh" -> RDiv("1", RSq(RCosh(x)))
              [] f = "arcsinh" -> RDiv("1", RSqrt(RAdd(RSq(x), "1")))
              [] f = "arccosh" -> RDiv("1", RSqrt(RSub(RSq(x), "1")))
              [] f = "arctanh" -> RDiv("1", RSub("1", RSq(x)))

IsConst(e) == e.op = "const"
C(x) == [op |-> "const", v |-> x]
B(op, x, y) == [op |-> op, a |-> <<x, y>>]
U(op, x) == [op |-> op, a |-> <<x>>]

RECURSIVE Eval(_, _)
Eval(e, v) ==
  CASE e.op = "var"   -> v[e.i]
    [] e.op = "const" -> e.v
    [] e.op = "add"   -> RAdd(Eval(e.a[1], v), Eval(e.a[2], v))
    [] e.op = "sub"   -> RSub(Eval(e.a[1], v), Eval(e.a[2], v))
    [] e.op = "mul"   -> RMul(Eval(e.a[1], v), Eval(e.a[2], v))
    [] e.op = "div"   -> RDiv(Eval(e.a[1], v), Eval(e.a[2], v))
    [] e.op = "pow"   -> IF IsConst(e.a[2]) /\ RIsInt(e.a[2].v) /\ RLe(RAbs(e.a[2].v), "64")
                         THEN RPowInt(Eval(e.a[1], v), RToInt(e.a[2].v))
                         ELSE RPow(Eval(e.a[1], v), Eval(e.a[2], v))
    [] e.op \in Unary -> Fn(e.op, Eval(e.a[1], v))
    [] e.op = "kn"    -> RKn(RFromInt(e.n), Eval(e.a[1], v))      \* modified Bessel function K_n, integer order

\* d/dx K_n(x) = -(K_{n-1}(x) + K_{n+1}(x)) / 2, with K_{-m} = K_m
DKn(n, x) == RNeg(RDiv(RAdd(RKn(RFromInt(IF n >= 1 THEN n - 1 ELSE 1 - n), x), RKn(RFromInt(n + 1), x)), "2"))

Zeros(n) == [j \in 1..n |-> "0"]
Unit(n, i) == [j \in 1..n |-> IF j = i THEN "1" ELSE "0"]

RECURSIVE Grad(_, _)
Grad(e, v) ==
  LET n == Len(v) IN
  CASE e.op = "var"   -> Unit(n, e.i)
    [] e.op = "const" -> Zeros(n)
    [] e.op = "add"   -> RAddSeq(Grad(e.a[1], v), Grad(e.a[2], v))
    [] e.op = "sub"   -> RAddSeq(Grad(e.a[1], v), RScaleSeq("-1", Grad(e.a[2], v)))
    [] e.op = "mul"   -> RAddSeq(RScaleSeq(Eval(e.a[2], v), Grad(e.a[1], v)), RScaleSeq(Eval(e.a[1], v), Grad(e.a[2], v)))
    [] e.op = "div"   -> LET x == Eval(e.a[1], v)  y == Eval(e.a[2], v) IN
                         RAddSeq(RScaleSeq(RDiv("1", y), Grad(e.a[1], v)), RScaleSeq(RNeg(RDiv(x, RSq(y))), Grad(e.a[2], v)))
    [] e.op = "pow"   -> LET x == Eval(e.a[1], v)  y == Eval(e.a[2], v)
                             dx == IF IsConst(e.a[2]) /\ RIsInt(y) /\ RLe(RAbs(y), "64")
                                   THEN RMul(y, RPowInt(x, RToInt(y) - 1))
                                   ELSE RMul(y, RPow(x, RSub(y, "1")))
                         IN IF IsConst(e.a[2]) THEN RScaleSeq(dx, Grad(e.a[1], v))
                            ELSE IF IsConst(e.a[1]) THEN RScaleSeq(RMul(RPow(x, y), RLog(x)), Grad(e.a[2], v))
                            ELSE RAddSeq(RScaleSeq(dx, Grad(e.a[1], v)), RScaleSeq(RMul(RPow(x, y), RLog(x)), Grad(e.a[2], v)))
    [] e.op \in Unary -> RScaleSeq(DFn(e.op, Eval(e.a[1], v)), Grad(e.a[1], v))
    [] e.op = "kn"    -> RScaleSeq(DKn(e.n, Eval(e.a[1], v)), Grad(e.a[1], v))

\* ------------------------------------------------------------------ symbolic derivative (an expression again)
\* Diff(e, i) = d e / d leaf_i as an expression tree; second derivatives are Grad(Diff(e, i), v)
DFnE(f, x) ==        \* derivative of the unary function f at the expression x, as an expression
  CASE f = "neg" -> C("-1")
    [] f = "abs" -> B("div", x, U("abs", x))
    [] f = "sqrt" -> B("div", C("1/2"), U("sqrt", x))
    [] f = "log" -> B("div", C("1"), x)
    [] f = "exp" -> U("exp", x)
    [] f = "sin" -> U("cos", x)
    [] f = "cos" -> U("neg", U("sin", x))
    [] f = "tan" -> B("div", C("1"), B("pow", U("cos", x), C("2")))
    [] f = "arcsin" -> B("div", C("1"), U("sqrt", B("sub", C("1"), B("pow", x, C("2")))))
    [] f = "arccos" -> U("neg", B("div", C("1"), U("sqrt", B("sub", C("1"), B("pow", x, C("2"))))))
    [] f = "arctan" -> B("div", C("1"), B("add", C("1"), B("pow", x, C("2"))))
    [] f = "sinh" -> U("cosh", x)
    [] f = "cosh" -> U("sinh", x)
    [] f = "tanh" -> B("div", C("1"), B("pow", U("cosh", x), C("2")))
    [] f = "arcsinh" -> B("div", C("1"), U("sqrt", B("add", B("pow", x, C("2")), C("1"))))
    [] f = "arccosh" -> B("div", C("1"), U("sqrt", B("sub", B("pow", x, C("2")), C("1"))))
    [] f = "arctanh" -> B("div", C("1"), B("sub", C("1"), B("pow", x, C("2"))))
RECURSIVE Diff(_, _)
Diff(e, i) ==
  CASE e.op = "var"   -> IF e.i = i THEN C("1") ELSE C("0")
    [] e.op = "const" -> C("0")
    [] e.op = "add"   -> B("add", Diff(e.a[1], i), Diff(e.a[2], i))
    [] e.op = "sub"   -> B("sub", Diff(e.a[1], i), Diff(e.a[2], i))
    [] e.op = "mul"   -> B("add", B("mul", Diff(e.a[1], i), e.a[2]), B("mul", e.a[1], Diff(e.a[2], i)))
    [] e.op = "div"   -> B("sub", B("div", Diff(e.a[1], i), e.a[2]), B("div", B("mul", e.a[1], Diff(e.a[2], i)), B("pow", e.a[2], C("2"))))
    [] e.op = "pow"   -> IF IsConst(e.a[2])
                         THEN B("mul", B("mul", e.a[2], B("pow", e.a[1], C(RSub(e.a[2].v, "1")))), Diff(e.a[1], i))
                         ELSE B("mul", e, B("add", B("mul", Diff(e.a[2], i), U("log", e.a[1])), B("div", B("mul", e.a[2], Diff(e.a[1], i)), e.a[1])))
    [] e.op \in Unary -> B("mul", DFnE(e.op, e.a[1]), Diff(e.a[1], i))

\* ------------------------------------------------------------------ domain of definition over the reals
\* is every function of the tree applied inside its (real) domain at v - otherwise the result "is not a number"
RECURSIVE InDom(_, _)
InDom(e, v) ==
  CASE e.op \in {"var", "const"} -> TRUE
    [] e.op \in {"add", "sub", "mul"} -> InDom(e.a[1], v) /\ InDom(e.a[2], v)
    [] e.op = "div" -> InDom(e.a[1], v) /\ InDom(e.a[2], v) /\ Eval(e.a[2], v) # "0"
    [] e.op = "pow" -> InDom(e.a[1], v) /\ InDom(e.a[2], v) /\
                       (IF IsConst(e.a[2]) /\ RIsInt(e.a[2].v) THEN (RLe("0", e.a[2].v) \/ Eval(e.a[1], v) # "0")
                        ELSE RLt("0", Eval(e.a[1], v)))
    [] e.op \in {"sqrt"} -> InDom(e.a[1], v) /\ RLt("0", Eval(e.a[1], v))
    [] e.op = "log" -> InDom(e.a[1], v) /\ RLt("0", Eval(e.a[1], v))
    [] e.op \in {"arcsin", "arccos", "arctanh"} -> InDom(e.a[1], v) /\ RLt(RAbs(Eval(e.a[1], v)), "1")
    [] e.op = "arccosh" -> InDom(e.a[1], v) /\ RLt("1", Eval(e.a[1], v))
    [] e.op = "kn" -> InDom(e.a[1], v) /\ RLt("0", Eval(e.a[1], v))
    [] OTHER -> InDom(e.a[1], v)

\* ------------------------------------------------------------------ rounding scales
\* the same recursions with absolute values at every node: upper bounds on the magnitude of the terms that
\* enter the value / the gradient before cancellations.  Used only to scale absolute tolerances.
RECURSIVE AVal(_, _)
AVal(e, v) ==
  CASE e.op = "var"   -> RAbs(v[e.i])
    [] e.op = "const" -> RAbs(e.v)
    [] e.op \in {"add", "sub"} -> RAdd(AVal(e.a[1], v), AVal(e.a[2], v))
    [] e.op \in {"mul", "div", "pow"} -> RAdd(RAbs(Eval(e, v)), RAdd(AVal(e.a[1], v), AVal(e.a[2], v)))
    [] e.op \in Unary \cup {"kn"} -> RAdd(RAbs(Eval(e, v)), AVal(e.a[1], v))

RECURSIVE AGrad(_, _)
AGrad(e, v) ==
  LET n == Len(v) IN
  CASE e.op = "var"   -> Unit(n, e.i)
    [] e.op = "const" -> Zeros(n)
    [] e.op \in {"add", "sub"} -> RAddSeq(AGrad(e.a[1], v), AGrad(e.a[2], v))
    [] e.op = "mul"   -> RAddSeq(RScaleSeq(RAbs(Eval(e.a[2], v)), AGrad(e.a[1], v)), RScaleSeq(RAbs(Eval(e.a[1], v)), AGrad(e.a[2], v)))
    [] e.op = "div"   -> LET x == Eval(e.a[1], v)  y == Eval(e.a[2], v) IN
                         RAddSeq(RScaleSeq(RAbs(RDiv("1", y)), AGrad(e.a[1], v)), RScaleSeq(RAbs(RDiv(x, RSq(y))), AGrad(e.a[2], v)))
    [] e.op = "pow"   -> LET x == Eval(e.a[1], v)  y == Eval(e.a[2], v)
                             dx == RAbs(RMul(y, RPow(RAbs(x), RSub(y, "1"))))
                             dy == IF IsConst(e.a[2]) THEN "0" ELSE RAbs(RMul(RPow(x, y), RLog(x)))
                         IN RAddSeq(RScaleSeq(dx, AGrad(e.a[1], v)), RScaleSeq(dy, AGrad(e.a[2], v)))
    [] e.op \in Unary -> RScaleSeq(RAbs(DFn(e.op, Eval(e.a[1], v))), AGrad(e.a[1], v))
    [] e.op = "kn"    -> RScaleSeq(RAbs(DKn(e.n, Eval(e.a[1], v))), AGrad(e.a[1], v))

\* ------------------------------------------------------------------ complex expressions
\* leaves: [op |-> "cvar", re |-> i, im |-> j]  (indices of real leaves; 0 = that part is absent/zero)
\*         [op |-> "rvar", i |-> k]   a real leaf used inside a complex expression
\*         [op |-> "cconst", re |-> r, im |-> r]
\* ops: add sub mul div neg conj
Leaf(i) == IF i = 0 THEN C("0") ELSE [op |-> "var", i |-> i]

RECURSIVE Complexify(_)
Complexify(e) ==
  CASE e.op = "cvar"   -> [re |-> Leaf(e.re), im |-> Leaf(e.im)]
    [] e.op = "rvar"   -> [re |-> Leaf(e.i), im |-> C("0")]
    [] e.op = "cconst" -> [re |-> C(e.re), im |-> C(e.im)]
    [] e.op = "add"    -> LET x == Complexify(e.a[1]) y == Complexify(e.a[2]) IN [re |-> B("add", x.re, y.re), im |-> B("add", x.im, y.im)]
    [] e.op = "sub"    -> LET x == Complexify(e.a[1]) y == Complexify(e.a[2]) IN [re |-> B("sub", x.re, y.re), im |-> B("sub", x.im, y.im)]
    [] e.op = "mul"    -> LET x == Complexify(e.a[1]) y == Complexify(e.a[2]) IN
                          [re |-> B("sub", B("mul", x.re, y.re), B("mul", x.im, y.im)),
                           im |-> B("add", B("mul", x.im, y.re), B("mul", x.re, y.im))]
    [] e.op = "div"    -> LET x == Complexify(e.a[1]) y == Complexify(e.a[2])
                              r == B("add", B("mul", y.re, y.re), B("mul", y.im, y.im)) IN
                          [re |-> B("div", B("add", B("mul", x.re, y.re), B("mul", x.im, y.im)), r),
                           im |-> B("div", B("sub", B("mul", x.im, y.re), B("mul", x.re, y.im)), r)]
    [] e.op = "neg"    -> LET x == Complexify(e.a[1]) IN [re |-> U("neg", x.re), im |-> U("neg", x.im)]
    [] e.op = "conj"   -> LET x == Complexify(e.a[1]) IN [re |-> x.re, im |-> U("neg", x.im)]

\* the set of leaf indices an expression really uses
RECURSIVE Vars(_)
Vars(e) == CASE e.op = "var" -> {e.i}
             [] e.op = "const" -> {}
             [] OTHER -> UNION {Vars(e.a[k]) : k \in DOMAIN e.a}
=============================================================================
