------------------------------- MODULE MatOps -------------------------------
(***************************************************************************)
(* Matrices of observables for property C10.  An entry is a slot           *)
(* [v, d]: central value and fluctuations laid out on the common list of   *)
(* (chain, configuration) pairs of all matrices of a case.  The product,   *)
(* sum and scalar operations below are the first-order (linear) error      *)
(* propagation - value by exact arithmetic on the central values,          *)
(* fluctuations by the product rule.  Identities such as A A^-1 = 1 are    *)
(* then statements about slots: value AND every fluctuation.               *)
(* A complex matrix is a pair [re, im] of such matrices.                   *)
(***************************************************************************)
EXTENDS Num, Sequences, FiniteSets, SequencesExt, TLC

SZero(n) == [v |-> "0", d |-> [k \in 1..n |-> "0"]]
SOne(n)  == [v |-> "1", d |-> [k \in 1..n |-> "0"]]
SAdd(x, y) == [v |-> RAdd(x.v, y.v), d |-> RAddSeq(x.d, y.d)]
SNeg(x) == [v |-> RNeg(x.v), d |-> RScaleSeq("-1", x.d)]
SSub(x, y) == SAdd(x, SNeg(y))
SMul(x, y) == [v |-> RMul(x.v, y.v), d |-> RAddSeq(RScaleSeq(y.v, x.d), RScaleSeq(x.v, y.d))]
SScale(c, x) == [v |-> RMul(c, x.v), d |-> RScaleSeq(c, x.d)]
RECURSIVE SSum(_, _)
SSum(s, n) == IF s = <<>> THEN SZero(n) ELSE SAdd(Head(s), SSum(Tail(s), n))

Rows(A) == Len(A)
Cols(A) == Len(A[1])
DLen(A) == Len(A[1][1].d)
MMul(A, B) == LET n == DLen(A) IN
              [i \in 1..Rows(A) |-> [j \in 1..Cols(B) |-> SSum([k \in 1..Cols(A) |-> SMul(A[i][k], B[k][j])], n)]]
MAdd(A, B) == [i \in 1..Rows(A) |-> [j \in 1..Cols(A) |-> SAdd(A[i][j], B[i][j])]]
MSub(A, B) == [i \in 1..Rows(A) |-> [j \in 1..Cols(A) |-> SSub(A[i][j], B[i][j])]]
MT(A) == [j \in 1..Cols(A) |-> [i \in 1..Rows(A) |-> A[i][j]]]
MId(m, n) == [i \in 1..m |-> [j \in 1..m |-> IF i = j THEN SOne(n) ELSE SZero(n)]]
MDiag(s, n) == [i \in DOMAIN s |-> [j \in DOMAIN s |-> IF i = j THEN s[i] ELSE SZero(n)]]
MCol(A, j) == [i \in 1..Rows(A) |-> <<A[i][j]>>]
\* complex: [re, im]
CMMul(A, B) == [re |-> MSub(MMul(A.re, B.re), MMul(A.im, B.im)), im |-> MAdd(MMul(A.re, B.im), MMul(A.im, B.re))]
CMId(m, n) == [re |-> MId(m, n), im |-> [i \in 1..m |-> [j \in 1..m |-> SZero(n)]]]
CMH(A) == [re |-> MT(A.re), im |-> [i \in 1..Cols(A.im) |-> [j \in 1..Rows(A.im) |-> SNeg(A.im[j][i])]]]

\* determinant by cofactor expansion along the first row, on slots
MMinor(A, j) == [r \in 1..(Rows(A) - 1) |-> [c \in 1..(Cols(A) - 1) |-> A[r + 1][IF c < j THEN c ELSE c + 1]]]
RECURSIVE SDet(_)
SDet(A) == IF Rows(A) = 1 THEN A[1][1]
           ELSE SSum([j \in 1..Cols(A) |-> LET t == SMul(A[1][j], SDet(MMinor(A, j))) IN IF j % 2 = 1 THEN t ELSE SNeg(t)], DLen(A))

\* closeness of slot matrices: values and fluctuations
SClose(x, y, rtol, atolv, atold) == RClose(x.v, y.v, rtol, atolv) /\ RCloseSeq(x.d, y.d, rtol, atold)
MClose(A, B, rtol, atolv, atold) == Rows(A) = Rows(B) /\ Cols(A) = Cols(B) /\ \A i \in 1..Rows(A) : \A j \in 1..Cols(A) : SClose(A[i][j], B[i][j], rtol, atolv, atold)
MaxV(A) == FoldSeq(LAMBDA row, acc : FoldSeq(LAMBDA x, a2 : RMax(a2, RAbs(x.v)), acc, row), "0", A)
MaxD(A) == FoldSeq(LAMBDA row, acc : FoldSeq(LAMBDA x, a2 : RMax(a2, RMaxAbsSeq(x.d)), acc, row), "0", A)
=============================================================================
