CONSTANTS
  MaxK = 3
  MaxLen = 3
INIT Init
NEXT Next
CHECK_DEADLOCK FALSE
