---------------------------- MODULE FormatTrace ----------------------------
(***************************************************************************)
(* Property C19: the printed form value(error) of an analysed observable,  *)
(* read back from its CHARACTERS, recovers value and error within half a   *)
(* unit of the last printed digit; the error shows the requested number of *)
(* significant digits; flags touch only the leading character; prior       *)
(* strings carry exactly that value and error; scalar views use exactly    *)
(* value and error.  All arithmetic on the exact rationals of the doubles. *)
(***************************************************************************)
EXTENDS ValErr, TraceBase, FiniteSets
VARIABLE l

\* number of significant digits shown for the error: digits without the point and without leading zeros
Digits(t) == LET ch == SelectSeq(StrChars(t), LAMBDA c : c # ".")
                 RECURSIVE Lead(_)
                 Lead(q) == IF q = <<>> THEN 0 ELSE IF Head(q) = "0" THEN 1 + Lead(Tail(q)) ELSE 0
             IN Len(ch) - Lead(ch)
HalfUnitSlack == "1000000001/2000000000"          \* 1/2 (1 + 1e-9): the error is scaled in floating point before rounding

CheckFmt(id, c) ==
  LET s == c.s  sig == c.sig IN
  IF ~HasShape(s) \/ ~StrIsDecimal(VText(s)) \/ ~StrIsDecimal(EText(s)) THEN Verdict(id, "shape value(error)", FALSE)
  ELSE LET u == Unit(s)  v == ParsedV(s)  e == ParsedE(s)  nd == Digits(EText(s))  dV == StrDecimals(VText(s)) IN
  /\ Verdict(id, "value within half a unit", RLe(RAbs(RSub(v, c.value)), RMul(HalfUnitSlack, u)))
  /\ Verdict(id, "error within half a unit", RLe(RAbs(RSub(e, c.dvalue)), RMul(HalfUnitSlack, u)))
  /\ Verdict(id, "error decimals = value decimals", ~StrContains(EText(s), ".") \/ StrDecimals(EText(s)) = dV)
  /\ Verdict(id, "significant digits of the error",
             IF dV > 0 THEN nd \in {sig, sig + 1}
             ELSE nd >= sig /\ (nd <= sig + 1 \/ RLe(RPowInt("10", sig), RMul(c.dvalue, "1000000001/1000000000"))))
  /\ Verdict(id, "error positive", RLt("0", e))

CheckCase(c) ==
  LET id == c.id IN
  CASE c.ev = "fmt"   -> CheckFmt(id, c)
    [] c.ev = "flag"  -> \* a sign / padding flag only puts that character in front of a non-negative number
         Verdict(id, "flag affects only the leading character",
                 c.flagged = (IF StrStartsWith(c.plain, "-") THEN c.plain ELSE StrCat(c.flag, c.plain)))
    [] c.ev = "cfmt"  -> \* complex: "(" re sign im "j)" with both parts printed as above
         LET s == c.s IN
         /\ Verdict(id, "complex shape", StrStartsWith(s, "(") /\ StrSub(s, StrLen(s) - 1, StrLen(s)) = "j)")
         /\ Verdict(id, "complex parts", s = StrCat(StrCat(StrCat("(", c.re), IF StrStartsWith(c.im, "-") THEN c.im ELSE StrCat("+", c.im)), "j)"))
    [] c.ev = "plain" -> \* no error: the plain value, which reads back exactly
         /\ Verdict(id, "plain decimal", StrIsDecimal(c.s))
         /\ Verdict(id, "plain value reads back exactly", StrIsDecimal(c.s) => REq(RRoundToDouble(StrParseDecimal(c.s)), c.value))
    [] c.ev = "prior" -> \* a string value(error) accepted as prior carries exactly that value and error
         IF c.res.k = "exc" THEN Verdict(id, "prior string rejected", FALSE)
         ELSE /\ Verdict(id, "prior value", RClose(c.res.v, ParsedV(c.s), "1/1000000000000000", "0"))
              /\ Verdict(id, "prior error", RClose(c.res.e, ParsedE(c.s), "1/100000000000000", "0"))
    [] c.ev = "views" ->
         /\ Verdict(id, "float", c.flt = c.value)
         /\ Verdict(id, "lt", c.lt = RLt(c.value, c.x)) /\ Verdict(id, "le", c.le = RLe(c.value, c.x))
         /\ Verdict(id, "gt", c.gt = RLt(c.x, c.value)) /\ Verdict(id, "ge", c.ge = RLe(c.x, c.value))
         /\ \A k \in DOMAIN c.zw :
              LET want == RLe(RAbs(c.value), RMul(c.zw[k].sigma, c.dvalue)) IN
              IF c.zw[k].res = want THEN TRUE
              \* named deviation (recorded finding): the shortcut through is_zero() and its absolute tolerance of 1e-10
              ELSE IF c.zw[k].res /\ c.iszero /\ RLt(RAbs(c.value), "1/10000000000")
                   THEN Known(id, "is_zero_within_error counts an observable whose value and fluctuations are all below 1e-10 as zero, however many standard errors away it is")
              ELSE Verdict(id, "zero-within-n-sigma", FALSE)
    [] c.ev = "plottable" ->
         /\ Verdict(id, "plottable.x", c.xs = c.defined)
         /\ Verdict(id, "plottable.y", c.ys = c.values)
         /\ Verdict(id, "plottable.yerr", c.yerrs = c.dvalues)
    [] c.ev = "raised" -> Verdict(id, "raised:" \o c.t, FALSE)
    [] OTHER -> Verdict(id, "unknown-event", FALSE)

Init == l = 1 /\ LoadCases
Next == /\ l <= NCases
        /\ CheckCase(Cases[l])
        /\ Consumed(l)
        /\ l' = l + 1
=============================================================================
