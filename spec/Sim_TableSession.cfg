CONSTANTS
  Tables = {"t1", "t2"}
  Names = {"a", "a.csv", "a.csv.gz", "b.gz", "c.x"}
  NFrames = 3
  MaxPool = 12
  MaxRows = 1000
  MaxDepth = 0
SPECIFICATION Spec
INVARIANT TypeOK
INVARIANT GzIsNamedGz
CHECK_DEADLOCK FALSE
