CONSTANTS
  Decades <- DecSmall
  Sigs = {1, 2, 3}
INIT Init
NEXT Next
CHECK_DEADLOCK FALSE
