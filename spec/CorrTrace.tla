----------------------------- MODULE CorrTrace -----------------------------
(***************************************************************************)
(* Trace specification for property C14 (correlator arithmetic acts        *)
(* timeslice-wise and propagates undefined slices; index transformations   *)
(* are the stated maps; nothing mutates operands or arguments) and for     *)
(* property C15 (derived quantities, module CorrDerived).                  *)
(***************************************************************************)
EXTENDS CorrArith, CorrCompare, CorrDerived, TraceBase
VARIABLE l

\* judge an observed result (correlator or exception) against the expected correlator
Judge(id, what, res, exp, sc) ==
  IF AllNone(exp) THEN Verdict(id, what \o ": result undefined everywhere (exception or all-undefined correlator accepted)",
                               res.k = "exc" \/ (res.k = "corr" /\ AllNone(res.c)))
  ELSE IF res.k # "corr" THEN Verdict(id, what \o ": result-kind " \o res.k \o (IF res.k = "exc" THEN ":" \o res.t ELSE ""), FALSE)
  ELSE /\ Verdict(id, what \o ": T", res.c.T = exp.T)
       /\ Verdict(id, what \o ": N", res.c.N = exp.N)
       /\ res.c.T = exp.T =>
            /\ Verdict(id, what \o ": undefined timeslices", MaskOf(res.c) = MaskOf(exp))
            /\ MaskOf(res.c) = MaskOf(exp) => Verdict(id, what \o ": entries", \A t \in 1..exp.T : SliceClose(res.c.content[t], exp.content[t], sc))

Normalise(v) == LET nrm == RSqrt(RDot(v, v)) IN RScaleSeq(RDiv("1", nrm), v)
ProjectedList(c, vls, vrs, norm, n) == MkCorr(c.T, 1, LAMBDA t :
     IF IsNone(At(c, t)) \/ vls[t + 1].k = "none" \/ vrs[t + 1].k = "none" THEN None
     ELSE LET vl == IF norm THEN Normalise(vls[t + 1].v) ELSE vls[t + 1].v
              vr == IF norm THEN Normalise(vrs[t + 1].v) ELSE vrs[t + 1].v
              w == [i \in 1..c.N |-> [j \in 1..c.N |-> RMul(vl[i], vr[j])]]
          IN Mat(<<<<Apply(LinExpr(w, c.N), Flat(At(c, t).m, c.N), n)>>>>))

IndexOp(c, n) ==
  LET a == c.a  g == c.args IN
  CASE c.method = "roll" -> Roll(a, g.dt)
    [] c.method = "reverse" -> TReverse(a)
    [] c.method = "thin" -> Thin(a, g.spacing, g.offset)
    [] c.method = "item" -> Item(a, g.i + 1, g.j + 1)
    [] c.method = "symmetric" -> Symm(a, 1, n)
    [] c.method = "anti_symmetric" -> Symm(a, -1, n)
    [] c.method = "T_symmetry" -> TSym(a, g.partner, g.parity, n)
    [] c.method = "trace" -> Trace(a, n)
    [] c.method = "matrix_symmetric" -> MatSym(a, n)
    [] c.method = "Hankel" -> Hankel(a, g.N, g.periodic)
    [] c.method = "projected" -> ProjectedList(a, g.vl, g.vr, g.normalize, n)

\* ---- derived quantities (C15) -----------------------------------------------------------------------------------
DefinedIn(a, lo, hi) == SetToSortSeq({t \in lo..hi : t >= 0 /\ t <= a.T - 1 /\ ~IsNone(At(a, t))}, <)
CheckRoot(id, c) ==    \* m_eff variants cosh / periodic / sinh
  LET a == c.a  n == c.n  kind == IF c.variant = "sinh" THEN "sinh" ELSE "cosh"  half == RDiv(RFromInt(a.T), "2") IN
  IF c.res.k # "corr" THEN
       Verdict(id, "m_eff " \o c.variant \o ": raised although an output timeslice is defined",
               ~\E t \in 0..(a.T - 2) : RootDefined(a, kind, t) /\ ~(kind = "sinh" /\ SinhMiddle(a, t)))
  ELSE LET r == c.res.c IN
  /\ Verdict(id, "m_eff: T", r.T = a.T /\ r.N = 1)
  /\ r.T = a.T => \A t \in 0..(a.T - 1) :
       IF kind = "sinh" /\ SinhMiddle(a, t) /\ t <= a.T - 2 /\ ~IsNone(At(a, t)) /\ ~IsNone(At(a, t + 1)) /\ Entry(a, t + 1, 1, 1).v # "0"
       THEN Verdict(id, "m_eff sinh: middle timeslices copy their predecessor", t = 0 \/ At(r, t) = At(r, t - 1))
       \* odd T, cosh: at 2t + 1 = T the ratio is identically 1 for every mass - no verdict on that timeslice
       ELSE IF kind = "cosh" /\ 2 * t + 1 = a.T THEN TRUE
       ELSE IF ~RootDefined(a, kind, t) THEN Verdict(id, "m_eff: must be undefined where a referenced timeslice is undefined", IsNone(At(r, t)))
       ELSE IF IsNone(At(r, t)) THEN Verdict(id, "m_eff: undefined although the referenced timeslices are defined", FALSE)
       ELSE LET m == Entry(r, t, 1, 1)
                aa == RSub(RFromInt(t), half)  bb == RAdd(aa, "1")
                d == RatioSlot(a, t, n)
                gp == RatioDm(kind, m.v, aa, bb)
            IN /\ Verdict(id, "m_eff: root is non-negative", m.k = "r" /\ RLe("0", m.v))
               /\ Verdict(id, "m_eff: root equation", RClose(RatioFn(kind, m.v, aa, bb), d.v, "1/10000000", "1/1000000000"))
               /\ Verdict(id, "m_eff: fluctuations by the inverse-function rule",
                          RCloseSeq(m.d, RScaleSeq(RDiv("1", gp), d.d), "1/100000", RMul("1/100000000", RAbs(RDiv(RMaxAbsSeq(d.d), gp)))))

CheckPlateau(id, c) ==
  LET a == c.a  ts == DefinedIn(a, c.lo, c.hi) IN
  IF ts = <<>> THEN Verdict(id, "plateau: no defined timeslice in the range must raise", c.res.k = "exc")
  ELSE IF c.res.k # "slot" THEN Verdict(id, "plateau: result-kind " \o c.res.k, FALSE)
  ELSE LET w == IF c.method = "fit" THEN [k \in DOMAIN ts |-> RDiv("1", RSq(c.dv[ts[k] + 1]))] ELSE [k \in DOMAIN ts |-> "1"]
           exp == WeightedMean(a, ts, w, c.n)
           tol == IF c.method = "fit" THEN "1/10000000" ELSE R9
           \* the scale of the tolerance is that of the data entering the mean, not of the (possibly cancelling) mean itself
           sc == RMaxAbsSeq([k \in DOMAIN ts |-> RAdd(RAbs(Entry(a, ts[k], 1, 1).v), RMaxAbsSeq(Entry(a, ts[k], 1, 1).d))])
       IN Verdict(id, "plateau " \o c.method, SlotClose(c.res.x, exp, tol, RMul(tol, sc)))

CheckDerived(id, c) ==
  IF c.what = "plateau" THEN CheckPlateau(id, c)
  ELSE IF c.what = "m_eff" /\ c.variant \in {"cosh", "periodic", "sinh"} THEN CheckRoot(id, c)
  ELSE Judge(id, c.what \o " " \o c.variant, c.res, ByFormula(c.a, Variant(c.what, c.variant), c.n), CorrScale(c.a))

CheckCase(c) ==
  LET id == c.id IN
  CASE c.ev = "arith" ->
         LET n == c.n  exp == Arith(c.a, c.op, c.p, c.selfleft, n) IN
         \* named deviation (recorded finding): the class offers no reflected power and no correlator exponent
         IF c.op = "pow" /\ (~c.selfleft \/ c.p.k = "corr") /\ c.res.k = "exc" /\ c.res.t = "TypeError"
         THEN Known(id, "x ** Corr and Corr ** Corr raise TypeError (no reflected power, no correlator exponent)")
         ELSE
         Judge(id, c.op, c.res, exp, RAdd(CorrScale(c.a), IF c.p.k = "corr" THEN CorrScale(c.p.c) ELSE SlotScale(c.p.x)))
    [] c.ev = "func" -> Judge(id, c.fn, c.res, Func(c.a, c.fn, c.n), "1")
    [] c.ev = "index" -> Judge(id, c.method, c.res, IndexOp(c, c.n), CorrScale(c.a))
    [] c.ev = "frame" ->   \* neither operands nor arguments are altered, and a second invocation gives the same result
         /\ Verdict(id, "operand or argument mutated", c.before = c.after)
         /\ Verdict(id, "second invocation differs", c.first = c.second)
    [] c.ev = "derived" -> CheckDerived(id, c)
    [] OTHER -> Verdict(id, "unknown-event", FALSE)

Init == l = 1 /\ LoadCases
Next == /\ l <= NCases
        /\ CheckCase(Cases[l])
        /\ Consumed(l)
        /\ l' = l + 1
=============================================================================
