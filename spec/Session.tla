------------------------------ MODULE Session ------------------------------
(***************************************************************************)
(* pyerrors as a state machine: the process-wide parameter slots, a pool   *)
(* of observables and the cache each observable keeps of its last error    *)
(* analysis.  Every public call is one atomic action (sequential library,  *)
(* linearization point = return of the call).                              *)
(*                                                                         *)
(* Data are abstract here: a primary observable is [k: "prim", id], a      *)
(* derived one is the TERM built from its operands - two objects with the  *)
(* same term have the same data.  The outcome of an error analysis is the  *)
(* record [data, P, fft]: "what was computed, from which data, with which  *)
(* effective parameters".  The numeric content of Derive and Analyse is    *)
(* specified in ObsCore and Gamma; this module specifies WHICH data and    *)
(* WHICH parameters every action uses - the history-independence part of   *)
(* property C03, the flag inheritance of C05, the closure part of C04.     *)
(*                                                                         *)
(* Binding: (R) behaviours of this module (tlc -simulate) are replayed     *)
(* action by action into real pyerrors and the abstract state is compared  *)
(* after every step (harness/props/c03.py); (T) SessionTrace.tla tracks    *)
(* the same variables along traces recorded from real code.                *)
(***************************************************************************)
EXTENDS Integers, Sequences, FiniteSets, SequencesExt, TLC

CONSTANTS EnsSet,      \* ensemble names
          PVals,       \* abstract parameter values (positive integers); 0 = "not given" / "no dictionary entry"
          MaxObj,      \* bound on the pool
          MaxDepth     \* bound on the length of behaviours explored exhaustively

VARIABLES objs,        \* sequence of [data, ens, rew]
          glob,        \* [S, T, N]            global defaults  (S, tau_exp, N_sigma)
          dict,        \* [S, T, N] each [EnsSet -> PVals \cup {0}]   per-ensemble dictionaries
          cache,       \* sequence aligned with objs: <<>> (never analysed) or [data, P, fft]
          last         \* the action that produced this state (read by the replayer; hidden from the VIEW)

vars == <<objs, glob, dict, cache, last>>
View == <<objs, glob, dict, cache>>
Params == {"S", "T", "N"}
NoneC == <<>>

Prim(i, e)  == [k |-> "prim", id |-> i, e |-> e]
Der(a, b)   == [k |-> "der", a |-> a, b |-> b]
Rw(w, a)    == [k |-> "rw", w |-> w, a |-> a]

\* is a reweighting anywhere in the ancestry of the data term
RECURSIVE Reweighted(_)
Reweighted(t) == CASE t.k = "prim" -> FALSE
                   [] t.k = "der"  -> Reweighted(t.a) \/ Reweighted(t.b)
                   [] t.k = "rw"   -> TRUE

\* effective parameter: explicit argument over per-ensemble dictionary over global default
Eff(arg, p, e) == IF arg[p] # 0 THEN arg[p] ELSE IF dict[p][e] # 0 THEN dict[p][e] ELSE glob[p]
EffParams(arg, E) == [e \in E |-> [p \in Params |-> Eff(arg, p, e)]]
Args == [S : PVals \cup {0}, T : PVals \cup {0}, N : PVals \cup {0}, fft : BOOLEAN]

Init == /\ objs = << [data |-> Prim(1, CHOOSE e \in EnsSet : TRUE), ens |-> {CHOOSE e \in EnsSet : TRUE}, rew |-> FALSE] >>
        /\ glob = [p \in Params |-> CHOOSE v \in PVals : \A w \in PVals : v <= w]
        /\ dict = [p \in Params |-> [e \in EnsSet |-> 0]]
        /\ cache = << NoneC >>
        /\ last = [a |-> "Init"]

NewPrimary(e) ==
  /\ Len(objs) < MaxObj
  /\ objs' = Append(objs, [data |-> Prim(Len(objs) + 1, e), ens |-> {e}, rew |-> FALSE])
  /\ cache' = Append(cache, NoneC)
  /\ last' = [a |-> "NewPrimary", e |-> e]
  /\ UNCHANGED <<glob, dict>>

SetGlobal(p, v) ==
  /\ glob[p] # v
  /\ glob' = [glob EXCEPT ![p] = v]
  /\ last' = [a |-> "SetGlobal", p |-> p, v |-> v]
  /\ UNCHANGED <<objs, dict, cache>>

SetDict(p, e, v) ==
  /\ dict[p][e] # v
  /\ dict' = [dict EXCEPT ![p][e] = v]
  /\ last' = [a |-> "SetDict", p |-> p, e |-> e, v |-> v]
  /\ UNCHANGED <<objs, glob, cache>>

DelDict(p, e) ==
  /\ dict[p][e] # 0
  /\ dict' = [dict EXCEPT ![p][e] = 0]
  /\ last' = [a |-> "DelDict", p |-> p, e |-> e]
  /\ UNCHANGED <<objs, glob, cache>>

\* error analysis of object i: the outcome is a function of ITS data and of the EFFECTIVE parameters only;
\* nothing else changes - in particular not the data, and not the cache of any other object
Gm(i, arg) ==
  /\ cache' = [cache EXCEPT ![i] = [data |-> objs[i].data, P |-> EffParams(arg, objs[i].ens), fft |-> arg.fft]]
  /\ last' = [a |-> "Gm", i |-> i, arg |-> arg]
  /\ UNCHANGED <<objs, glob, dict>>

\* arithmetic on (analysed or not) objects: the new data depend on the operands' data only
Derive(i, j) ==
  /\ Len(objs) < MaxObj
  /\ objs' = Append(objs, [data |-> Der(objs[i].data, objs[j].data), ens |-> objs[i].ens \cup objs[j].ens,
                           rew |-> objs[i].rew \/ objs[j].rew])
  /\ cache' = Append(cache, NoneC)
  /\ last' = [a |-> "Derive", i |-> i, j |-> j]
  /\ UNCHANGED <<glob, dict>>

\* reweighting of object i with the primary weight w (same single ensemble)
Reweight(w, i) ==
  /\ Len(objs) < MaxObj
  /\ objs[w].data.k = "prim" /\ objs[i].ens = objs[w].ens /\ Cardinality(objs[i].ens) = 1
  /\ objs' = Append(objs, [data |-> Rw(objs[w].data, objs[i].data), ens |-> objs[i].ens, rew |-> TRUE])
  /\ cache' = Append(cache, NoneC)
  /\ last' = [a |-> "Reweight", w |-> w, i |-> i]
  /\ UNCHANGED <<glob, dict>>

\* persistence: a copy through the json format carries the data and nothing of the analysis; a pickled / deep copy carries both
Reload(i) ==
  /\ Len(objs) < MaxObj
  /\ objs' = Append(objs, objs[i])
  /\ cache' = Append(cache, NoneC)
  /\ last' = [a |-> "Reload", i |-> i]
  /\ UNCHANGED <<glob, dict>>
Clone(i) ==
  /\ Len(objs) < MaxObj
  /\ objs' = Append(objs, objs[i])
  /\ cache' = Append(cache, cache[i])
  /\ last' = [a |-> "Clone", i |-> i]
  /\ UNCHANGED <<glob, dict>>

\* covariance of two pooled objects: an OBSERVATION.  It reads the data of both and the error each one's LAST analysis left in
\* its cache (the correlation is rescaled by those errors) - nothing else, and it changes nothing.  Without an analysis on record
\* for both it is refused.
Cov(i, j) ==
  /\ i <= j
  /\ last' = [a |-> "Cov", i |-> i, j |-> j,
              res |-> IF cache[i] # NoneC /\ cache[j] # NoneC THEN [k |-> "ok", of |-> <<cache[i], cache[j]>>] ELSE [k |-> "exc"]]
  /\ UNCHANGED <<objs, glob, dict, cache>>

Next == \/ \E e \in EnsSet : NewPrimary(e)
        \/ \E i \in DOMAIN objs : Reload(i)
        \/ \E i \in DOMAIN objs : Clone(i)
        \/ \E p \in Params, v \in PVals : SetGlobal(p, v)
        \/ \E p \in Params, e \in EnsSet, v \in PVals : SetDict(p, e, v)
        \/ \E p \in Params, e \in EnsSet : DelDict(p, e)
        \/ \E i \in DOMAIN objs, arg \in Args : Gm(i, arg)
        \/ \E i, j \in DOMAIN objs : Derive(i, j)
        \/ \E w, i \in DOMAIN objs : Reweight(w, i)
        \/ \E i, j \in DOMAIN objs : Cov(i, j)

Spec == Init /\ [][Next]_vars

\* ---- properties ---------------------------------------------------------------------------------
TypeOK == /\ Len(cache) = Len(objs) /\ Len(objs) <= MaxObj
          /\ \A p \in Params : glob[p] \in PVals /\ \A e \in EnsSet : dict[p][e] \in PVals \cup {0}
\* an analysis on record was computed from the data the object has now (the data never change)
CacheIsOfCurrentData == \A i \in DOMAIN objs : cache[i] # NoneC => cache[i].data = objs[i].data
\* ... and covers exactly the object's ensembles, with values that were available
CacheParamsWellFormed == \A i \in DOMAIN objs : cache[i] # NoneC =>
     /\ DOMAIN cache[i].P = objs[i].ens
     /\ \A e \in objs[i].ens : \A p \in Params : cache[i].P[e][p] \in PVals
\* the reweighted flag is exactly "a reweighting occurs in the ancestry"
ReweightedInherited == \A i \in DOMAIN objs : objs[i].rew = Reweighted(objs[i].data)
\* objects are never altered or dropped: the pool only grows (action property)
PoolOnlyGrows == [][IsPrefix(objs, objs')]_vars
\* an analysis touches the cache of the analysed object only, and no parameter slot
GmTouchesOnlyItsCache == [][\A i \in DOMAIN cache : (i \in DOMAIN cache' /\ cache'[i] # cache[i]) =>
                               (last'.a = "Gm" /\ last'.i = i /\ glob' = glob /\ dict' = dict /\ objs' = objs)]_vars
\* parameter precedence: whatever is cached for an ensemble is the explicit argument, else the dictionary
\* entry, else the global default, as they were when the analysis ran
Precedence == [][last'.a = "Gm" => LET i == last'.i  arg == last'.arg IN
                   \A e \in objs[i].ens : \A p \in Params :
                      cache'[i].P[e][p] = IF arg[p] # 0 THEN arg[p] ELSE IF dict[p][e] # 0 THEN dict[p][e] ELSE glob[p]]_vars
\* new data depend on operand data only: deriving from an analysed and from a never-analysed copy gives the same term
DeriveIgnoresCache == [][last'.a = "Derive" => objs'[Len(objs')].data = Der(objs[last'.i].data, objs[last'.j].data)]_vars

\* a copy has the data of its source; its analysis is the source's for a clone and absent after a reload, whatever the parameter slots say now
CopiesCarryData == [][last'.a \in {"Reload", "Clone"} =>
                        /\ objs'[Len(objs')] = objs[last'.i]
                        /\ cache'[Len(cache')] = IF last'.a = "Clone" THEN cache[last'.i] ELSE NoneC]_vars

\* a covariance request is a pure observation of the two caches as they are now: whatever analyses, slot changes or copies came
\* before, it sees the LAST analysis of exactly these two objects (their data and effective parameters), and is refused iff one is missing
CovIsAnObservation == [][last'.a = "Cov" =>
                           /\ UNCHANGED <<objs, glob, dict, cache>>
                           /\ (last'.res.k = "exc") = (cache[last'.i] = NoneC \/ cache[last'.j] = NoneC)
                           /\ last'.res.k = "ok" => /\ last'.res.of[1].data = objs[last'.i].data /\ last'.res.of[2].data = objs[last'.j].data
                                                    /\ last'.res.of = <<cache[last'.i], cache[last'.j]>>]_vars

Bounded == TLCGet("level") <= MaxDepth
\* simulation only (Sim_Session.cfg): a change of a parameter slot is followed by an analysis, so that generated behaviours
\* spend their steps on what the machine is about instead of on runs of slot changes
ParamActs == {"SetGlobal", "SetDict", "DelDict"}
SimBias == /\ last.a \in ParamActs => last'.a = "Gm"
           /\ last.a = "Cov" => last'.a # "Cov"
=============================================================================
