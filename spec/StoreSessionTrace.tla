------------------------- MODULE StoreSessionTrace -------------------------
(***************************************************************************)
(* Trace specification of the persistence state machine StoreSession: a    *)
(* recorded history (reset, then one event per transport call with its     *)
(* arguments, the observed outcome, the identity and analysed flag of a    *)
(* loaded document and the directory listing after the call) is replayed   *)
(* through the very actions of StoreSession on the specification's own     *)
(* directory and pool.                                                     *)
(***************************************************************************)
EXTENDS StoreSession, TraceBase
VARIABLE l

ActionOf(c) ==
  CASE c.act = "Analyse"    -> Analyse(c.i)
    [] c.act = "DumpJson"   -> DumpJson(c.i, c.name, c.gz)
    [] c.act = "LoadJson"   -> LoadJson(c.name, c.gz)
    [] c.act = "DumpPickle" -> DumpPickle(c.i, c.name)
    [] c.act = "LoadPickle" -> LoadPickle(c.name)
Known_(c) == c.act \in {"Analyse", "DumpJson", "LoadJson", "DumpPickle", "LoadPickle"}
Addressed(c) == /\ c.act \in {"Analyse", "DumpJson", "DumpPickle"} => c.i \in DOMAIN pool
                /\ c.act \in {"LoadJson", "LoadPickle"} => Len(pool) < MaxPool
                /\ c.act # "Analyse" => c.name \in Names
Listing(fs) == {p \in Paths : fs[p].kind # "none"}

Step(c) ==
  IF c.ev = "reset" THEN /\ files' = [p \in Paths |-> NoFile] /\ pool' = [i \in 1..NDocs |-> Entry(i, FALSE)]
                         /\ last' = [a |-> "Init", out |-> "ok", i |-> 0, name |-> "", gz |-> FALSE]
  ELSE IF ~Known_(c) \/ ~Addressed(c) THEN Verdict(c.id, "the step is not an action of the machine here", FALSE) /\ UNCHANGED <<files, pool, last>>
  ELSE /\ ActionOf(c)
       /\ Verdict(c.id, c.act \o ": outcome " \o c.out \o " where the specification has " \o last'.out, c.out = last'.out)
       /\ (c.out = last'.out /\ last'.out = "doc") =>
             /\ Verdict(c.id, c.act \o ": the document stored last under the resolved path", c.doc = pool'[last'.i].doc)
             /\ Verdict(c.id, c.act \o ": analysis travels through pickle only", c.analysed = pool'[last'.i].analysed)
       /\ Verdict(c.id, c.act \o ": files in the directory after the call", {c.listing[k] : k \in DOMAIN c.listing} = Listing(files'))

TraceInit == /\ l = 1 /\ LoadCases
             /\ files = [p \in Paths |-> NoFile] /\ pool = [i \in 1..NDocs |-> Entry(i, FALSE)]
             /\ last = [a |-> "Init", out |-> "ok", i |-> 0, name |-> "", gz |-> FALSE]
TraceNext == /\ l <= NCases
             /\ Step(Cases[l])
             /\ Consumed(l)
             /\ l' = l + 1
=============================================================================
