---------------------------- MODULE MC_Resample ----------------------------
(* Theorems about the resampling transforms, on the specification alone: for every data word over Alphabet of     *)
(* length MinN..MaxN: UnJack(JackOf(x)) = x, the jackknife variance equals the naive (S=0) squared error of Gamma,  *)
(* and for every resampling table of a small universe the bootstrap determines the samples iff the count matrix     *)
(* has full column rank (Solve on the determined ones returns x).                                                   *)
EXTENDS Resample
CONSTANTS MinN, MaxN, Alphabet
VARIABLES n, word
Alpha3 == {-1, 0, 1}
None == <<>>
O == Construct(<<[name |-> "E", idl |-> [i \in 1..n |-> i], x |-> [i \in 1..n |-> RFromInt(word[i])]]>>)
Ready == word # None
RoundTrip == Ready => UnJack(JackOf(O.value, Xs(O))) = Xs(O)
Variance  == Ready => JackVar(JackOf(O.value, Xs(O))) = NaiveVar(O)
GammaS0   == Ready => NaiveIsGammaS0(O) /\ AllOnGrid(O.chains)
Entry0    == Ready => JackOf(O.value, Xs(O))[1] = O.value /\ Len(JackOf(O.value, Xs(O))) = n + 1
\* a cyclic-shift table {i, i, i+1, ...}: full rank; the all-equal table: rank 1
ShiftTable == [k \in 1..n |-> [p \in 1..n |-> IF p = 1 THEN (k - 1) ELSE (k + p - 2) % n]]
FlatTable  == [k \in 1..n |-> [p \in 1..n |-> p - 1]]
BootDetermined == Ready =>
    /\ ~Determined(FlatTable, n)
    /\ Determined(ShiftTable, n) =>
          LET b == BootOf(O.value, Xs(O), ShiftTable)
              sol == Solve(MatMul(Transpose(ProjMat(ShiftTable, n)), ProjMat(ShiftTable, n)),
                           [i \in 1..n |-> <<RMul(RFromInt(n), RDot(Col(ProjMat(ShiftTable, n), i), SubSeq(b, 2, n + 1)))>>])
          IN [i \in 1..n |-> sol[i][1]] = Xs(O)
Init == n = 0 /\ word = None
Next == \/ n = 0 /\ n' \in MinN..MaxN /\ UNCHANGED word
        \/ n # 0 /\ word = None /\ word' \in [1..n -> Alphabet] /\ UNCHANGED n
=============================================================================
