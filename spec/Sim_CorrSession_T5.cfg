CONSTANTS
  TLen = 5
  NPrim = 3
  NMat = 1
  MaxObj = 10
  MaxDepth = 0
SPECIFICATION Spec
INVARIANT TypeOK
INVARIANT Centred
CHECK_DEADLOCK FALSE
