CONSTANTS
  T = 6
INIT Init
NEXT Next
INVARIANT MaskUnion
INVARIANT Commutes
INVARIANT RollLaws
INVARIANT ReverseLaws
INVARIANT ThinLaws
INVARIANT SymmLaws
INVARIANT TSymLaws
INVARIANT HankelLaws
INVARIANT DerivLaws
INVARIANT SecondIsDerivOfDeriv
CHECK_DEADLOCK FALSE
