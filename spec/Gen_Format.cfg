CONSTANTS
  Decades <- DecAll
  Sigs = {1, 2, 3, 4, 5, 6}
INIT Init
NEXT Next
CHECK_DEADLOCK FALSE
