CONSTANTS
  Names = {"a", "a.json", "a.json.gz", "b.gz", "c.x"}
  NDocs = 3
  MaxPool = 12
  MaxDepth = 0
SPECIFICATION Spec
INVARIANT TypeOK
INVARIANT KindsMatchPaths
INVARIANT GzIsNamedGz
CHECK_DEADLOCK FALSE
