-------------------------------- MODULE Dirac --------------------------------
(***************************************************************************)
(* 4x4 complex matrices with rational entries [re, im] and the statements  *)
(* of property C20 about the constant tables of pyerrors.dirac: Euclidean  *)
(* Clifford algebra, Hermiticity, gamma5, the Grid tag table, and the      *)
(* epsilon tensors as permutation signs.                                   *)
(***************************************************************************)
EXTENDS Num, FiniteSets, TLC

CZero == [re |-> "0", im |-> "0"]
COne  == [re |-> "1", im |-> "0"]
CAdd(a, b) == [re |-> RAdd(a.re, b.re), im |-> RAdd(a.im, b.im)]
CSub(a, b) == [re |-> RSub(a.re, b.re), im |-> RSub(a.im, b.im)]
CMul(a, b) == [re |-> RSub(RMul(a.re, b.re), RMul(a.im, b.im)), im |-> RAdd(RMul(a.re, b.im), RMul(a.im, b.re))]
CScale(r, a) == [re |-> RMul(r, a.re), im |-> RMul(r, a.im)]
CConj(a) == [re |-> a.re, im |-> RNeg(a.im)]
Idx == 1..4
RECURSIVE CSum(_, _)
CSum(f, S) == IF S = {} THEN CZero ELSE LET k == CHOOSE x \in S : TRUE IN CAdd(f[k], CSum(f, S \ {k}))
MMul(A, B) == [i \in Idx |-> [j \in Idx |-> CSum([k \in Idx |-> CMul(A[i][k], B[k][j])], Idx)]]
MAdd(A, B) == [i \in Idx |-> [j \in Idx |-> CAdd(A[i][j], B[i][j])]]
MSub(A, B) == [i \in Idx |-> [j \in Idx |-> CSub(A[i][j], B[i][j])]]
MScale(r, A) == [i \in Idx |-> [j \in Idx |-> CScale(r, A[i][j])]]
MDagger(A) == [i \in Idx |-> [j \in Idx |-> CConj(A[j][i])]]
MOne == [i \in Idx |-> [j \in Idx |-> IF i = j THEN COne ELSE CZero]]
MZero == [i \in Idx |-> [j \in Idx |-> CZero]]
Is4x4(A) == DOMAIN A = Idx /\ \A i \in Idx : DOMAIN A[i] = Idx
Anti(A, B) == MAdd(MMul(A, B), MMul(B, A))
Comm(A, B) == MSub(MMul(A, B), MMul(B, A))

\* g: the four matrices gamma_x, gamma_y, gamma_z, gamma_t; g5; id - as dumped from the implementation
Clifford(g) == \A mu, nu \in 1..4 : Anti(g[mu], g[nu]) = (IF mu = nu THEN MScale("2", MOne) ELSE MZero)
Hermitian(g) == \A mu \in 1..4 : MDagger(g[mu]) = g[mu]
Gamma5IsProduct(g, g5) == g5 = MMul(MMul(MMul(g[1], g[2]), g[3]), g[4])
Gamma5Anticommutes(g, g5) == \A mu \in 1..4 : Anti(g5, g[mu]) = MZero
Gamma5Props(g5) == MDagger(g5) = g5 /\ MMul(g5, g5) = MOne

Tags == {"Identity", "Gamma5", "GammaX", "GammaY", "GammaZ", "GammaT", "GammaXGamma5", "GammaYGamma5", "GammaZGamma5",
         "GammaTGamma5", "SigmaXT", "SigmaXY", "SigmaXZ", "SigmaYT", "SigmaYZ", "SigmaZT"}
Sigma(g, mu, nu) == MScale("1/2", Comm(g[mu], g[nu]))
\* the stated product / commutator of every Grid tag, in terms of the base matrices
GridSpec(tag, g, g5) ==
  CASE tag = "Identity" -> MOne        [] tag = "Gamma5" -> g5
    [] tag = "GammaX" -> g[1]          [] tag = "GammaY" -> g[2]   [] tag = "GammaZ" -> g[3]   [] tag = "GammaT" -> g[4]
    [] tag = "GammaXGamma5" -> MMul(g[1], g5) [] tag = "GammaYGamma5" -> MMul(g[2], g5)
    [] tag = "GammaZGamma5" -> MMul(g[3], g5) [] tag = "GammaTGamma5" -> MMul(g[4], g5)
    [] tag = "SigmaXT" -> Sigma(g, 1, 4) [] tag = "SigmaXY" -> Sigma(g, 1, 2) [] tag = "SigmaXZ" -> Sigma(g, 1, 3)
    [] tag = "SigmaYT" -> Sigma(g, 2, 4) [] tag = "SigmaYZ" -> Sigma(g, 2, 3) [] tag = "SigmaZT" -> Sigma(g, 3, 4)

\* ---- epsilon tensors: sign of the permutation, 0 on repeated indices; defined on index sets inside
\* {1..n} or {0..n-1}, rejected elsewhere
Inversions(t) == Cardinality({p \in (DOMAIN t) \X (DOMAIN t) : p[1] < p[2] /\ t[p[1]] > t[p[2]]})
PermSign(t) == IF \E a, b \in DOMAIN t : a # b /\ t[a] = t[b] THEN 0 ELSE IF Inversions(t) % 2 = 0 THEN 1 ELSE -1
InDomain(t) == LET S == {t[k] : k \in DOMAIN t}  n == Len(t) IN S \subseteq 1..n \/ S \subseteq 0..(n - 1)
=============================================================================
