------------------------------- MODULE Str -------------------------------
(* Operators that open TLA+ strings (atomic for TLC).  Java: tlc2.module.Str *)
EXTENDS Integers, Sequences
StrLen(a)            == CHOOSE n \in Nat : TRUE
StrCat(a, b)         == CHOOSE s \in STRING : TRUE
StrBefore(a, sep)    == CHOOSE s \in STRING : TRUE   \* text before the first sep (all of a if absent)
StrAfter(a, sep)     == CHOOSE s \in STRING : TRUE   \* text after the first sep ("" if absent)
StrContains(a, sub)  == CHOOSE t \in BOOLEAN : TRUE
StrStartsWith(a, p)  == CHOOSE t \in BOOLEAN : TRUE
StrIndexOf(a, sub)   == CHOOSE n \in Nat : TRUE      \* 1-based, 0 if absent
StrSub(a, i, j)      == CHOOSE s \in STRING : TRUE   \* characters i..j
StrChars(a)          == CHOOSE s \in Seq(STRING) : TRUE
StrLess(a, b)        == CHOOSE t \in BOOLEAN : TRUE  \* code-point order (Python's str <)
StrIsDecimal(a)      == CHOOSE t \in BOOLEAN : TRUE
StrParseDecimal(a)   == CHOOSE r \in STRING : TRUE   \* exact rational (module Num) of a decimal text
StrReplace(x, a, b)  == CHOOSE s \in STRING : TRUE   \* every occurrence of a in x replaced by b
StrFromInt(i)        == CHOOSE s \in STRING : TRUE
StrDecimals(a)       == CHOOSE n \in Nat : TRUE      \* digits after the decimal point
=============================================================================
