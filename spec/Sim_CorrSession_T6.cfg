CONSTANTS
  TLen = 6
  NPrim = 3
  MaxObj = 9
  MaxDepth = 0
SPECIFICATION Spec
INVARIANT TypeOK
INVARIANT Centred
CHECK_DEADLOCK FALSE
