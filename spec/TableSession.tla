---------------------------- MODULE TableSession ----------------------------
(***************************************************************************)
(* The tabular transports as a state machine (beyond the listed            *)
(* properties; DESIGN 7): data frames with an observable-valued column go  *)
(* to sqlite tables (to_sql / read_sql) and to csv files (dump_df /        *)
(* load_df).                                                               *)
(*                                                                         *)
(* State: the database (table |-> rows, encoding of the observable column),*)
(* the directory of csv files, and the pool of frames of the process.  A   *)
(* frame is the sequence of the documents in its rows (a plain integer key *)
(* column travels with them) and whether its observables are analysed.     *)
(*                                                                         *)
(* What is specified:                                                      *)
(*  - to_sql: if_exists = fail raises on an existing table and leaves it   *)
(*    as it is, replace discards the earlier rows, append keeps them in    *)
(*    order in front of the new ones; a missing table is created;          *)
(*  - the observable column is stored gzipped or as text, per call; a      *)
(*    table that received both kinds cannot be read any more (the reader   *)
(*    decides by the first row) - a property of the implementation which   *)
(*    the specification states as it is (MixedIsUnreadable);               *)
(*  - read_sql returns all rows in order, raises on a missing table;       *)
(*  - dump_df writes  name[.csv][.gz]  (.csv appended unless already the   *)
(*    ending, then .gz for gzipped output unless already the ending),      *)
(*    load_df reads   name[.csv][.gz]  (.csv appended unless the name ends *)
(*    in .csv or .gz): the two rules meet for every name that does not end *)
(*    in .gz (RoundTripMeets) and miss each other for names that do;       *)
(*  - a gzipped csv read with gz = False is unzipped all the same (by the  *)
(*    ending of its name), a text csv read with gz = True raises;          *)
(*  - auto_gamma marks the loaded frame as analysed, nothing else does.    *)
(***************************************************************************)
EXTENDS Integers, Sequences, FiniteSets, Str, TLC

CONSTANTS Tables, Names, NFrames,   \* the pool starts with NFrames frames: frame i holds documents 2i-1, 2i (odd i) or 2i-1 (even i)
          MaxPool, MaxRows, MaxDepth
VARIABLES db, files, pool, last
vars == <<db, files, pool, last>>

EndsWith(s, suf) == StrLen(s) >= StrLen(suf) /\ StrSub(s, StrLen(s) - StrLen(suf) + 1, StrLen(s)) = suf
DumpPath(name, gz) ==
  LET f1 == IF EndsWith(name, ".csv") THEN name ELSE StrCat(name, ".csv")
  IN IF gz /\ ~EndsWith(f1, ".gz") THEN StrCat(f1, ".gz") ELSE f1
LoadPath(name, gz) ==
  LET f1 == IF ~EndsWith(name, ".csv") /\ ~EndsWith(name, ".gz") THEN StrCat(name, ".csv") ELSE name
  IN IF gz /\ ~EndsWith(f1, ".gz") THEN StrCat(f1, ".gz") ELSE f1
Paths == {DumpPath(n, g) : n \in Names, g \in BOOLEAN} \cup {LoadPath(n, g) : n \in Names, g \in BOOLEAN}

NoTable == [exists |-> FALSE, rows |-> <<>>, enc |-> "none"]
NoFile  == [kind |-> "none", rows |-> <<>>]
Frame(rows, an) == [rows |-> rows, analysed |-> an]
L(a, out, slot, t) == [a |-> a, out |-> out, slot |-> slot, t |-> t]

InitialRows(i) == IF i % 2 = 1 THEN <<2 * i - 1, 2 * i>> ELSE <<2 * i - 1>>
Init == /\ db = [t \in Tables |-> NoTable]
        /\ files = [p \in Paths |-> NoFile]
        /\ pool = [i \in 1..NFrames |-> Frame(InitialRows(i), FALSE)]
        /\ last = L("Init", "ok", 0, "")

Enc(gz) == IF gz THEN "gz" ELSE "text"
ToSql(i, t, mode, gz) ==
  LET old == db[t]  rows == pool[i].rows IN
  /\ UNCHANGED <<files, pool>>
  /\ IF old.exists /\ mode = "fail"
     THEN UNCHANGED db /\ last' = L("ToSql", "exc", 0, t)
     ELSE /\ Len(IF old.exists /\ mode = "append" THEN old.rows \o rows ELSE rows) <= MaxRows
          /\ db' = [db EXCEPT ![t] = IF old.exists /\ mode = "append"
                                     THEN [exists |-> TRUE, rows |-> old.rows \o rows, enc |-> IF old.enc = Enc(gz) THEN old.enc ELSE "mixed"]
                                     ELSE [exists |-> TRUE, rows |-> rows, enc |-> Enc(gz)]]
          /\ last' = L("ToSql", "ok", 0, t)

ReadSql(t, ag) ==
  /\ Len(pool) < MaxPool
  /\ UNCHANGED <<db, files>>
  /\ IF db[t].exists /\ db[t].enc # "mixed"
     THEN pool' = Append(pool, Frame(db[t].rows, ag)) /\ last' = L("ReadSql", "frame", Len(pool) + 1, t)
     ELSE UNCHANGED pool /\ last' = L("ReadSql", "exc", 0, t)

DumpDf(i, name, gz) ==
  /\ files' = [files EXCEPT ![DumpPath(name, gz)] = [kind |-> Enc(gz), rows |-> pool[i].rows]]
  /\ last' = L("DumpDf", "ok", 0, DumpPath(name, gz))
  /\ UNCHANGED <<db, pool>>

\* what a load finds under its path: a gzipped file is unzipped by its ending even when gz = False; a text file cannot be unzipped
Readable(f, gz) == f.kind = "gz" \/ (f.kind = "text" /\ ~gz)
LoadDf(name, gz, ag) ==
  LET f == files[LoadPath(name, gz)] IN
  /\ Len(pool) < MaxPool
  /\ UNCHANGED <<db, files>>
  /\ IF Readable(f, gz)
     THEN pool' = Append(pool, Frame(f.rows, ag)) /\ last' = L("LoadDf", "frame", Len(pool) + 1, LoadPath(name, gz))
     ELSE UNCHANGED pool /\ last' = L("LoadDf", "exc", 0, LoadPath(name, gz))

Modes == {"fail", "replace", "append"}
Next == \/ \E i \in DOMAIN pool, t \in Tables, m \in Modes, g \in BOOLEAN : ToSql(i, t, m, g)
        \/ \E t \in Tables, ag \in BOOLEAN : ReadSql(t, ag)
        \/ \E i \in DOMAIN pool, n \in Names, g \in BOOLEAN : DumpDf(i, n, g)
        \/ \E n \in Names, g \in BOOLEAN, ag \in BOOLEAN : LoadDf(n, g, ag)
Spec == Init /\ [][Next]_vars

\* ---- properties ---------------------------------------------------------------------------------------------------
TypeOK == /\ DOMAIN db = Tables /\ DOMAIN files = Paths /\ Len(pool) <= MaxPool
          /\ \A t \in Tables : db[t].enc \in {"none", "gz", "text", "mixed"} /\ (db[t].exists <=> db[t].enc # "none")
          /\ \A p \in Paths : files[p].kind \in {"none", "gz", "text"}
GzIsNamedGz == \A p \in Paths : (files[p].kind = "gz" => EndsWith(p, ".gz")) /\ (files[p].kind = "text" => EndsWith(p, ".csv"))
\* rows are never lost or reordered by an append, never kept by a replace, never touched by a refused write
IsPrefixOf(s, t) == Len(s) <= Len(t) /\ SubSeq(t, 1, Len(s)) = s
AppendKeeps == [][\A t \in Tables : (db[t].exists /\ db'[t] # db[t]) =>
                     \/ IsPrefixOf(db[t].rows, db'[t].rows)                          \* append
                     \/ \E i \in DOMAIN pool : db'[t].rows = pool[i].rows]_vars       \* replace
FailLeavesTable == [][(last'.a = "ToSql" /\ last'.out = "exc") => db' = db]_vars
MixedIsUnreadable == [][(last'.a = "ReadSql" /\ db[last'.t].enc = "mixed") => last'.out = "exc"]_vars
MixedOnlyByAppend == [][\A t \in Tables : (db'[t].enc = "mixed" /\ db[t].enc # "mixed") => db[t].exists /\ IsPrefixOf(db[t].rows, db'[t].rows)]_vars
ReadReturnsTable == [][(last'.a = "ReadSql" /\ last'.out = "frame") => pool'[last'.slot].rows = db[last'.t].rows]_vars
LoadReturnsLastDump == [][(last'.a = "LoadDf" /\ last'.out = "frame") => pool'[last'.slot].rows = files[last'.t].rows]_vars
\* writing and reading a csv with the same (name, gz) meet - for names that do not end in .gz
RoundTripMeets == \A n \in Names, g \in BOOLEAN : ~EndsWith(n, ".gz") => DumpPath(n, g) = LoadPath(n, g)
\* ... and miss each other for names that do, when the output is gzipped (the exporter appends .csv.gz, the importer nothing)
GzNamesMiss == \A n \in Names : EndsWith(n, ".gz") => DumpPath(n, TRUE) # LoadPath(n, TRUE)
OnlyAutoGammaAnalyses == [][\A i \in DOMAIN pool' : (i \notin DOMAIN pool /\ pool'[i].analysed) => last'.a \in {"ReadSql", "LoadDf"}]_vars
Bounded == TLCGet("level") <= MaxDepth
=============================================================================
