CONSTANTS
  TLen = 5
  NPrim = 3
  NMat = 1
  MaxObj = 4
  MaxDepth = 3
SPECIFICATION Spec
CONSTRAINT Bounded
INVARIANT TypeOK
INVARIANT Centred
PROPERTY DataNeverAltered
PROPERTY PoolOnlyGrows
PROPERTY OneAttributeAtATime
PROPERTY ArithMask
PROPERTY Inheritance
CHECK_DEADLOCK FALSE
