CONSTANTS
  TLen = 5
  NPrim = 3
  NMat = 1
  MaxObj = 5
  MaxDepth = 2
SPECIFICATION Spec
CONSTRAINT Bounded
INVARIANT TypeOK
INVARIANT Centred
PROPERTY DataNeverAltered
PROPERTY PoolOnlyGrows
PROPERTY CopiesCarryData
PROPERTY OneAttributeAtATime
PROPERTY ArithMask
PROPERTY Inheritance
CHECK_DEADLOCK FALSE
