----------------------------- MODULE Gen_Masks -----------------------------
(* (R) for C14 / C15: every pattern of undefined timeslices for the temporal extents Ts (at least one defined slice). *)
EXTENDS Integers, Sequences, FiniteSets, SequencesExt, Str, Json, IOUtils, TLC
CONSTANT Ts
MasksOf(T) == {m \in [1..T -> BOOLEAN] : \E t \in 1..T : ~m[t]}
All == UNION {{[T |-> T, mask |-> m] : m \in MasksOf(T)} : T \in Ts}
Scenarios == LET q == SetToSeq(All) IN [i \in DOMAIN q |-> [id |-> StrCat("mask-", StrFromInt(i)), T |-> q[i].T, mask |-> q[i].mask]]
ASSUME ndJsonSerialize(IOEnv.OUT_FILE, Scenarios)
ASSUME PrintT(<<"SCENARIOS", Len(Scenarios)>>)
VARIABLE dummy
Init == dummy = 0
Next == UNCHANGED dummy
=============================================================================
