CONSTANTS
  Ts = {4,5,6,7,8,9,10}
INIT Init
NEXT Next
CHECK_DEADLOCK FALSE
