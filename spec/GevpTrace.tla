----------------------------- MODULE GevpTrace -----------------------------
(***************************************************************************)
(* Property C16: the vectors returned by the generalised eigenvalue solver *)
(* satisfy G(t) v = lambda G(t0) v, are ordered by decreasing eigenvalue,  *)
(* agree between the two solution methods up to sign and normalisation,    *)
(* follow one state over time when sorted by eigenvector; for a matrix of  *)
(* exact exponentials the projected eigenvalue correlator is               *)
(* exp(-E_n (t - t0)); pruning keeps the lowest energies; the matrix       *)
(* pencil returns the energies of an exact multi-exponential correlator.   *)
(* Matrices and vectors are slot matrices of module MatOps (fluctuations   *)
(* present when uncertainties are propagated into the vectors).            *)
(***************************************************************************)
EXTENDS MatOps, TraceBase
VARIABLE l

T7 == "1/10000000"
Col1(v) == [i \in DOMAIN v |-> <<v[i]>>]                         \* vector (sequence of slots) as a column matrix
QuadS(v, G, w) == MMul(MMul(MT(Col1(v)), G), Col1(w))[1][1]      \* v^T G w as a slot
Sym(G) == LET n == DLen(G) IN [i \in 1..Rows(G) |-> [j \in 1..Cols(G) |-> SScale("1/2", SAdd(G[i][j], G[j][i]))]]
\* the Rayleigh quotient lambda = v^T G(t) v / v^T G(t0) v (central values)
Lambda(v, Gt, G0) == RDiv(QuadS(v, Gt, v).v, QuadS(v, G0, v).v)

\* eigen-equation for one vector at one time: || G(t) v - lambda G(t0) v || <= tol * scale, value and fluctuations
EigenEq(v, Gt, G0, tolv, told) ==
  LET lam == LET q == QuadS(v, G0, v)  p == QuadS(v, Gt, v) IN      \* lambda as a slot (quotient rule)
             [v |-> RDiv(p.v, q.v), d |-> RAddSeq(RScaleSeq(RDiv("1", q.v), p.d), RScaleSeq(RNeg(RDiv(p.v, RSq(q.v))), q.d))]
      lhs == MMul(Gt, Col1(v))
      rhs == [i \in 1..Rows(G0) |-> <<SMul(lam, MMul(G0, Col1(v))[i][1])>>]
  IN MClose(lhs, rhs, "0", tolv, told)

Parallel(v, w) == LET vv == RSumSeq([i \in DOMAIN v |-> RSq(v[i].v)])  ww == RSumSeq([i \in DOMAIN w |-> RSq(w[i].v)])
                      vw == RSumSeq([i \in DOMAIN v |-> RMul(v[i].v, w[i].v)])
                  IN RClose(RSq(vw), RMul(vv, ww), "1/1000000", "0")

CheckCase(c) ==
  LET id == c.id IN
  CASE c.ev = "gevp" ->     \* c.G: per timeslice [k "none"] | [k "m", m]; c.vecs[state][t+1]: [k "none"] | [k "v", v]
         IF c.res.k = "exc" THEN Verdict(id, "GEVP raised " \o c.res.t, FALSE)
         ELSE
         LET G0 == Sym(c.G[c.t0 + 1].m)
             scale(t) == RAdd("1/1000000000000000000000000", RMul(MaxV(c.G[t + 1].m), "1"))
             vec(s, t) == c.res.vecs[s][t + 1]
             times == {t \in (c.t0 + 1)..(c.T - 1) : c.G[t + 1].k = "m"}
         IN
         /\ Verdict(id, "one entry per state", Len(c.res.vecs) = c.N)
         /\ Verdict(id, "vectors defined exactly where t > t0 and the timeslice is defined",
                    \A s \in 1..c.N : \A t \in 0..(c.T - 1) : (vec(s, t).k = "v") <=> (t \in times))
         /\ \A s \in 1..c.N : \A t \in times : vec(s, t).k = "v" =>
                Verdict(id, "G(t) v = lambda G(t0) v",
                        EigenEq(vec(s, t).v, Sym(c.G[t + 1].m), G0, RMul("1/1000000", scale(t)),
                                \* the identity extends to the fluctuations only when uncertainties are propagated into the vectors
                                IF c.vobs THEN RMul("1/100000", RAdd(RMul(scale(t), "1/1000000"), RMul(RAdd(MaxD(c.G[t + 1].m), MaxD(c.G[c.t0 + 1].m)),
                                                                      RAdd("1", RMaxAbsSeq([i \in DOMAIN vec(s, t).v |-> vec(s, t).v[i].v])))))
                                ELSE "1000000000000000000000000000000"))
         /\ c.sort = "Eigenvalue" => \A t \in times : \A s \in 1..(c.N - 1) : (vec(s, t).k = "v" /\ vec(s + 1, t).k = "v") =>
                Verdict(id, "states ordered by decreasing eigenvalue",
                        RLe(Lambda(vec(s + 1, t).v, Sym(c.G[t + 1].m), G0), RMul(Lambda(vec(s, t).v, Sym(c.G[t + 1].m), G0), "10000001/10000000")))
         /\ c.sort = "Eigenvector" => \A s \in 1..c.N : \A t \in times : (c.exact /\ vec(s, t).k = "v" /\ vec(s, c.ts).k = "v") =>
                Verdict(id, "eigenvector sorting follows one state over time", Parallel(vec(s, t).v, vec(s, c.ts).v))
    [] c.ev = "pair" ->      \* two solution methods: same vectors up to sign and normalisation
         \A s \in DOMAIN c.a : \A t \in DOMAIN c.a[s] :
            Verdict(id, "eigh and cholesky agree up to sign and normalisation",
                    (c.a[s][t].k = c.b[s][t].k) /\ (c.a[s][t].k = "v" => Parallel(c.a[s][t].v, c.b[s][t].v)))
    [] c.ev = "spectrum" ->  \* projected eigenvalue correlator of an exact N-exponential matrix: exp(-E_n (t - t0))
         \A s \in DOMAIN c.lam : \A t \in DOMAIN c.lam[s] : c.lam[s][t].k = "x" =>
            Verdict(id, c.what \o ": eigenvalue correlator = exp(-E_n (t - t0))",
                    RClose(c.lam[s][t].x, RExp(RNeg(RMul(c.E[s], RFromInt(t - 1 - c.t0)))), "1/100000", "1/1000000000"))
    [] c.ev = "frame" -> Verdict(id, c.what, c.before = c.after)
    [] c.ev = "pencil" ->    \* energies of an exact multi-exponential correlator
         IF c.res.k = "exc" THEN Verdict(id, "matrix pencil raised " \o c.res.t, FALSE)
         ELSE /\ Verdict(id, "number of energies", Len(c.res.E) = Len(c.E))
              /\ Len(c.res.E) = Len(c.E) => \A k \in DOMAIN c.E : Verdict(id, "matrix pencil energy", RClose(c.res.E[k], c.E[k], "1/100000", "1/100000000"))
    [] OTHER -> Verdict(id, "unknown-event", FALSE)

Init == l = 1 /\ LoadCases
Next == /\ l <= NCases
        /\ CheckCase(Cases[l])
        /\ Consumed(l)
        /\ l' = l + 1
=============================================================================
