------------------------------ MODULE MC_Split ------------------------------
(***************************************************************************)
(* Design-level theorem behind property C01, checked on the specification  *)
(* itself: ObsCore!DeriveChains applied to a sum of three primary          *)
(* observables gives the same fluctuations however the sum is split into   *)
(* binary steps, WHENEVER the operands share their replica sets or their   *)
(* per-replica configuration sets.  TLC enumerates every triple of layouts *)
(* (replica -> set of configurations) as initial states.  Because Derive   *)
(* is linear in the fluctuations, unit fluctuations of one primary at a    *)
(* time determine all weights.                                             *)
(***************************************************************************)
EXTENDS ObsCore

CONSTANTS Reps, Cfgs
VARIABLES la, lb, lc

Lay == {f \in [Reps -> SUBSET Cfgs] : \E r \in Reps : f[r] # {}}
Empty == [r \in Reps |-> {}]
RepName(r) == StrCat("E|r", StrFromInt(r))

\* the observable with layout lay whose fluctuations are all u
Mk(lay, u) ==
  LET rs == SetToSortSeq({r \in Reps : lay[r] # {}}, <) IN
  [chains |-> [k \in DOMAIN rs |-> LET idl == SortedSeqOf(lay[rs[k]]) IN
                 [name |-> RepName(rs[k]), idl |-> idl, d |-> [i \in DOMAIN idl |-> u]]],
   cov |-> <<>>]
Wrap(chains) == [chains |-> chains, cov |-> <<>>]
Ones(n) == [i \in 1..n |-> "1"]

Direct(x, y, z) == DeriveChains(<<x, y, z>>, Ones(3))
Split(x, y, z)  == DeriveChains(<<Wrap(DeriveChains(<<x, y>>, Ones(2))), z>>, Ones(2))

\* the three primaries with unit fluctuations on primary p only
Prim(p) == <<Mk(la, IF p = 1 THEN "1" ELSE "0"), Mk(lb, IF p = 2 THEN "1" ELSE "0"), Mk(lc, IF p = 3 THEN "1" ELSE "0")>>

Indep == \A p \in 1..3 : LET o == Prim(p) IN
            /\ Split(o[1], o[2], o[3]) = Direct(o[1], o[2], o[3])
            /\ Split(o[1], o[3], o[2]) = Direct(o[1], o[2], o[3])
            /\ Split(o[2], o[3], o[1]) = Direct(o[1], o[2], o[3])

Side == SplitIndependent(Prim(1))

\* the property: under the side condition the split does not matter
InvSplit == (lc # Empty /\ Side) => Indep
\* the contribution of each primary to the ensemble mean is unchanged: sum over the result's configurations of its
\* (up-weighted) fluctuations, divided by the result's size, equals its own mean fluctuation (1) times ... = 1
MeanPreserved == lc # Empty =>
  \A p \in 1..3 : LET o == Prim(p)  res == Direct(o[1], o[2], o[3])
                      tot == FoldSeq(LAMBDA c, acc : acc + Len(c.idl), 0, res)
                      sum == FoldSeq(LAMBDA c, acc : RAdd(acc, RSumSeq(c.d)), "0", res)
                  IN RDiv(sum, RFromInt(tot)) = "1"
\* without the side condition the claim is false (run with expect-violation to show the model is not vacuous)
InvAlways == lc # Empty => Indep

\* one initial state (the empty layouts); the first step chooses the three layouts, so that the
\* enumeration is spread over TLC's workers
Init == la = Empty /\ lb = Empty /\ lc = Empty
Next == \/ la = Empty /\ la' \in Lay /\ UNCHANGED <<lb, lc>>
        \/ la # Empty /\ lb = Empty /\ lb' \in Lay /\ UNCHANGED <<la, lc>>
        \/ lb # Empty /\ lc = Empty /\ lc' \in Lay /\ UNCHANGED <<la, lb>>
=============================================================================
