CONSTANTS
  Names = {"a", "a.json", "a.json.gz", "b.gz"}
  NDocs = 2
  MaxPool = 4
  MaxDepth = 5
SPECIFICATION Spec
CONSTRAINT Bounded
INVARIANT TypeOK
INVARIANT KindsMatchPaths
INVARIANT GzIsNamedGz
PROPERTY LoadReturnsLastDump
PROPERTY PickleCarriesAnalysis
PROPERTY RoundTripMeets
PROPERTY DumpOnlyTouchesItsPath
CHECK_DEADLOCK FALSE
