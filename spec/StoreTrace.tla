----------------------------- MODULE StoreTrace -----------------------------
(***************************************************************************)
(* Properties C11 / C12: an export followed by an import is the identity   *)
(* on the projection of the exported document.                             *)
(*                                                                         *)
(*  doc ::= [k "obs", o, tag] | [k "list", a] | [k "array", shape, a]       *)
(*        | [k "corr", T, N, content, prange, tag] | [k "dict", keys, vals] *)
(*        | [k "prim", v (canonical JSON text)] | [k "none"]                *)
(*                                                                         *)
(* RoundTrip(format) = identity up to the rounding of one addition and one *)
(* subtraction per sample (1e-13); configuration lists, their form (range  *)
(* or list), names, flags, tags: exact.                                    *)
(*                                                                         *)
(* Named deviation (recorded finding, C12): the dobs format marks "not     *)
(* measured" by the number 0, so a configuration whose stored fluctuation   *)
(* is exactly 0 is lost on import (ZeroMarkerLoss).                         *)
(***************************************************************************)
EXTENDS ObsCore, TraceBase
VARIABLE l

T13 == "1/10000000000000"
CovSame(a, b, atol) ==
  /\ CovNames(a) = CovNames(b)
  /\ \A n \in CovNames(a) \cap CovNames(b) :
       LET x == CovOf(a, n)  y == CovOf(b, n) IN
       /\ Len(x.cov) = Len(y.cov) /\ \A i \in DOMAIN x.cov : RCloseSeq(x.cov[i], y.cov[i], T13, "0")
       /\ RCloseSeq(x.grad, y.grad, T13, "0")
ObsScale(o) == RAdd(RAbs(o.value), FoldSeq(LAMBDA c, acc : RMax(acc, RAdd(RAbs(c.r), RMaxAbsSeq(c.d))), "0", o.chains))
ChainSame(x, y, atol) ==
  /\ x.name = y.name /\ x.idl = y.idl /\ x.isrange = y.isrange /\ x.shape = y.shape
  /\ RCloseSeq(x.d, y.d, T13, atol) /\ RClose(x.r, y.r, T13, atol)
ObsSame(a, b) ==
  LET atol == RMul(T13, ObsScale(a)) IN
  /\ Len(a.chains) = Len(b.chains)
  /\ \A k \in DOMAIN a.chains : k \in DOMAIN b.chains => ChainSame(a.chains[k], b.chains[k], atol)
  /\ RClose(b.value, a.value, T13, "0") /\ a.vkind = b.vkind
  /\ CovSame(a, b, atol)
  /\ a.N = b.N /\ a.rew = b.rew
  /\ SeqToSet(a.names) = SeqToSet(b.names)
  /\ SubSeq(a.names, 1, Len(a.chains)) = SubSeq(b.names, 1, Len(b.chains))      \* chain names in order; covariance names in any order

\* which clause of ObsSame fails (diagnostics)
ObsDiff(a, b) ==
  LET atol == RMul(T13, ObsScale(a)) IN
  IF Len(a.chains) # Len(b.chains) THEN "number-of-chains"
  ELSE IF \E k \in DOMAIN a.chains : a.chains[k].name # b.chains[k].name THEN "chain-names"
  ELSE IF \E k \in DOMAIN a.chains : a.chains[k].idl # b.chains[k].idl THEN "configuration-numbers"
  ELSE IF \E k \in DOMAIN a.chains : a.chains[k].isrange # b.chains[k].isrange THEN "idl-form(range/list)"
  ELSE IF \E k \in DOMAIN a.chains : ~RCloseSeq(a.chains[k].d, b.chains[k].d, T13, atol) THEN "fluctuations"
  ELSE IF \E k \in DOMAIN a.chains : ~RClose(a.chains[k].r, b.chains[k].r, T13, atol) THEN "replica-means"
  ELSE IF ~RClose(b.value, a.value, T13, "0") THEN "central-value"
  ELSE IF ~CovSame(a, b, atol) THEN "covariance-inputs"
  ELSE IF a.rew # b.rew THEN "reweighted-flag"
  ELSE IF a.N # b.N THEN "N" ELSE "names"

RECURSIVE DocSame(_, _)
DocSame(a, b) ==
  IF a.k # b.k THEN FALSE
  ELSE CASE a.k = "obs"   -> ObsSame(a.o, b.o) /\ a.tag = b.tag
         [] a.k = "list"  -> Len(a.a) = Len(b.a) /\ \A i \in DOMAIN a.a : DocSame(a.a[i], b.a[i])
         [] a.k = "array" -> a.shape = b.shape /\ Len(a.a) = Len(b.a) /\ \A i \in DOMAIN a.a : DocSame(a.a[i], b.a[i])
         [] a.k = "corr"  -> /\ a.T = b.T /\ a.N = b.N /\ a.prange = b.prange /\ a.tag = b.tag
                             /\ \A t \in 1..a.T : DocSame(a.content[t], b.content[t])
         [] a.k = "dict"  -> a.keys = b.keys /\ Len(a.vals) = Len(b.vals) /\ \A i \in DOMAIN a.vals : DocSame(a.vals[i], b.vals[i])
         [] a.k = "prim"  -> a.v = b.v
         [] a.k = "none"  -> TRUE
         [] OTHER -> FALSE
RECURSIVE DocDiff(_, _)
DocDiff(a, b) ==
  IF a.k # b.k THEN "kind:" \o a.k \o "/" \o b.k
  ELSE CASE a.k = "obs"   -> IF ~ObsSame(a.o, b.o) THEN "obs:" \o ObsDiff(a.o, b.o) ELSE IF a.tag # b.tag THEN "obs:tag" ELSE "same"
         [] a.k \in {"list", "array"} -> IF Len(a.a) # Len(b.a) THEN "length"
                             ELSE IF \E i \in DOMAIN a.a : ~DocSame(a.a[i], b.a[i])
                                  THEN DocDiff(a.a[CHOOSE i \in DOMAIN a.a : ~DocSame(a.a[i], b.a[i])], b.a[CHOOSE i \in DOMAIN a.a : ~DocSame(a.a[i], b.a[i])])
                                  ELSE IF a.k = "array" /\ a.shape # b.shape THEN "shape" ELSE "same"
         [] a.k = "corr"  -> IF a.T # b.T \/ a.N # b.N THEN "corr:T/N" ELSE IF a.prange # b.prange THEN "corr:prange" ELSE IF a.tag # b.tag THEN "corr:tag"
                             ELSE IF \E t \in 1..a.T : a.content[t].k # b.content[t].k THEN "corr:undefined-timeslices"
                             ELSE IF \E t \in 1..a.T : ~DocSame(a.content[t], b.content[t])
                                  THEN "corr:" \o DocDiff(a.content[CHOOSE t \in 1..a.T : ~DocSame(a.content[t], b.content[t])], b.content[CHOOSE t \in 1..a.T : ~DocSame(a.content[t], b.content[t])])
                                  ELSE "same"
         [] a.k = "dict"  -> IF a.keys # b.keys THEN "dict:keys" ELSE IF \E i \in DOMAIN a.vals : ~DocSame(a.vals[i], b.vals[i])
                                  THEN "dict:" \o DocDiff(a.vals[CHOOSE i \in DOMAIN a.vals : ~DocSame(a.vals[i], b.vals[i])], b.vals[CHOOSE i \in DOMAIN a.vals : ~DocSame(a.vals[i], b.vals[i])])
                                  ELSE "same"
         [] a.k = "prim"  -> IF a.v = b.v THEN "same" ELSE "primitive"
         [] OTHER -> "same"

\* ---- the dobs zero marker (named deviation) -------------------------------------------------------------------------
\* b equals a except that, per chain, exactly the configurations whose stored fluctuation (sample - central value) is 0 are missing
\* the stored number is fl(delta + fl(r - value)) (dobs) - zero iff the two doubles cancel exactly - or the sample itself (pobs)
StoredZero(c, value, cfg, isdobs) == IF isdobs THEN RAdd(c.d[IndexOf(c.idl, cfg)], RRoundToDouble(RSub(c.r, value))) = "0"
                                     ELSE RRoundToDouble(RAdd(c.d[IndexOf(c.idl, cfg)], c.r)) = "0"
ZeroMarkerLoss(a, b, isdobs) ==
  /\ Len(a.chains) = Len(b.chains)
  /\ \E k \in DOMAIN a.chains : a.chains[k].idl # b.chains[k].idl
  /\ \A k \in DOMAIN a.chains :
       /\ a.chains[k].name = b.chains[k].name
       /\ SeqToSet(b.chains[k].idl) = {cfg \in SeqToSet(a.chains[k].idl) : ~StoredZero(a.chains[k], a.value, cfg, isdobs)}
       /\ \A cfg \in SeqToSet(b.chains[k].idl) :
            RClose(RAdd(b.chains[k].d[IndexOf(b.chains[k].idl, cfg)], b.chains[k].r),
                   RAdd(a.chains[k].d[IndexOf(a.chains[k].idl, cfg)], a.chains[k].r), T13, RMul(T13, ObsScale(a)))
  /\ RClose(b.value, a.value, T13, "0")
RECURSIVE OnlyZeroLoss(_, _, _)
OnlyZeroLoss(a, b, isdobs) ==
  a.k = b.k /\
  CASE a.k = "obs" -> ObsSame(a.o, b.o) \/ ZeroMarkerLoss(a.o, b.o, isdobs)
    [] a.k = "list" -> Len(a.a) = Len(b.a) /\ \A i \in DOMAIN a.a : OnlyZeroLoss(a.a[i], b.a[i], isdobs)
    [] OTHER -> DocSame(a, b)

\* ---- replica names through the Zeuthen formats (documented treatment of the separator) ----------------------------
\* export removes every "|"; import re-inserts one according to separator_insertion:
\*   "true": after the ensemble tag when the stored name starts with it;  "false" / "none": not at all;
\*   int k: at position k;  string s: in front of every occurrence of s
NameAfter(name, ens, mode) ==
  LET stored == StrReplace(name, "|", "") IN
  CASE mode.k = "true"  -> \* ... when something follows the tag: a chain named like its ensemble keeps its name
                           IF StrStartsWith(stored, ens) /\ StrLen(stored) > StrLen(ens)
                           THEN StrCat(StrCat(ens, "|"), StrSub(stored, StrLen(ens) + 1, StrLen(stored))) ELSE stored
    [] mode.k \in {"false", "none"} -> stored
    [] mode.k = "int"   -> StrCat(StrCat(StrSub(stored, 1, mode.v), "|"), StrSub(stored, mode.v + 1, StrLen(stored)))
    [] mode.k = "str"   -> StrReplace(stored, mode.v, StrCat("|", mode.v))
Renamed(o, mode) ==
  LET ren == [k \in DOMAIN o.chains |-> [o.chains[k] EXCEPT !.name = NameAfter(o.chains[k].name, Ens(o.chains[k].name), mode)]]
      srt == SortSeq(ren, LAMBDA a, b : StrLess(a.name, b.name))
  IN [o EXCEPT !.chains = srt,
               !.names = [k \in DOMAIN srt |-> srt[k].name] \o SubSeq(o.names, Len(o.chains) + 1, Len(o.names))]
RECURSIVE RenamedDoc(_, _)
RenamedDoc(d, mode) == CASE d.k = "obs" -> [d EXCEPT !.o = Renamed(d.o, mode)]
                         [] d.k = "list" -> [d EXCEPT !.a = [i \in DOMAIN d.a |-> RenamedDoc(d.a[i], mode)]]
                         [] OTHER -> d

CheckCase(c) ==
  LET id == c.id IN
  CASE c.ev = "zeuthen" ->     \* dobs / pobs: identity up to the documented renaming of the replicas
         LET exp == RenamedDoc(c.before, c.mode) IN
         \* pobs builds each observable with the public constructor: replica names that no longer share one ensemble are rejected there (C04)
         IF ~c.isdobs /\ \E i \in DOMAIN exp.a : Cardinality(EnsNames(exp.a[i].o)) > 1
         THEN Verdict(id, "pobs: replicas without a common ensemble name must be rejected", c.after.k = "exc")
         \* the pobs format has one configuration column per replica: observables on other chains or configurations cannot be stored in it
         ELSE IF ~c.isdobs /\ \E i \in DOMAIN c.before.a : [k \in DOMAIN c.before.a[i].o.chains |-> <<c.before.a[i].o.chains[k].name, c.before.a[i].o.chains[k].idl>>]
                                                          # [k \in DOMAIN c.before.a[1].o.chains |-> <<c.before.a[1].o.chains[k].name, c.before.a[1].o.chains[k].idl>>]
         THEN Verdict(id, "pobs: observables on different configurations must be rejected", c.after.k = "exc")
         ELSE IF c.after.k = "exc" THEN Verdict(id, c.fmt \o ": import or export raised " \o c.after.t, FALSE)
         ELSE IF DocSame(exp, c.after) THEN TRUE
         ELSE IF OnlyZeroLoss(exp, c.after, c.isdobs)
              THEN Known(id, "dobs/pobs drop configurations whose stored number is exactly 0 (format-level zero marker)")
         ELSE Verdict(id, c.fmt \o ": " \o DocDiff(exp, c.after), FALSE)
    [] c.ev = "roundtrip" ->
         IF c.after.k = "exc" THEN Verdict(id, c.fmt \o ": import or export raised " \o c.after.t, FALSE)
         ELSE IF DocSame(c.before, c.after) THEN TRUE
         ELSE Verdict(id, c.fmt \o ": " \o DocDiff(c.before, c.after), FALSE)
    [] c.ev = "schema" -> Verdict(id, "document does not validate against the shipped JSON schema: " \o c.msg, c.valid)
    [] c.ev = "reanalysis" ->    \* a subsequent error analysis of the imported object equals that of the original
         Verdict(id, "error analysis differs after the round trip",
                 \* up to the precision with which samples of the size of the central value are representable
                 Len(c.before) = Len(c.after) /\ \A i \in DOMAIN c.before :
                     RClose(c.after[i].dv, c.before[i].dv, "1/10000000000", RAdd("1/1000000000000000000000000000000", RMul("1/1000000000000", c.before[i].scale))))
    [] c.ev = "truncated" ->     \* C18: a truncated export is rejected rather than partially loaded
         Verdict(id, c.fmt \o " truncated at byte " \o c.cutinfo \o " was accepted", c.res.k = "exc")
    [] c.ev = "frame" -> Verdict(id, c.what, c.before = c.after)
    [] OTHER -> Verdict(id, "unknown-event", FALSE)

Init == l = 1 /\ LoadCases
Next == /\ l <= NCases
        /\ CheckCase(Cases[l])
        /\ Consumed(l)
        /\ l' = l + 1
=============================================================================
