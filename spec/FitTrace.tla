------------------------------ MODULE FitTrace ------------------------------
(* Trace specification for properties C07 (linear fits = closed-form GLS) and C08 (non-linear and total least squares    *)
(* obey the implicit-function rule).                                                                                      *)
EXTENDS Fit, DeriveCheck, ValErr
VARIABLE l

\* tolerance of the stopping rule of each minimiser, in units of chi^2 (Newton decrement / excess over the minimum)
TolChi(method) == CASE method = "Levenberg-Marquardt" -> "1/100000000000"
                    [] method = "migrad" -> "1/100000"
                    [] OTHER -> "1/100000000"
Round(x) == RRoundToDouble(x)
ObsRes(o) == [k |-> "obs", o |-> o]

CheckFit(c) ==
  LET id == c.id IN
  IF c.res.k # "ok" THEN Verdict(id, "fit raised " \o c.res.t, FALSE)
  ELSE
  LET n == c.n  m == Len(c.points)
      p == TLCEval([a \in 1..n |-> c.res.p[a].value])
      y == TLCEval([i \in 1..m |-> c.y[i].value])
      W == WeightMatrix(c.W, m)
      \* a prior handed in as text 'value(error)' carries the value and error its characters state (read by ValErr)
      pri == TLCEval([k \in DOMAIN c.priors |-> IF c.priors[k].s = "" THEN c.priors[k]
                                                   ELSE [c.priors[k] EXCEPT !.v = ParsedV(c.priors[k].s), !.dv = ParsedE(c.priors[k].s)]])
      g == TLCEval(GradChi(c.exprs, c.points, p, y, W, pri, n))
      H == TLCEval(HessChi(c.exprs, c.points, p, y, W, pri, n))
      dec == TLCEval(NewtonDecrement(g, H))
      chi == TLCEval(ChiSq(c.exprs, c.points, p, y, W, pri))
      tol == TolChi(c.method)
      sens == TLCEval(Sensitivities(H, MixedY(c.exprs, c.points, p, W, n), MixedPrior(pri, n)))
      ops == TLCEval(c.y \o [k \in DOMAIN pri |-> pri[k].o])
      dvals == TLCEval(Values(ops))
      dof == m - n + Len(pri)
  IN
  /\ Verdict(id, "parameters are a stationary point of chi^2 (Newton decrement)", RLe(RAbs(dec), RMul(tol, RAdd("1", chi))))
  /\ Verdict(id, "Hessian positive definite at the solution", IsPSDWithin(H, "0") \/ n > 4)
  /\ IF c.linear
     THEN LET gls == TLCEval(GLS(c.exprs, c.points, y, W, pri, n))
              excess == RSub(chi, ChiSq(c.exprs, c.points, gls, y, W, pri)) IN
          /\ Verdict(id, "linear model: chi^2 at the returned parameters exceeds the GLS minimum", RLe(excess, RMul(tol, RAdd("1", chi))))
          /\ (c.method = "Levenberg-Marquardt") =>
               \* in units of each parameter's own error sqrt((A^T W A + P)^-1_aa) = sqrt(2 H^-1_aa): scale-free, however ill-conditioned the basis
               LET Hinv == TLCEval(MatInverse(H)) IN
               Verdict(id, "linear model: parameters = (A^T W A)^-1 A^T W y",
                       \A a \in 1..n : RLe(RAbs(RSub(p[a], gls[a])), RMul("1/10000", RSqrt(RMul("2", RAbs(Hinv[a][a]))))))
     ELSE TRUE
  /\ \A a \in 1..n :
       CheckReal(id \o ".p" \o StrFromInt(a), [c EXCEPT !.mode = IF c.numgrad THEN "fitnum" ELSE "fit"],
                 LinearIn([j \in DOMAIN sens[a] |-> Round(sens[a][j])], p[a], dvals), ops, [k \in DOMAIN ops |-> k], ObsRes(c.res.p[a]), TRUE)
  /\ Verdict(id, "chisquare = weighted residual norm at the solution", RClose(c.res.chisquare, chi, "1/1000000", "1/1000000000"))
  /\ Verdict(id, "dof = points - parameters + priors", c.res.dof = dof)
  /\ dof > 0 => Verdict(id, "p_value = chi^2 survival function", RClose(c.res.p_value, RChiSqSurv(c.res.chisquare, RFromInt(dof)), "1/1000000", "1/100000000000"))
  /\ (c.W.k = "chol" /\ dof > 0 /\ c.res.ncov - dof > 0) =>
        Verdict(id, "t2_p_value = Hotelling F survival function",
                RClose(c.res.t2, RFSurv(RMul(RDiv(RFromInt(c.res.ncov - dof), RFromInt(dof * (c.res.ncov - 1))), c.res.chisquare), RFromInt(dof), RFromInt(c.res.ncov - dof)),
                       "1/1000000", "1/100000000000"))

\* total least squares: stationarity in (p, xi) and sensitivities with respect to x and y
CheckTls(c) ==
  LET id == c.id IN
  IF c.res.k # "ok" THEN Verdict(id, "fit raised " \o c.res.t, FALSE)
  ELSE
  LET n == c.n  m == Len(c.y)  D == Len(c.x)
      p == TLCEval([a \in 1..n |-> c.res.p[a].value])
      xv == TLCEval([d \in 1..D |-> TLCEval([i \in 1..m |-> c.x[d][i].value])])
      yv == TLCEval([i \in 1..m |-> c.y[i].value])
      gh == TLCEval(TlsGradHess(c.fe, n, D, m, p, c.res.xplus, xv, yv, c.dy, c.dx))
      dec == TLCEval(NewtonDecrement(gh.grad, gh.hess))
      rhs == TLCEval([u \in DOMAIN gh.hess |-> TLCEval(gh.mixX[u] \o gh.mixY[u])])
      sens == TLCEval(SolveR(gh.hess, rhs))
      ops == FoldSeq(LAMBDA row, acc : acc \o row, <<>>, c.x) \o c.y          \* x (component-major) then y: the order of the code's operands
      dvals == Values(ops)
  IN
  /\ Verdict(id, "(p, xi) is a stationary point of the documented chi^2 with the x-residual term", RLe(RAbs(dec), RMul("1/10000000", RAdd("1", c.res.chisquare))))   \* ODRPACK stops at a relative change of chi^2 of 1.5e-8
  /\ \A a \in 1..n :
       CheckReal(id \o ".p" \o StrFromInt(a), [c EXCEPT !.mode = "fit"], LinearIn([j \in DOMAIN sens[a] |-> Round(sens[a][j])], p[a], dvals),
                 ops, [k \in DOMAIN ops |-> k], ObsRes(c.res.p[a]), TRUE)
  /\ Verdict(id, "dof", c.res.dof = m - n)

ObsCloseFit(a, b, rtol) ==
  LET sc == RAdd(RAbs(a.value), "1/1000000000000")
      \* the fluctuations are compared on the scale of the largest fluctuation of the parameter on ANY chain: a chain the parameter does
      \* not depend on carries rounding noise (1e-19), which two runs of a minimiser need not reproduce
      dsc == FoldSeq(LAMBDA ch, acc : RMax(acc, RMaxAbsSeq(ch.d)), "0", b.chains) IN
  /\ RClose(a.value, b.value, rtol, RMul(rtol, sc))
  /\ Len(a.chains) = Len(b.chains)
  /\ \A k \in DOMAIN a.chains : k \in DOMAIN b.chains =>
        /\ a.chains[k].name = b.chains[k].name /\ a.chains[k].idl = b.chains[k].idl
        /\ RCloseSeq(a.chains[k].d, b.chains[k].d, rtol, RMul(rtol, dsc))
\* two fits that must give the same parameters (as observables): permuted points / keys, TLS with negligible x errors vs ordinary fit
CheckSame(c) ==
  IF c.a.k # "ok" \/ c.b.k # "ok" THEN Verdict(c.id, c.what \o ": a fit raised", FALSE)
  ELSE \A k \in DOMAIN c.a.p :
     \* two runs of a minimiser agree to a small fraction of the parameter's own error (a parameter of an ill-conditioned fit may be much
     \* smaller than its error: its value is then not reproduced to 1e-6 of itself, and need not be); the fluctuations as before
     IF "sig" \in DOMAIN c
     THEN Verdict(c.id, c.what, /\ RClose(c.a.p[k].value, c.b.p[k].value, c.rtol, RMul("1/100000", c.sig[k]))
                                /\ ObsCloseFit([c.a.p[k] EXCEPT !.value = c.b.p[k].value], c.b.p[k], c.rtol))
     ELSE Verdict(c.id, c.what, ObsCloseFit(c.a.p[k], c.b.p[k], c.rtol))
\* first-order prediction of a re-fit after shifting one datum by eps: p' - p = eps * dp/d(datum)
CheckShift(c) ==
  IF c.base.k # "ok" \/ c.shifted.k # "ok" THEN Verdict(c.id, "shift: a fit raised", FALSE)
  ELSE \A a \in DOMAIN c.base.p :
     Verdict(c.id, "re-fit after shifting one datum moves the parameters by the predicted first-order amount",
             RClose(RSub(c.shifted.p[a].value, c.base.p[a].value), RMul(c.eps, c.sens[a]), "1/100", RMul(RMul(c.eps, c.eps), c.curv)))

CheckCase(c) ==
  CASE c.ev = "fit" -> CheckFit(c)
    [] c.ev = "tls" -> CheckTls(c)
    [] c.ev = "same" -> CheckSame(c)
    [] c.ev = "shift" -> CheckShift(c)
    [] c.ev = "frame" ->      \* the weights are the errors present when the fit is called: the call leaves them as they were
         Verdict(c.id, c.what, c.before = c.after)
    [] OTHER -> Verdict(c.id, "unknown-event", FALSE)

Init == l = 1 /\ LoadCases
Next == /\ l <= NCases
        /\ CheckCase(Cases[l])
        /\ Consumed(l)
        /\ l' = l + 1
=============================================================================
