----------------------------- MODULE OpsTrace -----------------------------
(***************************************************************************)
(* Trace specification for properties C04 (well-formedness, closure,       *)
(* rejection of malformed requests) and C05 (reweight / correlate / merge  *)
(* pair samples by configuration number).  One recorded public call per    *)
(* case; the expected result is computed by ObsCore's Construct, Merge,    *)
(* Correlate, Reweight; every observable returned must be WellFormed.      *)
(***************************************************************************)
EXTENDS DeriveCheck, LinAlg
VARIABLE l

T13 == "1/10000000000000"
T9  == "1/1000000000"

\* ---- well-formedness of whatever a call returned --------------------------------------------------
RECURSIVE WFAny(_)
WFAny(r) == CASE r.k = "obs"   -> WellFormed(r.o) /\ r.o.finite
              [] r.k = "cobs"  -> (r.re.k \in {"obs", "num"} /\ WFAny(r.re)) /\ (r.im.k \in {"obs", "num"} /\ WFAny(r.im))
              [] r.k = "num"   -> TRUE
              [] r.k \in {"array", "list"} -> \A i \in DOMAIN r.a : WFAny(r.a[i])
              [] OTHER -> FALSE
\* closure: arithmetic yields a real or a complex observable (elementwise for arrays), never a bare number
\* or an observable with a complex central value
RECURSIVE Closed(_)
Closed(r) == CASE r.k = "obs"  -> WellFormed(r.o)
               [] r.k = "cobs" -> WFAny(r)
               [] r.k = "array" -> \A i \in DOMAIN r.a : Closed(r.a[i])
               [] OTHER -> FALSE
RECURSIVE WhyNot(_)
WhyNot(r) == CASE r.k = "obs" -> WFClause(r.o)
               [] r.k = "cobs" -> "cobs(" \o WhyNot(r.re) \o "," \o WhyNot(r.im) \o ")"
               [] r.k \in {"array", "list"} -> "elements"
               [] OTHER -> r.k

\* ---- constructor requests -------------------------------------------------------------------------
Req(c) == [k \in DOMAIN c.req |-> [name |-> c.req[k].name, idl |-> c.req[k].idl, x |-> c.req[k].x]]
ReqMalformed(c) == \/ \E k \in DOMAIN c.req : c.req[k].namekind # "str"        \* non-string names
                   \/ c.idlcount # Len(c.req) /\ c.idlcount # 0                 \* idl list of the wrong length
                   \/ c.samplecount # Len(c.req)
                   \/ ConstructRejects(Req(c))
CheckConstruct(id, c) ==
  IF ReqMalformed(c) THEN Verdict(id, "malformed-request-must-raise", c.res.k = "exc")
  ELSE IF c.res.k # "obs" THEN Verdict(id, "valid-request-rejected:" \o c.res.k, FALSE)
  ELSE LET x == Construct(Req(c))
           sc == FoldSeq(LAMBDA q, acc : RMax(acc, RMaxAbsSeq(q.x)), "0", Req(c)) IN
       /\ Verdict(id, "wellformed:" \o WFClause(c.res.o), WellFormed(c.res.o))
       /\ Verdict(id, "construct", ObsClose(c.res.o, x, T13, RMul(T13, sc)))

CovMalformed(c) == \/ StrContains(c.name, "|")
                   \/ ~IsSymmetric(c.cov)
                   \/ ~IsPSD(c.cov)
                   \/ Len(c.means) # Len(c.cov)
CheckCovObs(id, c) ==
  IF CovMalformed(c) THEN Verdict(id, "malformed-covariance-must-raise", c.res.k = "exc")
  ELSE IF c.psdmargin THEN Skip(id, "covariance matrix too close to singular to call")
  ELSE LET rs == IF c.res.k = "list" THEN c.res.a ELSE <<c.res>> IN
       /\ Verdict(id, "count", Len(rs) = Len(c.means))
       /\ \A i \in DOMAIN rs : i \in DOMAIN c.means =>
            /\ Verdict(id, "kind", rs[i].k = "obs")
            /\ rs[i].k = "obs" =>
                 /\ Verdict(id, "wellformed:" \o WFClause(rs[i].o), WellFormed(rs[i].o))
                 /\ Verdict(id, "value", REq(rs[i].o.value, c.means[i]))
                 /\ Verdict(id, "cov", Len(rs[i].o.cov) = 1 /\ rs[i].o.cov[1].name = c.name /\ rs[i].o.cov[1].cov = c.cov
                                        \* the gradient handed in with the request, the i-th unit vector without one
                                        /\ rs[i].o.cov[1].grad = IF c.grad # <<>> THEN c.grad ELSE [j \in DOMAIN c.means |-> IF j = i THEN "1" ELSE "0"])
                 /\ Verdict(id, "no-chains", rs[i].o.chains = <<>> /\ rs[i].o.N = 0)

\* ---- merge / correlate / reweight -----------------------------------------------------------------
Scale(o) == RAdd(RAbs(o.value), FoldSeq(LAMBDA c, acc : RMax(acc, RAdd(RAbs(c.r), RMaxAbsSeq(c.d))), "0", o.chains))
CheckAgainst(id, what, res, x, sc) ==
  IF res.k # "obs" THEN Verdict(id, what \o ":result-kind:" \o res.k, FALSE)
  ELSE /\ Verdict(id, what \o ":wellformed:" \o WFClause(res.o), WellFormed(res.o))
       /\ Verdict(id, what \o ":chains", [k \in DOMAIN res.o.chains |-> <<res.o.chains[k].name, res.o.chains[k].idl>>]
                                         = [k \in DOMAIN x.chains |-> <<x.chains[k].name, x.chains[k].idl>>])
       /\ Verdict(id, what \o ":reweighted-flag", res.o.rew = x.rew)
       /\ Verdict(id, what \o ":values", ObsClose(res.o, x, T9, RMul("1/1000000000000", sc)))

CheckCase(c) ==
  LET id == c.id IN
  CASE c.ev = "construct" -> CheckConstruct(id, c)
    [] c.ev = "covobs"    -> CheckCovObs(id, c)
    [] c.ev = "wf"        -> IF c.require = "closed"
                             THEN IF Closed(c.res) THEN TRUE
                                  \* named deviation (recorded finding): powers in which a complex number or a complex observable takes part
                                  ELSE IF "complexpower" \in DOMAIN c /\ c.complexpower
                                       THEN Known(id, "powers with complex operands are not closed: Obs ** complex has a complex central value, complex ** Obs and CObs ** x raise")
                                  ELSE Verdict(id, "not-closed:" \o WhyNot(c.res), FALSE)
                             ELSE Verdict(id, "not-wellformed:" \o WhyNot(c.res), WFAny(c.res))
    [] c.ev = "merge"     -> IF MergeRejects(c.list) THEN Verdict(id, "merge-must-raise", c.res.k = "exc")
                             ELSE CheckAgainst(id, "merge", c.res, Merge(c.list), FoldSeq(LAMBDA o, acc : RMax(acc, Scale(o)), "0", c.list))
    [] c.ev = "correlate" -> IF CorrelateRejects(c.a, c.b) THEN Verdict(id, "correlate-must-raise", c.res.k = "exc")
                             ELSE CheckAgainst(id, "correlate", c.res, Correlate(c.a, c.b), RMul(Scale(c.a), Scale(c.b)))
    [] c.ev = "reweight"  -> IF ReweightRejects(c.w, c.o) THEN Verdict(id, "reweight-must-raise", c.res.k = "exc")
                             ELSE CheckAgainst(id, "reweight", c.res, Reweight(c.w, c.o, c.all), RAdd(Scale(c.o), RDiv(Scale(c.o), RAbs(c.w.value))))
    [] c.ev = "projection" -> \* indicator of the sector `target` on every configuration of the charge (sample = replica mean + fluctuation)
                             CheckAgainst(id, "projection", c.res,
                                          Construct([k \in DOMAIN c.q.chains |-> [name |-> c.q.chains[k].name, idl |-> c.q.chains[k].idl,
                                                     x |-> LET xs == SamplesOf(c.q.chains[k]) IN
                                                           [j \in DOMAIN xs |-> IF RFloor(RAdd(xs[j], "1/2")) = c.target THEN "1" ELSE "0"]]]), "1")
    [] c.ev = "frame"     -> Verdict(id, c.what, c.before = c.after)
    [] c.ev = "inherit"   -> \* everything derived from a reweighted observable is flagged reweighted
                             IF c.res.k = "obs" /\ c.res.o.rew = c.expect THEN TRUE
                             \* named deviation (recorded finding): results that went through the jackknife export / import lose the flag
                             ELSE IF "route" \in DOMAIN c /\ c.route = "jackknife" /\ c.res.k = "obs" /\ c.expect /\ ~c.res.o.rew
                                  THEN Known(id, "the reweighted flag is not inherited by jack_matmul / einsum results (they are re-imported from jackknife samples)")
                             ELSE Verdict(id, "reweighted-not-inherited", FALSE)
    [] OTHER -> Verdict(id, "unknown-event", FALSE)

Init == l = 1 /\ LoadCases
Next == /\ l <= NCases
        /\ CheckCase(Cases[l])
        /\ Consumed(l)
        /\ l' = l + 1
=============================================================================
