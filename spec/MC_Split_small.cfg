CONSTANTS
  Reps = {1, 2}
  Cfgs = {1, 2}
INIT Init
NEXT Next
INVARIANT InvSplit
INVARIANT MeanPreserved
CHECK_DEADLOCK FALSE
