--------------------------------- MODULE Fit ---------------------------------
(***************************************************************************)
(* Least-squares fits (properties C07, C08).                               *)
(*                                                                         *)
(* A fit is described by                                                   *)
(*   exprs   : model expressions f_k(p, x); leaves 1..n are the parameters,*)
(*             leaves n+1.. the components of the abscissa                 *)
(*   points  : sequence of [e (which expression), x (abscissa values)]     *)
(*   y, W    : data values and weight matrix (diag(1/dy^2) or L^T L)       *)
(*   priors  : sequence of [pos, v, dv] - extra rows ((p_pos - v)/dv)^2    *)
(* chi^2(p) = r^T W r + sum ((p_pos - v)/dv)^2,  r = y - f(p, x).          *)
(* Gradient, Hessian and the mixed derivatives with respect to the data    *)
(* are assembled from the analytic first (Expr!Grad) and second            *)
(* (Expr!Grad of Expr!Diff) derivatives of the model - independent of      *)
(* autograd / numdifftools.                                                *)
(***************************************************************************)
EXTENDS LinAlg, Expr

FMod(a, b) == a % b
Vals(p, pt) == p \o pt.x
ModelAt(exprs, pt, p) == Eval(exprs[pt.e], Vals(p, pt))
\* J[i][a] = d f_i / d p_a
Jac(exprs, points, p, n) == TLCEval([i \in DOMAIN points |-> TLCEval(SubSeq(Grad(exprs[points[i].e], Vals(p, points[i])), 1, n))])
\* S[i][a][b] = d^2 f_i / d p_a d p_b
Second(exprs, points, p, n) ==
  TLCEval([i \in DOMAIN points |-> TLCEval([a \in 1..n |-> TLCEval(SubSeq(Grad(Diff(exprs[points[i].e], a), Vals(p, points[i])), 1, n))])])
Resid(exprs, points, p, y) == TLCEval([i \in DOMAIN points |-> RSub(y[i], ModelAt(exprs, points[i], p))])

WeightMatrix(w, m) == TLCEval(IF w.k = "diag" THEN Diag([i \in 1..m |-> RRoundToDouble(RDiv("1", RSq(w.dy[i])))])
                      ELSE MatMul(Transpose(w.L), w.L))
PriorAt(priors, a) == {k \in DOMAIN priors : priors[k].pos = a}
PriorW(priors, a) == FoldSet(LAMBDA k, acc : RAdd(acc, RRoundToDouble(RDiv("1", RSq(priors[k].dv)))), "0", PriorAt(priors, a))

ChiSq(exprs, points, p, y, W, priors) ==
  LET r == Resid(exprs, points, p, y) IN
  RAdd(Quad(r, W, r), RSumSeq([k \in DOMAIN priors |-> RSq(RDiv(RSub(p[priors[k].pos], priors[k].v), priors[k].dv))]))

\* gradient of chi^2 with respect to the parameters
GradChi(exprs, points, p, y, W, priors, n) ==
  LET r == Resid(exprs, points, p, y)  J == Jac(exprs, points, p, n)  Wr == MatVec(W, r) IN
  TLCEval([a \in 1..n |-> RAdd(RMul("-2", RDot(Col(J, a), Wr)),
                      RMul("2", FoldSet(LAMBDA k, acc : RAdd(acc, RDiv(RSub(p[a], priors[k].v), RSq(priors[k].dv))), "0", PriorAt(priors, a))))])
\* Hessian of chi^2 with respect to the parameters
HessChi(exprs, points, p, y, W, priors, n) ==
  LET r == Resid(exprs, points, p, y)  J == Jac(exprs, points, p, n)  S == Second(exprs, points, p, n)
      Wr == MatVec(W, r)  WJ == MatMul(W, J) IN
  TLCEval([a \in 1..n |-> TLCEval([b \in 1..n |->
     RAdd(RMul("2", RSub(RDot(Col(J, a), Col(WJ, b)), RSumSeq([i \in DOMAIN points |-> RMul(S[i][a][b], Wr[i])]))),
          IF a = b THEN RMul("2", PriorW(priors, a)) ELSE "0")])])
\* - d(grad chi^2)/d y_j  and  - d(grad chi^2)/d prior_k
MixedY(exprs, points, p, W, n) == LET J == Jac(exprs, points, p, n)  WJ == MatMul(W, J) IN
  TLCEval([a \in 1..n |-> TLCEval([j \in DOMAIN points |-> RMul("2", WJ[j][a])])])
MixedPrior(priors, n) == TLCEval([a \in 1..n |-> TLCEval([k \in DOMAIN priors |-> IF priors[k].pos = a THEN RRoundToDouble(RDiv("2", RSq(priors[k].dv))) ELSE "0"])])
\* implicit-function theorem: dp/d(data) = -H^-1 d(grad)/d(data)
Sensitivities(H, mixedY, mixedPr) ==
  LET rhs == TLCEval([a \in DOMAIN H |-> TLCEval(mixedY[a] \o mixedPr[a])]) IN SolveR(H, rhs)
\* Newton decrement g^T H^-1 g / 2: the distance to the stationary point in units of chi^2
NewtonDecrement(g, H) == LET s == SolveR(H, [a \in DOMAIN g |-> <<g[a]>>]) IN RDiv(RDot(g, [a \in DOMAIN g |-> s[a][1]]), "2")

\* ---- the closed-form generalised least-squares estimator of a model that is linear in its parameters ------------------
\* A = J (independent of p), offset f(0, x): p = (A^T W A + P)^-1 (A^T W (y - f0) + P prior)
GLS(exprs, points, y, W, priors, n) ==
  LET zero == [a \in 1..n |-> "0"]
      A == Jac(exprs, points, zero, n)
      f0 == TLCEval([i \in DOMAIN points |-> ModelAt(exprs, points[i], zero)])
      yy == TLCEval([i \in DOMAIN points |-> RSub(y[i], f0[i])])
      WA == MatMul(W, A)
      N == TLCEval([a \in 1..n |-> TLCEval([b \in 1..n |-> RAdd(RDot(Col(A, a), Col(WA, b)), IF a = b THEN PriorW(priors, a) ELSE "0")])])
      rhs == TLCEval([a \in 1..n |-> <<RAdd(RDot(Col(WA, a), yy),
                                    FoldSet(LAMBDA k, acc : RAdd(acc, RDiv(priors[k].v, RSq(priors[k].dv))), "0", PriorAt(priors, a)))>>])
      sol == Solve(N, rhs)
  IN [a \in 1..n |-> sol[a][1]]

\* ---- total least squares (errors on the abscissae): unknowns u = (p, xi), xi the "true" abscissae ---------------------
\* chi^2(u) = sum ((y_i - f(p, xi_i))/dy_i)^2 + sum ((x_id - xi_id)/dx_id)^2 ;  D abscissa components per point
\* layout of u: p_1..p_n, then xi laid out component-major: xi[d][i] at index n + (d-1)*m + i
TlsIndex(n, m, d, i) == n + (d - 1) * m + i
TlsGradHess(fe, n, D, m, p, xi, x, y, dy, dx) ==
  LET vals(i) == p \o [d \in 1..D |-> xi[d][i]]
      G1 == TLCEval([i \in 1..m |-> TLCEval(Grad(fe, vals(i)))])
      g1(i) == G1[i]                                    \* first derivatives w.r.t. (p, xi_i)
      G2 == TLCEval([i \in 1..m |-> TLCEval([a \in 1..(n + D) |-> TLCEval(Grad(Diff(fe, a), vals(i)))])])
      g2(i) == G2[i]    \* second derivatives
      R1 == TLCEval([i \in 1..m |-> RSub(y[i], Eval(fe, vals(i)))])
      r(i) == R1[i]
      w(i) == RDiv("1", RSq(dy[i]))
      K == n + D * m
      loc(u, i) == IF u <= n THEN u ELSE IF FMod(u - n - 1, m) + 1 = i THEN n + (u - n - 1) \div m + 1 ELSE 0   \* local leaf of unknown u at point i (0: not involved)
      grad == TLCEval([u \in 1..K |->
                 RAdd(RMul("-2", RSumSeq([i \in 1..m |-> IF loc(u, i) = 0 THEN "0" ELSE RMul(RMul(w(i), r(i)), g1(i)[loc(u, i)])])),
                      IF u <= n THEN "0" ELSE LET d == (u - n - 1) \div m + 1  i == FMod(u - n - 1, m) + 1 IN
                                              RMul("-2", RDiv(RSub(x[d][i], xi[d][i]), RSq(dx[d][i]))))])
      hess == TLCEval([u \in 1..K |-> TLCEval([v \in 1..K |->
                 RAdd(RMul("2", RSumSeq([i \in 1..m |-> IF loc(u, i) = 0 \/ loc(v, i) = 0 THEN "0"
                                    ELSE RMul(w(i), RSub(RMul(g1(i)[loc(u, i)], g1(i)[loc(v, i)]), RMul(r(i), g2(i)[loc(u, i)][loc(v, i)])))])),
                      IF u = v /\ u > n THEN LET d == (u - n - 1) \div m + 1  i == FMod(u - n - 1, m) + 1 IN RDiv("2", RSq(dx[d][i])) ELSE "0")])])
      \* - d grad / d y_j   and   - d grad / d x_dj
      mixY == TLCEval([u \in 1..K |-> TLCEval([j \in 1..m |-> IF loc(u, j) = 0 THEN "0" ELSE RMul(RMul("2", w(j)), g1(j)[loc(u, j)])])])
      mixX == TLCEval([u \in 1..K |-> TLCEval([q \in 1..(D * m) |-> IF u = n + q THEN LET d == (q - 1) \div m + 1  i == FMod(q - 1, m) + 1 IN RDiv("2", RSq(dx[d][i])) ELSE "0"])])
  IN [grad |-> grad, hess |-> hess, mixY |-> mixY, mixX |-> mixX]
=============================================================================
