------------------------------- MODULE Readers -------------------------------
(***************************************************************************)
(* Measurement files (properties C17 / C18).                               *)
(*                                                                         *)
(* A file set is a sequence of replicas [stem, recs] with                  *)
(*   stem : the file / directory stem the replica name is derived from     *)
(*   recs : sequence of records [cfg (stored number), p (payload)]         *)
(* plus the format parameters.  For every format the specification gives   *)
(*   RepName   - the replica name stated by the file name                  *)
(*   CfgMap    - the configuration numbers the stored numbers stand for    *)
(*   Series    - the documented reduction of one record to the numbers     *)
(*               the reader returns (one per output component)             *)
(*   Selected  - the records a range / stride / list selection asks for    *)
(* Expected(fileset, selection) is then: for every output component an     *)
(* observable with one chain per replica, the selected configuration       *)
(* numbers, and exactly the reduced numbers of those records.              *)
(* A truncated file is the same file set with fewer records in one         *)
(* replica: Allowed(cut) = raise, or Expected of the records that lie      *)
(* wholly before the cut.                                                  *)
(***************************************************************************)
EXTENDS ObsCore

\* ---- replica names ------------------------------------------------------------------------------------------
\* openQCD family: the stem is cut at its first "r": ensr10 -> ens|r10
NameCutFirst(stem, sep) == StrCat(StrCat(StrBefore(stem, sep), "|"), StrSub(stem, StrLen(StrBefore(stem, sep)) + 1, StrLen(stem)))
\* Hadrons files carry no ensemble name: the caller states it
HadronsFmts == {"hd5", "hd5mat", "hd5dist"}
\* sfcf with the ens_name keyword: the stated ensemble name in front of the replica part of the stem
RepName(fmt, stem, par) == IF fmt \in HadronsFmts THEN par.ens_id
                           ELSE IF "ens_name" \in DOMAIN par THEN StrCat(StrCat(par.ens_name, "|"), StrSub(stem, StrLen(StrBefore(stem, "r")) + 1, StrLen(stem)))
                           ELSE NameCutFirst(stem, "r")

\* ---- configuration numbers ----------------------------------------------------------------------------------
Stored(rep) == [i \in DOMAIN rep.recs |-> rep.recs[i].cfg]
ShiftToOne(m) == [i \in DOMAIN m |-> m[i] - (m[1] - 1)]
CfgMap(fmt, s, par) ==
  CASE fmt = "rwms" -> LET step == s[Len(s)] - s[Len(s) - 1]  m == [i \in DOMAIN s |-> s[i] \div step]
                       IN IF m[1] > 1 /\ step > 1 THEN ShiftToOne(m) ELSE m
    [] fmt \in {"qtop", "gfms", "msE"} -> LET steps == s[2] - s[1]  m == [i \in DOMAIN s |-> s[i] \div steps]
                                   \* (assume_thermalization=False, par.nothermal: the numbers of the file are kept as they are)
                                   IN IF m[1] > 1 /\ ~("nothermal" \in DOMAIN par) THEN ShiftToOne(m) ELSE m
    [] fmt = "pbp" -> [i \in DOMAIN s |-> i]    \* this reader keeps no configuration numbers: records count from 1 by position
    [] OTHER -> s

\* ---- matrix-valued Hadrons outputs: which stored matrices make up the requested object ---------------------------
\* ExternalLeg: the one matrix of the file.  Bilinear: the matrix stored under the gamma name.  Four-quark vertices: the signed
\* sum over the Lorentz structures the vertex name stands for (VA = sum_mu gamma_mu x gamma_mu gamma_5, ..., TT = sum_{mu<nu}
\* sigma_munu x sigma_munu, TTtilde = sum sigma_munu x sigma_rhosigma over complementary index pairs with sign -epsilon_munurhosigma).
Lorentz == <<"X", "Y", "Z", "T">>
GammaName(i, axial) == StrCat(StrCat("Gamma", Lorentz[i]), IF axial THEN "Gamma5" ELSE "")
ScalarName(ch) == IF ch = "S" THEN "Identity" ELSE "Gamma5"
SigmaName(i, j) == StrCat(StrCat("Sigma", Lorentz[i]), Lorentz[j])
Inversions(q) == Cardinality({<<a, b>> \in (DOMAIN q) \X (DOMAIN q) : a < b /\ q[a] > q[b]})
MinusEpsilon(q) == IF Inversions(q) % 2 = 0 THEN "-1" ELSE "1"
IndexPairs == <<<<1, 2>>, <<1, 3>>, <<1, 4>>, <<2, 3>>, <<2, 4>>, <<3, 4>>>>
Complement(pr) == CHOOSE c \in {IndexPairs[k] : k \in DOMAIN IndexPairs} : {c[1], c[2]} \cap {pr[1], pr[2]} = {}
Ch(v, k) == StrSub(v, k, k)
VertexTerms(v) ==
  CASE v \in {"VV", "VA", "AV", "AA"} -> [i \in 1..4 |-> [a |-> GammaName(i, Ch(v, 1) = "A"), b |-> GammaName(i, Ch(v, 2) = "A"), sign |-> "1"]]
    [] v \in {"SS", "SP", "PS", "PP"} -> << [a |-> ScalarName(Ch(v, 1)), b |-> ScalarName(Ch(v, 2)), sign |-> "1"] >>
    [] v = "TT" -> [k \in 1..6 |-> [a |-> SigmaName(IndexPairs[k][1], IndexPairs[k][2]), b |-> SigmaName(IndexPairs[k][1], IndexPairs[k][2]), sign |-> "1"]]
    [] v = "TTtilde" -> [k \in 1..6 |-> LET pr == IndexPairs[k]  co == Complement(pr) IN
                                         [a |-> SigmaName(pr[1], pr[2]), b |-> SigmaName(co[1], co[2]), sign |-> MinusEpsilon(<<pr[1], pr[2], co[1], co[2]>>)]]
WantedTerms(want) ==
  CASE want.k = "leg" -> << [a |-> "leg", b |-> "", sign |-> "1"] >>
    [] want.k = "bilinear" -> << [a |-> want.gamma, b |-> "", sign |-> "1"] >>
    [] want.k = "fourquark" -> VertexTerms(want.vertex)

\* ---- reductions ---------------------------------------------------------------------------------------------
RSumOf(q) == RSumSeq(q)
RoundHalfUp(x) == RFloor(RAdd(x, "1/2"))
Series(fmt, p, par) ==
  CASE fmt = "rwms" ->   \* p[irw][factor][source]: product over factors of the source average of exp(-x)
         [i \in DOMAIN p |-> FoldSeq(LAMBDA fct, acc : RMul(acc, RDiv(RSumSeq([s \in DOMAIN fct |-> RExp(RNeg(fct[s]))]), RFromInt(Len(fct)))), "1", p[i])]
    [] fmt = "qtop" ->   \* p[flow index][timeslice] of the charge density: selected flow time, summed over time
         LET idx == RoundHalfUp(RDiv(RSq(RMul(par.c, RFromInt(par.L))), RMul(RMul("8", par.eps), RFromInt(par.dn)))) IN
         << RSumSeq(p[idx + 1]) >>
    [] fmt = "pbp" ->    \* p[irw][factor] = <<first block, second block>>: product over factors of the source average of the second block
         [i \in DOMAIN p |-> FoldSeq(LAMBDA fct, acc : RMul(acc, RDiv(RSumSeq(fct[2]), RFromInt(Len(fct[2])))), "1", p[i])]
    [] fmt = "msE" ->    \* p[flow index][timeslice] of the action density (clover or plaquette block): for every flow index the mean over the
                         \* timeslices xmin .. tmax - xmin - 1, divided by the spatial volume
         [n \in DOMAIN p |-> LET sl == SubSeq(p[n], par.xmin + 1, Len(p[n]) - par.xmin) IN
                             RDiv(RDiv(RSumSeq(sl), RFromInt(Len(sl))), RFromInt(par.L * par.L * par.L))]
    [] fmt = "gfms" ->   \* p[c index][flow][observable][timeslice]
         LET j == RoundHalfUp(RDiv(par.c, RDiv(par.cmax, RFromInt(par.ncs))))  f == IF par.zeuthen THEN 1 ELSE 2 IN
         << RSumSeq(p[j + 1][f][1]) >>
    [] fmt = "ms5" ->    \* p[timeslice] = <<re, im>> of the selected correlator; the reader returns a complex entry per timeslice
         FoldSeq(LAMBDA x, acc : acc \o x, <<>>, p)
    [] fmt = "hd5mat" ->   \* p[j] = [a, b, m]: stored matrices with their labels, m[entry] = <<re, im>> in row-major order;
                           \* one complex entry (real part, imaginary part) per matrix element of the signed sum
         LET terms == WantedTerms(par.want)
             at(t) == CHOOSE j \in DOMAIN p : p[j].a = t.a /\ p[j].b = t.b
             sum(e, c) == RSumSeq([j \in DOMAIN terms |-> RMul(terms[j].sign, p[at(terms[j])].m[e][c])])
         IN [q \in 1..(2 * Len(p[1].m)) |-> sum((q + 1) \div 2, IF q % 2 = 1 THEN 1 ELSE 2)]
    [] fmt = "hd5dist" ->  \* p[source time][timeslice] = <<re, im>>: average over all source times of the correlator shifted to source 0
         LET nt == Len(p)  c == IF par.im THEN 2 ELSE 1 IN
         [t \in 1..nt |-> RDiv(RSumSeq([x0 \in 1..nt |-> p[x0][((t - 1 + x0 - 1) % nt) + 1][c]]), RFromInt(nt))]
    [] fmt \in {"sfcf", "hd5"} ->  \* p[timeslice] = <<re, im>>: the real or the imaginary column
         [t \in DOMAIN p |-> p[t][IF par.im THEN 2 ELSE 1]]

\* ---- selections ---------------------------------------------------------------------------------------------
\* sel.k = "all" | "range" (start[rep], stop[rep], step; 0 = open end) | "list" (idl[rep])
SelectedCfgs(sel, r, mapped) ==
  CASE sel.k = "all" -> mapped
    [] sel.k = "range" -> LET lo == IF sel.start[r] = 0 THEN mapped[1] ELSE sel.start[r]
                              hi == IF sel.stop[r] = 0 THEN mapped[Len(mapped)] ELSE sel.stop[r]
                          IN SelectSeq(mapped, LAMBDA c : c >= lo /\ c <= hi /\ (c - lo) % sel.step = 0)
    [] sel.k = "list" -> sel.idl[r]

\* ---- the expected observables -------------------------------------------------------------------------------
\* for output component k: sequence (sorted by replica name) of [name, idl, x]
RepChain(fmt, rep, par, sel, r, k) ==
  LET mapped == CfgMap(fmt, Stored(rep), par)
      want == SelectedCfgs(sel, r, mapped)
      pos == [q \in DOMAIN want |-> IndexOf(mapped, want[q])]
      \* (a convention of the pbp reader alone: whatever is selected is numbered from 1 again)
  IN [name |-> RepName(fmt, rep.stem, par), idl |-> IF fmt = "pbp" THEN [q \in DOMAIN want |-> q] ELSE want, ok |-> \A q \in DOMAIN want : pos[q] # 0,
      x |-> [q \in DOMAIN want |-> IF pos[q] = 0 THEN "0" ELSE Series(fmt, rep.recs[pos[q]].p, par)[k]]]
NComponents(fmt, reps, par) == Len(Series(fmt, reps[1].recs[1].p, par))
Expected(fmt, reps, par, sel, k) ==
  SortSeq([r \in DOMAIN reps |-> RepChain(fmt, reps[r], par, sel, r, k)], LAMBDA a, b : StrLess(a.name, b.name))

\* an observable returned by the reader against the expectation for component k
ChainMatches(c, e, rtol) ==
  /\ c.name = e.name /\ c.idl = e.idl /\ (c.isrange <=> EquallySpaced(e.idl))
  /\ Len(c.d) = Len(e.x)
  /\ RCloseSeq(SamplesOf(c), e.x, rtol, RMul(rtol, RMaxAbsSeq(e.x)))
ObsMatches(o, exp, rtol) == Len(o.chains) = Len(exp) /\ \A i \in DOMAIN exp : ChainMatches(o.chains[i], exp[i], rtol)
WhyNotMatch(o, exp, rtol) ==
  IF Len(o.chains) # Len(exp) THEN "number of replicas"
  ELSE IF \E i \in DOMAIN exp : o.chains[i].name # exp[i].name THEN "replica names"
  ELSE IF \E i \in DOMAIN exp : o.chains[i].idl # exp[i].idl THEN "configuration numbers"
  ELSE IF \E i \in DOMAIN exp : ~(o.chains[i].isrange <=> EquallySpaced(exp[i].idl)) THEN "idl form"
  ELSE "stored numbers"

\* ---- the flow scale: root of the local linear fit (fit_t0) ------------------------------------------------------
\* flow times x[1..n] (increasing), central values y, errors dy of t^2 E(t) - target (rising through zero);
\* zc = number of points before the first positive one; the fit window holds `fr` points on either side of the crossing,
\* cut off at either end of the data; the weighted straight line n + m x through the window has its root at -n / m
ZeroCrossing(y) == Min({i \in DOMAIN y : RLt("0", y[i])}) - 1
T0Window(n, zc, fr) == (IF zc - fr + 1 > 1 THEN zc - fr + 1 ELSE 1)..(IF zc + fr < n THEN zc + fr ELSE n)
LinFitRoot(x, y, dy, win) ==
  LET w == [i \in win |-> RDiv("1", RSq(dy[i]))]
      S(f(_)) == LET seq == SetToSortSeq(win, <) IN RSumSeq([k \in DOMAIN seq |-> RMul(w[seq[k]], f(seq[k]))])
      S0 == S(LAMBDA i : "1")  Sx == S(LAMBDA i : x[i])  Sy == S(LAMBDA i : y[i])
      Sxx == S(LAMBDA i : RSq(x[i]))  Sxy == S(LAMBDA i : RMul(x[i], y[i]))
      m == RDiv(RSub(RMul(S0, Sxy), RMul(Sx, Sy)), RSub(RMul(S0, Sxx), RSq(Sx)))
      nn == RDiv(RSub(Sy, RMul(m, Sx)), S0)
  IN RNeg(RDiv(nn, m))

\* ---- truncation ---------------------------------------------------------------------------------------------
\* the file of replica r cut after `cut` bytes keeps the records that end at or before the cut (bounds[i] = <<start, end>>)
Kept(rep, bounds, cut) == SelectSeq([i \in DOMAIN rep.recs |-> i], LAMBDA i : bounds[i][2] <= cut)
Truncated(reps, r, bounds, cut) ==
  [q \in DOMAIN reps |-> IF q # r THEN reps[q]
                         ELSE [reps[q] EXCEPT !.recs = LET keep == Kept(reps[q], bounds, cut) IN [i \in DOMAIN keep |-> reps[q].recs[keep[i]]]]]
=============================================================================
