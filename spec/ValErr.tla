------------------------------- MODULE ValErr -------------------------------
(* Reading the text "value(error)" character by character (shared by FormatTrace - C19 - and FitTrace - prior strings, C07). *)
EXTENDS Num, Str

\* ---- reading "V(E)" -------------------------------------------------------------------------------
HasShape(s) == StrIndexOf(s, "(") > 1 /\ StrSub(s, StrLen(s), StrLen(s)) = ")" /\ StrIndexOf(s, ")") = StrLen(s)
VText(s) == StrBefore(s, "(")
EText(s) == StrSub(s, StrIndexOf(s, "(") + 1, StrLen(s) - 1)
Unit(s)  == RPowInt("10", 0 - StrDecimals(VText(s)))
ParsedV(s) == StrParseDecimal(VText(s))
\* the error digits count in units of the last printed digit of the value, unless the error carries its own point
ParsedE(s) == IF StrContains(EText(s), ".") THEN StrParseDecimal(EText(s)) ELSE RMul(StrParseDecimal(EText(s)), Unit(s))
=============================================================================
