------------------------------ MODULE MatTrace ------------------------------
(* Trace specification for property C10: defining identities of the matrix operations, as identities between observables. *)
EXTENDS MatOps, TraceBase
VARIABLE l

R9 == "1/1000000000"
\* tolerances scale with the magnitudes that enter the identity (and with the conditioning the driver guarantees: singular values in [0.5, 2])
TolV(s) == RMul("1/100000000", RAdd("1/1000000000000", s))
Id(c, A, B, what, sv, sd) == Verdict(c.id, what, MClose(A, B, "1/10000000", TolV(sv), TolV(sd)))
CId(c, A, B, what, sv, sd) == /\ Verdict(c.id, what \o " (real part)", MClose(A.re, B.re, "1/10000000", TolV(sv), TolV(sd)))
                              /\ Verdict(c.id, what \o " (imaginary part)", MClose(A.im, B.im, "1/10000000", TolV(sv), TolV(sd)))
RECURSIVE Chain(_)
Chain(ops) == IF Len(ops) = 1 THEN ops[1] ELSE MMul(Chain(SubSeq(ops, 1, Len(ops) - 1)), ops[Len(ops)])
RECURSIVE CChain(_)
CChain(ops) == IF Len(ops) = 1 THEN ops[1] ELSE CMMul(CChain(SubSeq(ops, 1, Len(ops) - 1)), ops[Len(ops)])
SV(A) == RAdd("1", MaxV(A))
ProdScaleV(ops) == FoldSeq(LAMBDA A, acc : RMul(acc, RMul(RFromInt(Cols(A)), SV(A))), "1", ops)
ProdScaleD(ops) == RMul(ProdScaleV(ops), FoldSeq(LAMBDA A, acc : RAdd(acc, MaxD(A)), "0", ops))

CheckCase(c) ==
  LET id == c.id IN
  IF c.ev = "frame" THEN Verdict(id, c.what, c.before = c.after)
  ELSE IF c.res.k = "exc" THEN Verdict(id, c.ev \o ": raised " \o c.res.t, FALSE)
  ELSE
  CASE c.ev = "matmul" ->      \* product = explicit sum of element products
         IF c.complex THEN CId(c, c.res.m, CChain(c.ops), "matmul = sum of element products",
                               FoldSeq(LAMBDA A, acc : RMul(acc, RMul(RFromInt(2 * Cols(A.re)), RAdd(SV(A.re), SV(A.im)))), "1", c.ops),
                               RMul(FoldSeq(LAMBDA A, acc : RMul(acc, RMul(RFromInt(2 * Cols(A.re)), RAdd(SV(A.re), SV(A.im)))), "1", c.ops),
                                    FoldSeq(LAMBDA A, acc : RAdd(acc, RAdd(MaxD(A.re), MaxD(A.im))), "0", c.ops)))
         ELSE Id(c, c.res.m, Chain(c.ops), "matmul = sum of element products", ProdScaleV(c.ops), ProdScaleD(c.ops))
    [] c.ev = "inv" ->
         IF c.complex THEN CId(c, CMMul(c.a, c.res.m), CMId(Rows(c.a.re), DLen(c.a.re)), "A A^-1 = 1", "10", RMul("100", RAdd(MaxD(c.a.re), MaxD(c.a.im))))
         ELSE /\ Id(c, MMul(c.a, c.res.m), MId(Rows(c.a), DLen(c.a)), "A A^-1 = 1", "10", RMul("100", MaxD(c.a)))
              /\ Id(c, MMul(c.res.m, c.a), MId(Rows(c.a), DLen(c.a)), "A^-1 A = 1", "10", RMul("100", MaxD(c.a)))
    [] c.ev = "cholesky" ->
         /\ Id(c, MMul(c.res.m, MT(c.res.m)), c.a, "L L^T = A", SV(c.a), RMul("10", MaxD(c.a)))
         /\ Verdict(id, "L lower triangular", \A i, j \in 1..Rows(c.a) : i < j => (c.res.m[i][j].v = "0" /\ RMaxAbsSeq(c.res.m[i][j].d) = "0"))
         /\ Verdict(id, "L positive diagonal", \A i \in 1..Rows(c.a) : RLt("0", c.res.m[i][i].v))
    [] c.ev = "det" ->
         Verdict(id, "det = cofactor expansion", SClose(c.res.s, SDet(c.a), "1/10000000", TolV(RPowInt(SV(c.a), Rows(c.a))), TolV(RMul(RPowInt(SV(c.a), Rows(c.a)), MaxD(c.a)))))
    [] c.ev = "eigh" ->          \* A v = lambda v column by column, v orthonormal
         LET n == DLen(c.a)  m == Rows(c.a) IN
         /\ Id(c, MMul(c.a, c.res.v), MMul(c.res.v, MDiag(c.res.w, n)), "A v = lambda v", RMul("10", SV(c.a)), RMul("100", MaxD(c.a)))
         /\ Id(c, MMul(MT(c.res.v), c.res.v), MId(m, n), "v^T v = 1", "10", RMul("100", MaxD(c.a)))
         /\ Verdict(id, "eigenvalues ascending", \A i \in 1..(m - 1) : RLe(c.res.w[i].v, c.res.w[i + 1].v))
    [] c.ev = "eigv" ->          \* eigenvectors only: A v_k is parallel to v_k with the Rayleigh quotient as eigenvalue, v orthonormal
         LET n == DLen(c.a)  m == Rows(c.a)
             ray == MMul(MMul(MT(c.res.v), c.a), c.res.v) IN
         /\ Id(c, MMul(c.a, c.res.v), MMul(c.res.v, MDiag([k \in 1..m |-> ray[k][k]], n)), "A v = (v^T A v) v", RMul("10", SV(c.a)), RMul("100", MaxD(c.a)))
         /\ Id(c, MMul(MT(c.res.v), c.res.v), MId(m, n), "v^T v = 1", "10", RMul("100", MaxD(c.a)))
    [] c.ev = "eig" ->           \* eigenvalues: every one is a root of the characteristic polynomial, as an identity of observables
         LET n == DLen(c.a)  m == Rows(c.a) IN
         \A k \in 1..m : Verdict(id, "det(A - lambda 1) = 0",
              SClose(SDet(MSub(c.a, MDiag([i \in 1..m |-> c.res.w[k]], n))), SZero(n), "0",
                     TolV(RPowInt(SV(c.a), m)), TolV(RMul(RPowInt(SV(c.a), m), RMul("100", MaxD(c.a))))))
    [] c.ev = "pinv" ->
         /\ Id(c, MMul(MMul(c.a, c.res.m), c.a), c.a, "A A^+ A = A", RMul("10", SV(c.a)), RMul("100", MaxD(c.a)))
         /\ Id(c, MMul(MMul(c.res.m, c.a), c.res.m), c.res.m, "A^+ A A^+ = A^+", "10", RMul("100", MaxD(c.a)))
    [] c.ev = "svd" ->
         LET n == DLen(c.a) IN
         /\ Id(c, MMul(MMul(c.res.u, MDiag(c.res.s, n)), c.res.vh), c.a, "U S V^h = A", RMul("10", SV(c.a)), RMul("100", MaxD(c.a)))
         /\ Verdict(id, "singular values non-negative, descending", \A i \in DOMAIN c.res.s : RLe("0", c.res.s[i].v) /\ (i = 1 \/ RLe(c.res.s[i].v, c.res.s[i - 1].v)))
    [] c.ev = "jack" ->          \* jackknife product / einsum: value exact, fluctuations up to O(1/N)
         LET exact == Chain(c.ops)
             dmax == FoldSeq(LAMBDA A, acc : RAdd(acc, MaxD(A)), "0", c.ops)
             bound == RDiv(RMul(RMul("4", ProdScaleV(c.ops)), RSq(dmax)), RFromInt(c.N - 1)) IN
         /\ Verdict(id, c.what \o ": value = exact product", \A i \in 1..Rows(exact) : \A j \in 1..Cols(exact) :
                           RClose(c.res.m[i][j].v, exact[i][j].v, R9, TolV(ProdScaleV(c.ops))))
         /\ Verdict(id, c.what \o ": fluctuations agree up to O(1/N)", \A i \in 1..Rows(exact) : \A j \in 1..Cols(exact) :
                           RCloseSeq(c.res.m[i][j].d, exact[i][j].d, "0", bound))
    [] OTHER -> Verdict(id, "unknown-event", FALSE)

Init == l = 1 /\ LoadCases
Next == /\ l <= NCases
        /\ CheckCase(Cases[l])
        /\ Consumed(l)
        /\ l' = l + 1
=============================================================================
