------------------------------ MODULE ObsCore ------------------------------
(***************************************************************************)
(* The abstract observable of pyerrors and the operations that produce     *)
(* observables from observables.                                           *)
(*                                                                         *)
(* An observable is a record                                               *)
(*   chains : sequence (sorted by name) of Monte-Carlo chains              *)
(*              [name, idl (configuration numbers), isrange, d             *)
(*               (fluctuations, one per configuration), r (replica mean)]  *)
(*   cov    : sequence of external covariance inputs [name, cov, grad]     *)
(*   value  : central value          vkind : kind of the Python value      *)
(*   names  : the object's name list   N : recorded sample count           *)
(*   shape  : recorded chain lengths (name |-> length, as a sequence       *)
(*            aligned with chains)     rew : reweighted flag               *)
(* exactly what pe_project.py reads off a real Obs.                        *)
(***************************************************************************)
EXTENDS Num, Str, Idl

ChainNames(o) == {o.chains[i].name : i \in DOMAIN o.chains}
CovNames(o)   == {o.cov[i].name : i \in DOMAIN o.cov}
HasChain(o, n) == n \in ChainNames(o)
Chain(o, n)   == o.chains[CHOOSE i \in DOMAIN o.chains : o.chains[i].name = n]
CovOf(o, n)   == o.cov[CHOOSE i \in DOMAIN o.cov : o.cov[i].name = n]
Ens(n)        == StrBefore(n, "|")
EnsNames(o)   == {Ens(n) : n \in ChainNames(o)}
SortNames(S)  == SetToSortSeq(S, StrLess)

\* ------------------------------------------------------------------ well-formedness (property C04)
ChainWF(c) ==
  /\ Len(c.idl) >= 1
  /\ StrictlyIncreasing(c.idl)
  /\ c.isrange <=> EquallySpaced(c.idl)
  /\ Len(c.d) = Len(c.idl)
  /\ c.shape = Len(c.idl)
  /\ c.intcfg                      \* every configuration number is an integer

WellFormed(o) ==
  /\ o.vkind = "float"                                         \* a real floating-point central value
  /\ \A i \in DOMAIN o.chains : ChainWF(o.chains[i])
  /\ \A i, j \in DOMAIN o.chains : i < j => StrLess(o.chains[i].name, o.chains[j].name)   \* sorted, unique
  /\ o.N = FoldSeq(LAMBDA c, acc : acc + c.shape, 0, o.chains) \* sample count = sum of chain lengths
  /\ \A i, j \in DOMAIN o.cov : i # j => o.cov[i].name # o.cov[j].name
  /\ ChainNames(o) \cap CovNames(o) = {}
  /\ \A n \in CovNames(o) : ~StrContains(n, "|")
  /\ o.namesok                     \* all names are strings; names = sorted chain names, then the covariance names
  /\ SeqToSet(o.names) = ChainNames(o) \cup CovNames(o)
  /\ Len(o.names) = Cardinality(ChainNames(o) \cup CovNames(o))
  /\ \A i, j \in 1..Len(o.chains) : i < j => StrLess(o.names[i], o.names[j])
  /\ \A i \in 1..Len(o.chains) : o.names[i] = o.chains[i].name

\* clause names for diagnostics: first failing clause
WFClause(o) ==
  IF o.vkind # "float" THEN "value-not-float"
  ELSE IF \E i \in DOMAIN o.chains : ~ChainWF(o.chains[i]) THEN "chain-malformed"
  ELSE IF ~(\A i, j \in DOMAIN o.chains : i < j => StrLess(o.chains[i].name, o.chains[j].name)) THEN "names-unsorted-or-duplicate"
  ELSE IF o.N # FoldSeq(LAMBDA c, acc : acc + c.shape, 0, o.chains) THEN "N-not-sum-of-shapes"
  ELSE IF ChainNames(o) \cap CovNames(o) # {} THEN "cov-name-clash"
  ELSE IF WellFormed(o) THEN "ok" ELSE "names-list"

\* ------------------------------------------------------------------ Construct: a primary observable from samples
\* samples on one chain: replica mean r, fluctuations d = x - r
MeanOf(x) == RDiv(RSumSeq(x), RFromInt(Len(x)))
MkChain(name, idl, x) ==
  LET r == MeanOf(x) IN
  [name |-> name, idl |-> idl, isrange |-> EquallySpaced(idl), intcfg |-> TRUE, shape |-> Len(idl),
   d |-> [i \in DOMAIN x |-> RSub(x[i], r)], r |-> r]
\* chains: sequence of [name, idl, x] of ONE ensemble, in any order; the central value is the mean over all samples
ConstructValue(chs) ==
  RDiv(FoldSeq(LAMBDA c, acc : RAdd(acc, RSumSeq(c.x)), "0", chs), RFromInt(FoldSeq(LAMBDA c, acc : acc + Len(c.x), 0, chs)))
Construct(chs) ==
  LET order == SortSeq(chs, LAMBDA a, b : StrLess(a.name, b.name))
      chains == [k \in DOMAIN order |-> MkChain(order[k].name, order[k].idl, order[k].x)]
  IN [chains |-> chains, cov |-> <<>>, value |-> ConstructValue(chs), vkind |-> "float",
      names |-> [k \in DOMAIN chains |-> chains[k].name], namesok |-> TRUE,
      N |-> FoldSeq(LAMBDA c, acc : acc + Len(c.x), 0, chs), rew |-> FALSE, finite |-> TRUE]
\* the requests the constructor must reject (property C04)
ConstructRejects(chs) ==
  \/ \E i, j \in DOMAIN chs : i # j /\ chs[i].name = chs[j].name               \* duplicate names
  \/ Cardinality({Ens(chs[i].name) : i \in DOMAIN chs}) > 1                    \* several ensembles in one call
  \/ \E i \in DOMAIN chs : Len(chs[i].x) < 5                                   \* fewer than five samples
  \/ \E i \in DOMAIN chs : Len(chs[i].x) # Len(chs[i].idl)                      \* length mismatch
  \/ \E i \in DOMAIN chs : ~StrictlyIncreasing(chs[i].idl)                      \* unsorted or duplicate configuration numbers

\* ------------------------------------------------------------------ Derive: linear error propagation (property C01)
AllChainNames(ops) == UNION {ChainNames(ops[i]) : i \in DOMAIN ops}
AllCovNames(ops)   == UNION {CovNames(ops[i]) : i \in DOMAIN ops}
\* union of the configuration lists of chain n over the operands that have it
NewIdl(ops, n) == Union({Chain(ops[i], n).idl : i \in {j \in DOMAIN ops : HasChain(ops[j], n)}})

\* up-weighting of an operand that lacks whole replicas of ensemble e:
\* (ensemble size in the result) / (size of the replicas the operand has), sizes counted on the result's lists
MissingRepFactor(o, newlen, e) ==
  LET mine == {n \in ChainNames(o) : Ens(n) = e}
      all  == {n \in DOMAIN newlen : Ens(n) = e}
      Sz(S) == FoldSet(LAMBDA n, acc : acc + newlen[n], 0, S)
  IN IF Cardinality(mine) > 0 /\ Cardinality(mine) < Cardinality(all)
     THEN RDiv(RFromInt(Sz(all)), RFromInt(Sz(mine))) ELSE "1"

\* contribution of operand o (with gradient entry g) to chain n of the result, as a sequence over newidl
Contribution(o, g, n, newidl, newlen) ==
  IF ~HasChain(o, n) \/ g = "0" THEN [k \in DOMAIN newidl |-> "0"]
  ELSE LET c == Chain(o, n)
           w == RMul(g, RMul(RDiv(RFromInt(Len(newidl)), RFromInt(Len(c.idl))), MissingRepFactor(o, newlen, Ens(n))))
           pos == Positions(c.idl, newidl)
       IN TLCEval([k \in DOMAIN newidl |-> IF pos[k] = 0 THEN "0" ELSE RMul(w, c.d[pos[k]])])

RECURSIVE SumContrib(_, _, _, _, _, _)
SumContrib(ops, g, n, newidl, newlen, i) ==
  IF i > Len(ops) THEN [k \in DOMAIN newidl |-> "0"]
  ELSE RAddSeq(Contribution(ops[i], g[i], n, newidl, newlen), SumContrib(ops, g, n, newidl, newlen, i + 1))

\* expected Monte-Carlo part of f(ops) given the gradient g of f at the central values
DeriveChains(ops, g) ==
  LET names  == AllChainNames(ops)
      newidl == TLCEval([n \in names |-> NewIdl(ops, n)])
      newlen == TLCEval([n \in names |-> Len(newidl[n])])
      sorted == SortNames(names)
  IN [k \in DOMAIN sorted |->
        LET n == sorted[k] IN
        [name |-> n, idl |-> newidl[n], isrange |-> EquallySpaced(newidl[n]),
         d |-> SumContrib(ops, g, n, newidl[n], newlen, 1)]]

\* expected gradient with respect to the external covariance input n (chain rule)
DeriveCovGrad(ops, g, n) ==
  LET dim == Len(CovOf(ops[CHOOSE i \in DOMAIN ops : n \in CovNames(ops[i])], n).grad)
      Term(i) == IF n \in CovNames(ops[i]) THEN RScaleSeq(g[i], CovOf(ops[i], n).grad) ELSE [k \in 1..dim |-> "0"]
      RECURSIVE Acc(_)
      Acc(i) == IF i > Len(ops) THEN [k \in 1..dim |-> "0"] ELSE RAddSeq(Term(i), Acc(i + 1))
  IN Acc(1)

\* operands that name the same external covariance input must carry the same covariance matrix
\* (numpy.allclose tolerance of the library mirrored: 1e-5 relative, 1e-8 absolute)
CovConsistent(ops) == \A i, j \in DOMAIN ops : \A n \in CovNames(ops[i]) \cap CovNames(ops[j]) :
     LET a == CovOf(ops[i], n).cov  b == CovOf(ops[j], n).cov IN
     Len(a) = Len(b) /\ \A k \in DOMAIN a : RCloseSeq(a[k], b[k], "1/100000", "1/100000000")

\* replica-mean arguments: the operand's replica mean on chain n, its central value where it lacks the chain
RArgs(ops, n) == [i \in DOMAIN ops |-> IF HasChain(ops[i], n) THEN Chain(ops[i], n).r ELSE ops[i].value]
Values(ops)   == [i \in DOMAIN ops |-> ops[i].value]

\* operands share their replica sets, or their per-replica configuration sets:
\* the side condition under which the result is independent of how an expression is split
SameReplicaSets(ops) == \A i, j \in DOMAIN ops :
     (ChainNames(ops[i]) # {} /\ ChainNames(ops[j]) # {}) => ChainNames(ops[i]) = ChainNames(ops[j])
SameCfgSets(ops) == \A i, j \in DOMAIN ops : \A n \in ChainNames(ops[i]) \cap ChainNames(ops[j]) :
     Chain(ops[i], n).idl = Chain(ops[j], n).idl
\* (an ensemble of which some operand has only part of the replicas makes the split matter unless the lists agree)
SplitIndependent(ops) == SameReplicaSets(ops) \/ SameCfgSets(ops)

\* ------------------------------------------------------------------ Derive as an operation returning an observable
\* e: the function as the pair (value at the central values, gradient there); rv(n): value of f at the replica-mean arguments
DeriveObs(ops, g, val, rv(_)) ==
  LET ch == DeriveChains(ops, g)
      chains == [k \in DOMAIN ch |-> [name |-> ch[k].name, idl |-> ch[k].idl, isrange |-> ch[k].isrange, intcfg |-> TRUE,
                                       shape |-> Len(ch[k].idl), d |-> ch[k].d, r |-> rv(ch[k].name)]]
      cn == SortNames(AllCovNames(ops))
      cov == [k \in DOMAIN cn |-> [name |-> cn[k],
                                   cov |-> CovOf(ops[CHOOSE i \in DOMAIN ops : cn[k] \in CovNames(ops[i])], cn[k]).cov,
                                   grad |-> DeriveCovGrad(ops, g, cn[k])]]
  IN [chains |-> chains, cov |-> cov, value |-> val, vkind |-> "float",
      names |-> [k \in DOMAIN chains |-> chains[k].name] \o [k \in DOMAIN cov |-> cov[k].name], namesok |-> TRUE,
      N |-> FoldSeq(LAMBDA c, acc : acc + c.shape, 0, chains),
      rew |-> \E i \in DOMAIN ops : ops[i].rew, finite |-> TRUE]

Add2(a, b) == DeriveObs(<<a, b>>, <<"1", "1">>, RAdd(a.value, b.value), LAMBDA n : RAdd(RArgs(<<a, b>>, n)[1], RArgs(<<a, b>>, n)[2]))
Mul2(a, b) == DeriveObs(<<a, b>>, <<b.value, a.value>>, RMul(a.value, b.value), LAMBDA n : RMul(RArgs(<<a, b>>, n)[1], RArgs(<<a, b>>, n)[2]))
Div2(a, b) == DeriveObs(<<a, b>>, <<RDiv("1", b.value), RNeg(RDiv(a.value, RSq(b.value)))>>, RDiv(a.value, b.value),
                        LAMBDA n : RDiv(RArgs(<<a, b>>, n)[1], RArgs(<<a, b>>, n)[2]))

\* ------------------------------------------------------------------ samples, merge, correlate, reweight (property C05)
\* per-configuration samples of chain c: fluctuation + replica mean
SamplesOf(c) == [k \in DOMAIN c.d |-> RAdd(c.d[k], c.r)]
\* the sample of chain c at configuration number cfg
SampleAt(c, cfg) == RAdd(c.d[IndexOf(c.idl, cfg)], c.r)
SingleEnsemble(o) == Cardinality(EnsNames(o)) <= 1

\* merge_obs: the observable whose chains are the union of the inputs' chains
MergeRejects(list) == \/ \E i, j \in DOMAIN list : i # j /\ ChainNames(list[i]) \cap ChainNames(list[j]) # {}
                      \/ \E i \in DOMAIN list : list[i].cov # <<>>
                      \/ Cardinality(UNION {EnsNames(list[i]) : i \in DOMAIN list}) > 1
Merge(list) ==
  LET all == UNION {{[name |-> c.name, idl |-> c.idl, x |-> SamplesOf(c)] : c \in SeqToSet(list[i].chains)} : i \in DOMAIN list}
      o == Construct(SetToSeq(all))
  IN [o EXCEPT !.rew = \E i \in DOMAIN list : list[i].rew]

\* correlate: the observable of the per-configuration products
CorrelateRejects(a, b) == \/ ~SingleEnsemble(a) \/ ~SingleEnsemble(b)
                          \/ ChainNames(a) # ChainNames(b)
                          \/ a.cov # <<>> \/ b.cov # <<>>
                          \/ \E n \in ChainNames(a) \cap ChainNames(b) : Chain(a, n).idl # Chain(b, n).idl
Correlate(a, b) ==
  LET chs == [k \in DOMAIN a.chains |-> LET ca == a.chains[k]  cb == Chain(b, ca.name) IN
                [name |-> ca.name, idl |-> ca.idl, x |-> [i \in DOMAIN ca.idl |-> RMul(SampleAt(ca, ca.idl[i]), SampleAt(cb, ca.idl[i]))]]]
  IN [Construct(chs) EXCEPT !.rew = a.rew \/ b.rew]

\* reweight(w, o): <w*o> / <w> on o's configurations (all = TRUE: normalised on all of w's configurations)
ReweightRejects(w, o) == \/ o.cov # <<>> \/ w.cov # <<>>      \* covariance inputs present - in the observable or in the weight
                         \/ ~(ChainNames(o) \subseteq ChainNames(w))
                         \/ ~SingleEnsemble(o) \/ ~SingleEnsemble(w)
                         \/ \E n \in ChainNames(o) \cap ChainNames(w) : ~(SeqToSet(Chain(o, n).idl) \subseteq SeqToSet(Chain(w, n).idl))
Reweight(w, o, all) ==
  LET num == Construct([k \in DOMAIN o.chains |-> LET co == o.chains[k]  cw == Chain(w, co.name) IN
                 [name |-> co.name, idl |-> co.idl, x |-> [i \in DOMAIN co.idl |-> RMul(SampleAt(cw, co.idl[i]), SampleAt(co, co.idl[i]))]]])
      den == IF all THEN w
             ELSE Construct([k \in DOMAIN o.chains |-> LET co == o.chains[k]  cw == Chain(w, co.name) IN
                 [name |-> co.name, idl |-> co.idl, x |-> [i \in DOMAIN co.idl |-> SampleAt(cw, co.idl[i])]]])
  IN [Div2(num, den) EXCEPT !.rew = TRUE]

\* comparison of two observables (observed against expected), fluctuations within tolerance
ObsClose(o, x, rtol, atol) ==
  /\ Len(o.chains) = Len(x.chains)
  /\ \A k \in DOMAIN x.chains :
       /\ o.chains[k].name = x.chains[k].name /\ o.chains[k].idl = x.chains[k].idl /\ o.chains[k].isrange = x.chains[k].isrange
       /\ RCloseSeq(o.chains[k].d, x.chains[k].d, rtol, atol)
       /\ RClose(o.chains[k].r, x.chains[k].r, rtol, atol)
  /\ RClose(o.value, x.value, rtol, atol)
  /\ o.N = x.N /\ o.rew = x.rew
  /\ CovNames(o) = CovNames(x)

\* ------------------------------------------------------------------ comparison of an observed result with the expectation
DeltaScale(ops) == LET m == [i \in DOMAIN ops |-> FoldSeq(LAMBDA c, acc : RMax(acc, RMaxAbsSeq(c.d)), "0", ops[i].chains)]
                   IN FoldSeq(LAMBDA x, acc : RMax(acc, x), "0", m)

ChainsMatch(obs, exp, rtol, atol) ==
  /\ Len(obs.chains) = Len(exp)
  /\ \A k \in DOMAIN exp :
       /\ obs.chains[k].name = exp[k].name
       /\ obs.chains[k].idl = exp[k].idl
       /\ obs.chains[k].isrange = exp[k].isrange
       /\ RCloseSeq(obs.chains[k].d, exp[k].d, rtol, atol)
=============================================================================
