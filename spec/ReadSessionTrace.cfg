INIT Init
NEXT Next
POSTCONDITION Accepted
CHECK_DEADLOCK FALSE
