CONSTANTS
  TLen = 5
  NPrim = 3
  MaxObj = 9
  MaxDepth = 0
INIT TraceInit
NEXT TraceNext
POSTCONDITION Accepted
CHECK_DEADLOCK FALSE
