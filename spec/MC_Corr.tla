------------------------------- MODULE MC_Corr -------------------------------
(***************************************************************************)
(* Model run for C14 / C15 on the specification alone: for EVERY pair of   *)
(* masks of undefined timeslices (T fixed, all 2^T x 2^T pairs) the        *)
(* correlator operations of CorrOps / CorrDerived satisfy the algebra the  *)
(* properties rely on: arithmetic is undefined exactly on the union of the *)
(* operands' undefined slices, the index transformations are the stated    *)
(* permutations (inverse, involution, idempotence laws), derived           *)
(* quantities are undefined exactly where a referenced slice is.           *)
(***************************************************************************)
EXTENDS CorrDerived
CONSTANT T
VARIABLES ma, mb
Unset == <<>>
Masks == [1..T -> BOOLEAN]
NonTrivial(m) == \E t \in 1..T : ~m[t]
Slot(t, salt) == [k |-> "r", v |-> RFromInt(salt + t * t + 2), d |-> <<RFromInt(t + salt), RFromInt(1 - 2 * t), RFromInt(salt - t)>>]
MkC(m, salt) == MkCorr(T, 1, LAMBDA t : IF m[t + 1] THEN None ELSE Mat(<<<<Slot(t, salt)>>>>))
A == MkC(ma, 1)
Bc == MkC(mb, 7)
Ready == mb # Unset
Und(c) == {t \in 0..(T - 1) : IsNone(At(c, t))}
n == 3
BinC(op, x, y) == MkCorr(T, 1, LAMBDA t : IF IsNone(At(x, t)) \/ IsNone(At(y, t)) THEN None
                      ELSE Mat(<<<<Apply(B(op, V(1), V(2)), <<Entry(x, t, 1, 1), Entry(y, t, 1, 1)>>, n)>>>>))

MaskUnion == Ready => \A op \in {"add", "sub", "mul", "div"} : Und(BinC(op, A, Bc)) = Und(A) \cup Und(Bc)
Commutes  == Ready => BinC("add", A, Bc) = BinC("add", Bc, A) /\ BinC("mul", A, Bc) = BinC("mul", Bc, A)
RollLaws  == Ready => \A dt \in (0 - T)..T : Roll(Roll(A, dt), 0 - dt) = A /\ Roll(A, dt) = Roll(A, dt + T) /\ Und(Roll(A, dt)) = {Mod(t + dt, T) : t \in Und(A)}
ReverseLaws == Ready => TReverse(TReverse(A)) = A /\ Und(TReverse(A)) = {T - 1 - t : t \in Und(A)}
ThinLaws  == Ready => \A s \in 1..3 : \A o \in 0..2 : Thin(Thin(A, s, o), s, o) = Thin(A, s, o) /\ Thin(A, 1, 0) = A
                          /\ Und(Thin(A, s, o)) = Und(A) \cup {t \in 0..(T - 1) : Mod(o + t, s) # 0}
SymmLaws  == (Ready /\ T % 2 = 0) =>
               /\ \A t \in 1..(T - 1) : At(Symm(A, 1, n), t) = At(Symm(A, 1, n), T - t)
               /\ Symm(Symm(A, 1, n), 1, n) = Symm(A, 1, n)
               /\ Und(Symm(A, 1, n)) = Und(Symm(A, -1, n))
               /\ \A t \in 1..(T - 1) : IsNone(At(Symm(A, 1, n), t)) <=> (t \in Und(A) \/ (T - t) \in Und(A))
TSymLaws  == Ready => TSym(A, TReverse(A), 1, n) = BinC("mul", MkCorr(T, 1, LAMBDA t : Mat(<<<<[k |-> "n", v |-> "1"]>>>>)), A)
HankelLaws == Ready => \A N \in 1..2 :
               /\ \A t \in 0..(T - 1) : IsNone(At(Hankel(A, N, FALSE), t)) <=> (\E s \in 0..(2 * N - 2) : t + s > T - 1 \/ (t + s) \in Und(A))
               /\ \A i, j \in 1..N : Item(Hankel(A, N, TRUE), i, j) = Item(Hankel(A, N, TRUE), j, i)
               /\ \A i, j \in 1..N : \A t \in 0..(T - 1) : ~IsNone(At(Hankel(A, N, TRUE), t)) =>
                      At(Item(Hankel(A, N, TRUE), i, j), t) = At(A, Mod(t + i + j - 2, T))
DerivLaws == Ready =>
               /\ \A t \in 1..(T - 1) : At(ByFormula(A, Variant("deriv", "backward"), n), t) = At(ByFormula(A, Variant("deriv", "forward"), n), t - 1)
               /\ \A w \in {"symmetric", "forward", "backward", "improved"} : \A t \in 0..(T - 1) :
                     LET vr == Variant("deriv", w) IN
                     IsNone(At(ByFormula(A, vr, n), t)) <=> (\E k \in DOMAIN vr.ref : t + vr.ref[k] < 0 \/ t + vr.ref[k] > T - 1 \/ (t + vr.ref[k]) \in Und(A))
               /\ \A w \in {"symmetric", "big_symmetric", "improved"} : \A t \in 0..(T - 1) :
                     LET vr == Variant("second_deriv", w) IN
                     IsNone(At(ByFormula(A, vr, n), t)) <=> (\E k \in DOMAIN vr.ref : t + vr.ref[k] < 0 \/ t + vr.ref[k] > T - 1 \/ (t + vr.ref[k]) \in Und(A))
\* second derivative = forward derivative of the backward derivative (exact identity of observables)
SecondIsDerivOfDeriv == Ready => \A t \in 1..(T - 2) :
     LET sd == At(ByFormula(A, Variant("second_deriv", "symmetric"), n), t)
         bw == ByFormula(A, Variant("deriv", "backward"), n)
         fd == At(ByFormula(bw, Variant("deriv", "forward"), n), t)
     IN sd = fd

Init == ma = Unset /\ mb = Unset
Next == \/ ma = Unset /\ ma' \in {m \in Masks : NonTrivial(m)} /\ UNCHANGED mb
        \/ ma # Unset /\ mb = Unset /\ mb' \in {m \in Masks : NonTrivial(m)} /\ UNCHANGED ma
=============================================================================
