----------------------------- MODULE Gen_Format -----------------------------
(* (R) for C19: TLC enumerates the grid of the quantifier - mantissas around every rounding boundary x decades x   *)
(* value/error magnitude ratios x significance - as decimal texts; each is formatted by real pyerrors.              *)
EXTENDS Integers, Sequences, FiniteSets, SequencesExt, Str, Json, IOUtils, TLC
CONSTANTS Decades, Sigs
DecAll == -15..14
DecSmall == {-15, -8, -3, -2, -1, 0, 1, 2, 5, 14}
Mant == {"1", "1.0000000001", "1.4", "1.449", "1.45", "1.451", "1.5", "2.5", "3.49", "3.5", "4.5", "4.99", "5", "5.01",
         "9.49", "9.5", "9.51", "9.94", "9.949", "9.95", "9.951", "9.99", "9.995", "9.9995", "9.9999999999", "7.3219", "0.9999999999999999"}
VMant == {"1.2345678", "9.99995", "-4.5", "0", "-0.00049999", "5.5", "1"}
Ratio == {-6, -2, 0, 1, 3, 7}       \* decade of the value relative to the decade of the error
Scen == {[m |-> m, de |-> d, vm |-> v, dr |-> r, sig |-> s] : m \in Mant, d \in Decades, v \in VMant, r \in Ratio, s \in Sigs}
Pick == {sc \in Scen : TRUE}
Scenarios == LET q == SetToSeq(Pick) IN
   [i \in DOMAIN q |-> [id |-> StrCat("grid-", StrFromInt(i)), m |-> q[i].m, de |-> q[i].de, vm |-> q[i].vm, dr |-> q[i].dr, sig |-> q[i].sig]]
ASSUME ndJsonSerialize(IOEnv.OUT_FILE, Scenarios)
ASSUME PrintT(<<"SCENARIOS", Len(Scenarios)>>)
VARIABLE dummy
Init == dummy = 0
Next == UNCHANGED dummy
=============================================================================
