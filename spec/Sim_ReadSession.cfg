SPECIFICATION Spec
INVARIANT TypeOK
INVARIANT Increasing
CHECK_DEADLOCK FALSE
