---------------------------- MODULE CorrDerived ----------------------------
(***************************************************************************)
(* Property C15: every variant of the lattice derivatives, of the          *)
(* effective mass and of the plateau extraction as the documented formula  *)
(* over the timeslices it references.  An output timeslice is defined iff  *)
(* every referenced input timeslice is defined and the formula is a real   *)
(* number there (Expr!InDom).                                              *)
(***************************************************************************)
EXTENDS CorrOps

V(i) == [op |-> "var", i |-> i]
K(x) == [op |-> "const", v |-> x]
Add(x, y) == B("add", x, y)
Sub(x, y) == B("sub", x, y)
Mul(x, y) == B("mul", x, y)
Div(x, y) == B("div", x, y)
Log(x) == U("log", x)

\* a variant = the offsets of the referenced timeslices (relative to t) and the formula over them (leaf k = k-th offset)
Variant(what, variant) ==
  CASE what = "deriv" /\ variant = "symmetric" -> [ref |-> <<-1, 1>>, e |-> Mul(K("1/2"), Sub(V(2), V(1)))]
    [] what = "deriv" /\ variant = "forward"   -> [ref |-> <<0, 1>>, e |-> Sub(V(2), V(1))]
    [] what = "deriv" /\ variant = "backward"  -> [ref |-> <<-1, 0>>, e |-> Sub(V(2), V(1))]
    [] what = "deriv" /\ variant = "improved"  -> [ref |-> <<-2, -1, 1, 2>>,
            e |-> Mul(K("1/12"), Sub(Add(Sub(V(1), Mul(K("8"), V(2))), Mul(K("8"), V(3))), V(4)))]
    [] what = "deriv" /\ variant = "log"       -> [ref |-> <<-1, 0, 1>>, e |-> Mul(V(2), Mul(K("1/2"), Sub(Log(V(3)), Log(V(1)))))]
    [] what = "second_deriv" /\ variant = "symmetric" -> [ref |-> <<-1, 0, 1>>, e |-> Add(Sub(V(3), Mul(K("2"), V(2))), V(1))]
    [] what = "second_deriv" /\ variant = "big_symmetric" -> [ref |-> <<-2, 0, 2>>, e |-> Mul(K("1/4"), Add(Sub(V(3), Mul(K("2"), V(2))), V(1)))]
    [] what = "second_deriv" /\ variant = "improved" -> [ref |-> <<-2, -1, 0, 1, 2>>,
            e |-> Mul(K("1/12"), Sub(Add(Sub(Add(Mul(K("-1"), V(5)), Mul(K("16"), V(4))), Mul(K("30"), V(3))), Mul(K("16"), V(2))), V(1)))]
    [] what = "second_deriv" /\ variant = "log" -> [ref |-> <<-1, 0, 1>>,
            e |-> Mul(V(2), Add(Add(Sub(Log(V(3)), Mul(K("2"), Log(V(2)))), Log(V(1))),
                               B("pow", Mul(K("1/2"), Sub(Log(V(3)), Log(V(1)))), K("2"))))]
    [] what = "m_eff" /\ variant = "log"     -> [ref |-> <<0, 1>>, e |-> Log(Div(V(1), V(2)))]
    [] what = "m_eff" /\ variant = "logsym"  -> [ref |-> <<-1, 1>>, e |-> Mul(K("1/2"), Log(Div(V(1), V(2))))]
    [] what = "m_eff" /\ variant = "arccosh" -> [ref |-> <<-1, 0, 1>>, e |-> U("arccosh", Div(Add(V(3), V(1)), Mul(K("2"), V(2))))]

\* expected correlator of a formula variant
ByFormula(a, vr, n) ==
  MkCorr(a.T, 1, LAMBDA t :
     LET refs == [k \in DOMAIN vr.ref |-> t + vr.ref[k]] IN
     IF \E k \in DOMAIN refs : refs[k] < 0 \/ refs[k] > a.T - 1 THEN None
     ELSE IF \E k \in DOMAIN refs : IsNone(At(a, refs[k])) THEN None
     ELSE LET leaves == [k \in DOMAIN refs |-> Entry(a, refs[k], 1, 1)] IN
          IF ApplyDefined(vr.e, leaves) THEN Mat(<<<<Apply(vr.e, leaves, n)>>>>) ELSE None)

\* ---- effective mass by the root of a cosh / sinh ratio ----------------------------------------------------
\* m solves  F(m (t - T/2)) / F(m (t + 1 - T/2)) = c(t) / c(t+1),  F = cosh (periodic) or sinh (anti-periodic)
RatioFn(kind, m, a, b) == IF kind = "sinh" THEN RDiv(RSinh(RMul(m, a)), RSinh(RMul(m, b))) ELSE RDiv(RCosh(RMul(m, a)), RCosh(RMul(m, b)))
\* d/dm of the ratio
RatioDm(kind, m, a, b) ==
  IF kind = "sinh"
  THEN RDiv(RSub(RMul(RMul(a, RCosh(RMul(m, a))), RSinh(RMul(m, b))), RMul(RMul(b, RSinh(RMul(m, a))), RCosh(RMul(m, b)))), RSq(RSinh(RMul(m, b))))
  ELSE RDiv(RSub(RMul(RMul(a, RSinh(RMul(m, a))), RCosh(RMul(m, b))), RMul(RMul(b, RCosh(RMul(m, a))), RSinh(RMul(m, b)))), RSq(RCosh(RMul(m, b))))
\* the ratio observable d = c(t)/c(t+1)
RatioSlot(a, t, n) == Apply(Div(V(1), V(2)), <<Entry(a, t, 1, 1), Entry(a, t + 1, 1, 1)>>, n)
\* timeslices where the root variant is defined by the library's own rule
RootDefined(a, kind, t) ==
  /\ t <= a.T - 2 /\ ~IsNone(At(a, t)) /\ ~IsNone(At(a, t + 1))
  /\ Entry(a, t + 1, 1, 1).v # "0"
  /\ RLe("0", RDiv(Entry(a, t, 1, 1).v, Entry(a, t + 1, 1, 1).v))
\* sinh: the two middle timeslices copy their predecessor
SinhMiddle(a, t) == 2 * t = a.T \/ 2 * t = a.T - 2

\* ---- plateau ------------------------------------------------------------------------------------------------------
\* average over the defined timeslices of the range / constant fit = weighted mean with weights 1/dvalue^2
WeightedMean(a, ts, w, n) ==
  LET tot == RSumSeq(w)
      e == LET terms == [k \in DOMAIN ts |-> Mul(K(RDiv(w[k], tot)), V(k))]
               RECURSIVE Sum(_)
               Sum(k) == IF k = 1 THEN terms[1] ELSE Add(Sum(k - 1), terms[k])
           IN Sum(Len(ts))
  IN Apply(e, [k \in DOMAIN ts |-> Entry(a, ts[k], 1, 1)], n)
=============================================================================
