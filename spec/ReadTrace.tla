------------------------------ MODULE ReadTrace ------------------------------
(* Trace specification for C17 (readers return exactly the stored numbers at the right configurations) and C18 (truncated   *)
(* files never produce wrong numbers).                                                                                      *)
EXTENDS Readers, TraceBase
VARIABLE l

T12 == "1/1000000000000"

CheckRead(id, c, reps, what) ==
  IF c.res.k = "exc" THEN Verdict(id, what \o ": reader raised " \o c.res.t, FALSE)
  ELSE LET n == NComponents(c.fmt, reps, c.par) IN
       /\ Verdict(id, what \o ": number of returned observables", Len(c.res.obs) = n)
       /\ Len(c.res.obs) = n => \A k \in 1..n :
            LET exp == Expected(c.fmt, reps, c.par, c.sel, k) IN
            IF \E i \in DOMAIN exp : ~exp[i].ok THEN Verdict(id, what \o ": selection asks for a configuration that is not stored - must raise", FALSE)
            ELSE Verdict(id, what \o ": " \o WhyNotMatch(c.res.obs[k], exp, T12), ObsMatches(c.res.obs[k], exp, T12))

ObsSeqMatches(c, reps) ==
  LET n == NComponents(c.fmt, reps, c.par) IN
  /\ Len(c.res.obs) = n
  /\ \A k \in 1..n : LET exp == Expected(c.fmt, reps, c.par, c.sel, k) IN (\A i \in DOMAIN exp : exp[i].ok) /\ ObsMatches(c.res.obs[k], exp, T12)

CheckCase(c) ==
  LET id == c.id IN
  CASE c.ev = "read" -> CheckRead(id, c, c.reps, c.fmt)
    [] c.ev = "fit_t0" ->    \* the flow scale from (flow time, observable) pairs
         LET zc == ZeroCrossing(c.y)  win == T0Window(Len(c.x), zc, c.fr) IN
         IF c.res.k = "exc" THEN Verdict(id, "fit_t0 raised " \o c.res.t, FALSE)
         ELSE Verdict(id, "fit_t0: root of the weighted straight line through the window around the zero crossing",
                      LET root == LinFitRoot(c.x, c.y, c.dy, win) IN
                      RClose(c.res.v, IF Has(c, "sqrt") /\ c.sqrt THEN RSqrt(root) ELSE root, "1/100000000", "0"))
    [] c.ev = "trunc" ->      \* either an exception, or exactly the observables of the records that precede the cut
         IF c.res.k = "exc" THEN TRUE
         ELSE LET reps == Truncated(c.reps, c.r, c.bounds, c.cut) IN
              IF Len(reps[c.r].recs) = 0 THEN Verdict(id, c.fmt \o " cut at " \o c.cutinfo \o ": no complete record, yet a result was returned", FALSE)
              ELSE IF ObsSeqMatches(c, reps) THEN TRUE
              \* named deviation (recorded finding): the last, partial record was accepted as if complete
              \* (the first record that does not precede the cut: the one after the kept prefix of a multi-record file, or the file that was cut
              \*  when every configuration has its own file)
              ELSE IF Len(reps[c.r].recs) < Len(c.reps[c.r].recs) /\
                      LET kept == Kept(c.reps[c.r], c.bounds, c.cut)
                          first == Min({i \in DOMAIN c.reps[c.r].recs : \A q \in DOMAIN kept : kept[q] # i})
                      IN ObsSeqMatches(c, Truncated(c.reps, c.r, c.bounds, c.bounds[first][2]))
                   THEN Known(id, c.known)
              ELSE CheckRead(id, c, reps, c.fmt \o " cut at " \o c.cutinfo)
    [] c.ev = "frame" -> Verdict(id, c.what, c.before = c.after)
    [] OTHER -> Verdict(id, "unknown-event", FALSE)

Init == l = 1 /\ LoadCases
Next == /\ l <= NCases
        /\ CheckCase(Cases[l])
        /\ Consumed(l)
        /\ l' = l + 1
=============================================================================
