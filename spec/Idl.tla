-------------------------------- MODULE Idl --------------------------------
(***************************************************************************)
(* Configuration lists ("idl"): strictly increasing sequences of integer   *)
(* Monte-Carlo configuration numbers.  pyerrors holds such a list as a     *)
(* Python range exactly when it is equally spaced; the projection reports  *)
(* that as the flag isrange next to the explicit list.                     *)
(***************************************************************************)
EXTENDS Integers, Sequences, FiniteSets, SequencesExt, FiniteSetsExt, TLC

SeqToSet(s) == {s[i] : i \in DOMAIN s}
SortedSeqOf(S) == SetToSortSeq(S, <)

StrictlyIncreasing(s) == \A i \in 1..(Len(s) - 1) : s[i] < s[i + 1]
Diffs(s) == {s[i + 1] - s[i] : i \in 1..(Len(s) - 1)}
EquallySpaced(s) == Cardinality(Diffs(s)) <= 1
\* smallest spacing of a list (1 for lists shorter than 2, never needed there)
MinGap(s) == IF Len(s) < 2 THEN 1 ELSE Min(Diffs(s))
\* every spacing is a multiple of g
OnGrid(s, g) == \A x \in Diffs(s) : x % g = 0
\* number of grid points of spacing g between first and last configuration
GridLen(s, g) == (s[Len(s)] - s[1]) \div g + 1
\* position (1-based) of configuration c on the grid of spacing g anchored at the first one
GridPos(s, g, c) == (c - s[1]) \div g + 1
Union(lists) == SortedSeqOf(UNION {SeqToSet(x) : x \in lists})
Inter(a, b) == SortedSeqOf(SeqToSet(a) \cap SeqToSet(b))
\* index of configuration c in list s (0 if absent)
IndexOf(s, c) == IF \E i \in DOMAIN s : s[i] = c THEN CHOOSE i \in DOMAIN s : s[i] = c ELSE 0
\* positions in s of the elements of t (0 where absent); evaluated by tlc2.module.Idl
Positions(s, t) == [k \in DOMAIN t |-> IndexOf(s, t[k])]
Relabel(s, a, b) == [i \in DOMAIN s |-> a * s[i] + b]
=============================================================================
