---------------------------- MODULE DeriveCheck ----------------------------
(***************************************************************************)
(* Comparison of a recorded evaluation of an expression over observables   *)
(* with ObsCore!Derive and the analytic gradient of module Expr - shared   *)
(* by DeriveTrace (C01), SessionTrace (C03) and the other trace specs.     *)
(***************************************************************************)
EXTENDS ObsCore, Expr, TraceBase

Rtol(c) == IF c.mode = "num" THEN "1/1000000" ELSE IF c.mode \in {"root", "quad", "fit"} THEN "1/10000000" ELSE IF c.mode = "fitnum" THEN "1/10000" ELSE "1/1000000000"

MaxAbs(seq) == RMaxAbsSeq(seq)
SubSeqBy(seq, idx) == TLCEval([k \in DOMAIN idx |-> seq[idx[k]]])

CovMatch(obs, ops, g, ag, rtol, id) ==
  LET names == AllCovNames(ops) IN
  /\ Verdict(id, "cov.names", CovNames(obs) = names)
  /\ \A n \in names \cap CovNames(obs) :
       LET src == CovOf(ops[CHOOSE i \in DOMAIN ops : n \in CovNames(ops[i])], n)
           got == CovOf(obs, n)
           exp == DeriveCovGrad(ops, g, n)
           at  == RMul(IF rtol = "1/1000000" THEN "1/1000000" ELSE "1/1000000000", RAdd("1/1000000000000000000000000000000", MaxAbs(ag)))
       IN /\ Verdict(id, "cov.matrix", got.cov = src.cov)
          /\ Verdict(id, "cov.grad", RCloseSeq(got.grad, exp, rtol, RMax(at, "1/1000000000000000000000000000000")))

\* one real-valued result against one real expression
CheckReal(id, c, e, allops, used, res, stepwise) ==
  IF ~CovConsistent(SubSeqBy(allops, used)) THEN Verdict(id, "inconsistent-covariance-must-raise", res.k = "exc")
  ELSE IF res.k # "obs" THEN Verdict(id, "result-kind:" \o res.k, FALSE)
  ELSE IF ~res.o.finite THEN Verdict(id, "result-not-finite", FALSE)
  ELSE
  LET o    == res.o
      vals == Values(allops)
      gall == TLCEval(Grad(e, vals))
      ops  == SubSeqBy(allops, used)          \* the operands that enter this expression
      g    == SubSeqBy(gall, used)
      rtol == Rtol(c)
      exp  == TLCEval(DeriveChains(ops, g))
      dsc  == DeltaScale(ops)
      ag   == SubSeqBy(TLCEval(AGrad(e, vals)), used)
      atolD == RAdd("1/1000000000000000000000000000000", RMul(RMul(Rtol(c), MaxAbs(ag)), dsc))
      ev   == Eval(e, vals)
      atolV == RMul(IF c.mode \in {"root", "quad", "fit", "fitnum"} THEN "1/100000000" ELSE "1/100000000000", RAdd("1", AVal(e, vals)))
  IN /\ Verdict(id, "wellformed:" \o WFClause(o), WellFormed(o))
     /\ Verdict(id, "value", RClose(o.value, ev, rtol, atolV))
     /\ Verdict(id, "chains.names", [k \in DOMAIN o.chains |-> o.chains[k].name] = [k \in DOMAIN exp |-> exp[k].name])
     /\ IF Len(o.chains) # Len(exp) THEN TRUE ELSE
        /\ Verdict(id, "chains.idl", \A k \in DOMAIN exp : o.chains[k].idl = exp[k].idl)
        /\ Verdict(id, "chains.isrange", \A k \in DOMAIN exp : o.chains[k].isrange = exp[k].isrange)
        /\ IF \E k \in DOMAIN exp : o.chains[k].idl # exp[k].idl THEN TRUE
           ELSE Verdict(id, "chains.deltas", \A k \in DOMAIN exp : RCloseSeq(o.chains[k].d, exp[k].d, rtol, atolD))
        /\ IF stepwise THEN TRUE    \* replica means of intermediate steps are f of f's, compared in the one-step modes
           ELSE Verdict(id, "chains.rvalues", \A k \in DOMAIN exp :
                   RClose(o.chains[k].r, Eval(e, RArgs(allops, exp[k].name)), rtol, RMul("10", atolV)))
     /\ CovMatch(o, ops, g, ag, rtol, id)
     /\ Verdict(id, "reweighted", o.rew = (\E i \in DOMAIN ops : ops[i].rew))

\* all leaves carry the same chains, configuration lists and covariance inputs
SameLayout(ops) == \A i, j \in DOMAIN ops :
     /\ ChainNames(ops[i]) = ChainNames(ops[j]) /\ CovNames(ops[i]) = CovNames(ops[j])
     /\ \A n \in ChainNames(ops[i]) : Chain(ops[i], n).idl = Chain(ops[j], n).idl

\* a part of a complex result; it may be a plain real number when no observable contributes to it
CheckPart(id, c, e, ops, res, tag) ==
  IF res.k = "num"
  THEN /\ Verdict(id, tag \o ".value", RClose(res.v, Eval(e, Values(ops)), "1/1000000000", "1/1000000000000"))
       /\ Verdict(id, tag \o ".number-but-depends-on-observables", RMaxAbsSeq(Grad(e, Values(ops))) = "0")
  ELSE LET used == SetToSortSeq(Vars(e), <) IN
       IF used = <<>> THEN Verdict(id, tag \o ".observable-from-nothing", FALSE)
       ELSE CheckReal(id \o "." \o tag, c, e, ops, used, res, TRUE)

\* ---- roots of observable-dependent functions (property C09) ------------------------------------------------
\* c.f: expression of f(x, d) with leaf 1 = x and leaves 2.. = the entries of d; c.ops: the observables d; c.res: the root.
\* The root satisfies f(x, d) = 0 at the central values and fluctuates like the inverse function:
\*    delta x = - sum_i (df/dd_i) / (df/dx) delta d_i        (analytic derivatives by Expr!Grad)
LinearIn(cs, x0, dvals) ==
  LET n == Len(cs)
      terms == [i \in 1..n |-> B("mul", C(cs[i]), [op |-> "var", i |-> i])]
      off == RSub(x0, RDot(cs, dvals))
      RECURSIVE Sum(_)
      Sum(i) == IF i = 0 THEN C(off) ELSE B("add", Sum(i - 1), terms[i])
  IN Sum(n)
CheckRootCase(c) ==
  LET id == c.id IN
  IF c.res.k # "obs" THEN Verdict(id, "root: result-kind " \o c.res.k, FALSE)
  ELSE IF c.res.o.value = "nan" THEN Verdict(id, "root: the returned central value is not a number", FALSE)
  \* named deviation (recorded finding): the solver gave up and its starting point came back as if it were the root
  ELSE IF "guess" \in DOMAIN c /\ c.res.o.value = c.guess
          /\ ~RClose(Eval(c.f, <<c.guess>> \o Values(c.ops)), "0", "0", RMul("1/1000", RAdd("1", AVal(c.f, <<c.guess>> \o Values(c.ops)))))
       THEN Known(id, "find_root returns its starting point without any error when the solver fails to converge")
  ELSE LET x == c.res.o.value
           dvals == Values(c.ops)
           vals == <<x>> \o dvals
           g == Grad(c.f, vals)
           scale == RAdd("1", AVal(c.f, vals))
       IN /\ Verdict(id, "root: f(x, d) = 0 at the central values", RClose(Eval(c.f, vals), "0", "0", RMul("1/100000000", scale)))
          /\ Verdict(id, "root: df/dx away from zero", ~RClose(g[1], "0", "0", RMul("1/1000000", scale)))
          /\ LET cs == [i \in 1..Len(dvals) |-> RNeg(RDiv(g[i + 1], g[1]))] IN
             CheckReal(id, [c EXCEPT !.mode = "root"], LinearIn(cs, x, dvals), c.ops, [k \in DOMAIN c.ops |-> k], c.res, TRUE)
          \* for an explicitly invertible f the root equals the inverse applied directly
          /\ IF "inv" \in DOMAIN c THEN CheckReal(id \o ".inverse", [c EXCEPT !.mode = "root"], c.inv, c.ops, [k \in DOMAIN c.ops |-> k], c.res, TRUE) ELSE TRUE

CheckDeriveCase(c) ==
  LET id == c.id IN
  CASE c.ev = "expr" ->
         \* a step-by-step evaluation equals the one-step propagation only under the side condition of C01
         IF c.mode = "step" /\ ~SplitIndependent(c.ops) THEN Skip(id, "split-dependent layout")
         ELSE CheckReal(id, c, c.expr, c.ops, [k \in DOMAIN c.ops |-> k], c.res, c.mode \in {"step", "quad"})   \* quad states value and fluctuations only
    [] c.ev = "cexpr" ->
         IF ~SameLayout(c.ops) THEN Skip(id, "complex expression over differing layouts")
         ELSE LET ce == Complexify(c.expr) IN
              IF c.res.k # "cobs" THEN Verdict(id, "result-kind:" \o c.res.k, FALSE)
              ELSE /\ CheckPart(id, c, ce.re, c.ops, c.res.re, "re")
                   /\ CheckPart(id, c, ce.im, c.ops, c.res.im, "im")
    [] c.ev = "root" -> CheckRootCase(c)
    [] c.ev = "plainnum" ->    \* nothing is an observable: the plain number (scipy's result)
         /\ Verdict(id, "plain number expected", c.res.k = "num")
         /\ c.res.k = "num" => Verdict(id, "value", RClose(c.res.v, Eval(c.expr, <<>>), "1/1000000000", "1/1000000000000"))
    [] c.ev = "sameplain" ->   \* nothing is an observable: exactly what scipy returns for the same call (every entry of the returned tuple)
         /\ Verdict(id, "returned " \o c.got.k \o " where scipy returns " \o c.want.k, c.got.k = c.want.k)
         /\ c.got.k = c.want.k => Verdict(id, "equals scipy's result with the same keywords", c.got.v = c.want.v)
    [] c.ev = "raises" ->
         Verdict(id, "must-raise", c.res.k = "exc")
    [] c.ev = "frame" -> Verdict(id, c.what, c.before = c.after)
    [] OTHER -> Verdict(id, "unknown-event", FALSE)
=============================================================================
