CONSTANTS
  Ts = {2,3,4,5,6,7,8}
INIT Init
NEXT Next
CHECK_DEADLOCK FALSE
