---------------------------- MODULE CorrCompare ----------------------------
(***************************************************************************)
(* Comparison of an observed (projected) correlator with the correlator    *)
(* the specification computed: same undefined timeslices, every entry      *)
(* close in value and in every fluctuation.  Shared by CorrTrace and       *)
(* CorrSessionTrace.                                                       *)
(***************************************************************************)
EXTENDS CorrOps

R9 == "1/1000000000"
Atol(s) == RMul("1/100000000000", RAdd("1/1000000000000000000", s))

\* ---- comparison of correlators ------------------------------------------------------------------------------
PartClose(x, y, sc) ==       \* x observed part of a complex slot ("r" or "n"), y expected real slot
  IF x.k = "r" THEN SlotClose(x, y, R9, Atol(sc))
  ELSE IF x.k = "n" THEN RClose(x.v, y.v, R9, Atol(sc)) /\ RMaxAbsSeq(y.d) = "0"
  ELSE FALSE
EntryClose(x, y, sc) ==      \* y expected: [k "r"..] or [k "c", re, im]
  IF y.k = "r" THEN SlotClose(x, y, R9, Atol(sc))
  ELSE x.k = "c" /\ PartClose(x.re, y.re, sc) /\ PartClose(x.im, y.im, sc)
SliceScale(s) == IF IsNone(s) THEN "0" ELSE FoldSeq(LAMBDA row, acc : FoldSeq(LAMBDA x, a2 : RMax(a2, SlotScale(x)), acc, row), "0", s.m)
CorrScale(c) == FoldSeq(LAMBDA s, acc : RMax(acc, SliceScale(s)), "0", c.content)
SliceClose(x, y, sc) == IF IsNone(y) THEN IsNone(x)
                        ELSE /\ ~IsNone(x) /\ Len(x.m) = Len(y.m)
                             /\ \A i \in DOMAIN y.m : Len(x.m[i]) = Len(y.m[i]) /\ \A j \in DOMAIN y.m[i] : EntryClose(x.m[i][j], y.m[i][j], sc)
MaskOf(c) == [t \in 1..c.T |-> IsNone(c.content[t])]
AllNone(c) == \A t \in 1..c.T : IsNone(c.content[t])

=============================================================================
