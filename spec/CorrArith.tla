----------------------------- MODULE CorrArith -----------------------------
(***************************************************************************)
(* Correlator arithmetic and elementary functions (property C14): the      *)
(* expected correlator of  self (op) partner  /  partner (op) self  and of *)
(* f(self), timeslice-wise and entry-wise through Expr.  Used by CorrTrace *)
(* (single validated events) and by CorrSession (the correlator state      *)
(* machine).                                                               *)
(***************************************************************************)
EXTENDS CorrOps

\* ---- arithmetic ---------------------------------------------------------------------------------------------
LeavesOf(x) == IF x.k = "c" THEN <<x.re, x.im>> ELSE <<x>>
CExprOf(x, off) == IF x.k = "c" THEN [op |-> "cvar", re |-> off + 1, im |-> off + 2] ELSE [op |-> "rvar", i |-> off + 1]
RExprOf(x, off) == IF x.k = "n" THEN C(x.v) ELSE [op |-> "var", i |-> off + 1]
IsCx(x) == x.k = "c"
\* expected entry of  self (op) partner  /  partner (op) self
BinEntry(op, s, p, selfLeft, n) ==
  IF ~IsCx(s) /\ ~IsCx(p)
  THEN LET e == IF selfLeft THEN B(op, RExprOf(s, 0), RExprOf(p, 1)) ELSE B(op, RExprOf(p, 1), RExprOf(s, 0))
           leaves == <<s, p>>
       IN IF ApplyDefined(e, leaves) THEN Apply(e, leaves, n) ELSE None
  ELSE LET ls == LeavesOf(s)  lp == LeavesOf(p)  leaves == ls \o lp
           es == CExprOf(s, 0)  ep == CExprOf(p, Len(ls))
           ce == Complexify(IF selfLeft THEN B(op, es, ep) ELSE B(op, ep, es))
       IN IF ApplyDefined(ce.re, leaves) /\ ApplyDefined(ce.im, leaves)
          THEN [k |-> "c", re |-> Apply(ce.re, leaves, n), im |-> Apply(ce.im, leaves, n)] ELSE None
\* partner at timeslice t, entry (i,j): a correlator partner with N = 1 broadcasts over the matrix, as does a scalar
PartnerEntry(p, t, i, j) == IF p.k = "corr" THEN (IF p.c.N = 1 THEN Entry(p.c, t, 1, 1) ELSE Entry(p.c, t, i, j)) ELSE p.x
PartnerNone(p, t) == p.k = "corr" /\ IsNone(At(p.c, t))
SelfEntry(a, t, i, j) == IF a.N = 1 THEN Entry(a, t, 1, 1) ELSE Entry(a, t, i, j)
Arith(a, op, p, selfLeft, n) ==
  LET N == IF p.k = "corr" /\ p.c.N > a.N THEN p.c.N ELSE a.N IN
  MkCorr(a.T, N, LAMBDA t :
     IF IsNone(At(a, t)) \/ PartnerNone(p, t) THEN None
     ELSE LET m == [i \in 1..N |-> [j \in 1..N |-> BinEntry(op, SelfEntry(a, t, i, j), PartnerEntry(p, t, i, j), selfLeft, n)]]
          IN IF \E i, j \in 1..N : m[i][j] = None THEN None ELSE Mat(m))
Func(a, fn, n) ==
  MkCorr(a.T, a.N, LAMBDA t :
     IF IsNone(At(a, t)) THEN None
     ELSE LET e == U(fn, [op |-> "var", i |-> 1])
              ok == \A i, j \in 1..a.N : ApplyDefined(e, <<Entry(a, t, i, j)>>)
          IN IF ~ok THEN None ELSE Mat([i \in 1..a.N |-> [j \in 1..a.N |-> Apply(e, <<Entry(a, t, i, j)>>, n)]]))

=============================================================================
