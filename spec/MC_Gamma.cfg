CONSTANTS
  U = 8
  MinLen = 5
  Alphabet <- Alpha3
INIT Init
NEXT Next
INVARIANT TauAtLeastHalf
INVARIANT SquaresNonNeg
INVARIANT WindowInRange
INVARIANT NaiveLimit
INVARIANT ConstantIsZero
INVARIANT RelabelInvariant
INVARIANT ScaleCovariant
INVARIANT TailInRange
CHECK_DEADLOCK FALSE
