CONSTANTS
  EnsSet = {"A", "B"}
  PVals = {1, 2, 3}
  MaxObj = 5
  MaxDepth = 14
SPECIFICATION Spec
INVARIANT TypeOK
INVARIANT CacheIsOfCurrentData
INVARIANT ReweightedInherited
ACTION_CONSTRAINT SimBias
CHECK_DEADLOCK FALSE
