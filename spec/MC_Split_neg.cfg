CONSTANTS
  Reps = {1, 2}
  Cfgs = {1, 2}
INIT Init
NEXT Next
INVARIANT InvAlways
CHECK_DEADLOCK FALSE
